#!/venv/bin/python
"""Confirm a seeded change: (1) with the patch the repository's pinned tests still pass exactly like the
baseline, (2) the demonstration fails with the patch and passes without it.
usage: seed_confirm.py <patch.diff> <demo.py>   -> prints a JSON line, exit 0 if confirmed"""
import json, os, subprocess, sys, tempfile, xml.etree.ElementTree as ET

patch, demo = map(os.path.abspath, sys.argv[1:3])
base = json.load(open("/root/.vp/BASELINE.json"))
wt = tempfile.mkdtemp(prefix="seedconf-", dir="/tmp")
os.rmdir(wt)
subprocess.run(["git", "-C", "/repo", "worktree", "add", "-q", "--detach", wt, "HEAD"], check=True)
res = {"patch": patch}
try:
    env = dict(os.environ, PYTHONPATH=os.path.join(wt, "src"))
    env.pop("ONNX_IR_PY_VERIF", None)
    r0 = subprocess.run(["/venv/bin/python", demo], cwd=wt, env=env, capture_output=True, text=True, timeout=600)
    res["demo_clean_rc"] = r0.returncode
    a = subprocess.run(["git", "-C", wt, "apply", patch], capture_output=True, text=True)
    res["applies"] = a.returncode == 0
    if a.returncode == 0:
        r1 = subprocess.run(["/venv/bin/python", demo], cwd=wt, env=env, capture_output=True, text=True, timeout=600)
        res["demo_patched_rc"] = r1.returncode
        res["demo_patched_tail"] = (r1.stdout + r1.stderr)[-300:]
        xml = os.path.join(wt, "junit.xml")
        cmd = base["cmd"].replace("cd /repo", f"cd {wt}").replace("<file>", xml)
        subprocess.run(cmd, shell=True, env=env, stdout=subprocess.DEVNULL, stderr=subprocess.DEVNULL)
        passed = set()
        for tc in ET.parse(xml).getroot().iter("testcase"):
            if not any(ch.tag in ("failure", "error", "skipped") for ch in tc):
                passed.add(f"{tc.get('classname')}::{tc.get('name')}")
        missing = sorted(set(base["stable_pass"]) - passed)
        res["stable_missing"] = len(missing)
        res["missing_sample"] = missing[:3]
finally:
    subprocess.run(["git", "-C", "/repo", "worktree", "remove", "--force", wt])
ok = res.get("applies") and res.get("demo_clean_rc") == 0 and res.get("demo_patched_rc", 0) != 0 and res.get("stable_missing") == 0
res["confirmed"] = bool(ok)
print(json.dumps(res))
sys.exit(0 if ok else 1)
