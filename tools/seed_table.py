#!/venv/bin/python
"""Markdown table of the seeded changes of one round (for DESIGN.md section 9):
usage: tools/seed_table.py <first suffix> <last suffix>     e.g. 7 8 for round 5."""
import glob
import json
import os
import re
import sys

HERE = os.path.dirname(os.path.abspath(__file__))


def main():
    lo, hi = int(sys.argv[1]), int(sys.argv[2])
    print("| seed | what it needs to manifest | caught by (signature) | notes |")
    print("|---|---|---|---|")
    for d in sorted(glob.glob(os.path.join(HERE, "..", "seeded", "C*-*"))):
        sid = os.path.basename(d)
        k = int(sid.split("-")[1])
        if not lo <= k <= hi:
            continue
        m = json.load(open(os.path.join(d, "meta.json")))
        what = re.sub(r"^C\d+\s*(/\s*r\d+\s*/?|r\d+)?\s*/?\s*change \d+\s*-\s*", "", m["needs_to_manifest"])
        lines = list(m.get("try_seed_output", []))
        for r in m.get("retests", []):
            lines += r.get("output", [])
        sig = ""
        for line in reversed(lines):
            mm = re.search(r"== (C\d+) rc=1 .*?violation signature: ([^;]+)", line)
            if mm and mm.group(1) == m["property"]:
                sig = mm.group(2).strip()
                break
        if not sig:
            for line in reversed(lines):
                mm = re.search(r"== (C\d+) rc=1 .*?violation signature: ([^;]+)", line)
                if mm:
                    sig = mm.group(2).strip()
                    break
        by = ", ".join(m["detected_by"]) or "**not caught**"
        note = (m.get("detection_notes") or "").replace("|", "/")
        if m.get("superseded"):
            note = ("superseded: " + str(m["superseded"]) + " " + note).strip()
        print(f"| {sid} | {what[:140]} | {by} (`{sig[:90]}`) | {note[:400]} |")


main()
