#!/bin/bash
# usage: tools/run_all.sh quick|thorough  -> one summary line per check (used for background sweeps)
cd "$(dirname "$0")/.."
for c in C01 C02 C03 C04 C05 C06 C07 C08 C09 C10 C11 C12 C13 C14 C15 C16 C17 C18 C19 C20; do
  s=$(date +%s)
  out=$(./vf check $c --tier "$1" 2>&1); rc=$?
  echo "== $c rc=$rc $(( $(date +%s) - s ))s :: $(echo "$out" | grep -E '^\[C' | tail -1)"
  echo "$out" | grep -E "violation signature|KNOWN-FINDING|MACHINERY" | cut -c1-200 | head -12
done
