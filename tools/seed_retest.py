#!/venv/bin/python
"""Re-run the quick tier of the given checks against a seeded change and update its meta.json.
usage: tools/seed_retest.py <Cxx-k> "<what was strengthened>" [checks ...]"""
import json, os, re, subprocess, sys
sid, note = sys.argv[1], sys.argv[2]
checks = sys.argv[3:] or [sid.split("-")[0]]
d = f"/verif/seeded/{sid}"
tr = subprocess.run(["/verif/tools/try_seed.sh", f"{d}/patch.diff", "quick"] + checks, capture_output=True, text=True)
m = json.load(open(f"{d}/meta.json"))
det = set(m.get("detected_by", []))
first_missed = not det
lines = []
for line in tr.stdout.splitlines():
    lines.append(line[:400])
    mm = re.match(r"== (C\d+) rc=(\d+)", line)
    if mm and mm.group(2) == "1":
        det.add(mm.group(1))
m["detected_by"] = sorted(det)
m.setdefault("retests", []).append({"checks": checks, "output": lines, "strengthened": note})
if first_missed and det:
    m["detection_notes"] = "first missed; caught after: " + note
json.dump(m, open(f"{d}/meta.json", "w"), indent=1)
print(sid, sorted(det), " | ".join(lines)[:500])
