#!/bin/bash
# usage: tools/try_seed.sh <patch.diff> <tier> <Cxx> [<Cyy> ...]
# Runs the given checks against a scratch worktree of /repo with the patch applied (so that /repo
# itself is not disturbed while other work is running); prints one line per check. The evidence files
# these runs write are restored from git afterwards.
set -u
PATCH=$(readlink -f "$1"); TIER=$2; shift 2
WT=$(mktemp -d /tmp/tryseed-XXXX)
rmdir "$WT"
git -C /repo worktree add -q --detach "$WT" HEAD || exit 2
if ! git -C "$WT" apply "$PATCH"; then echo "PATCH DOES NOT APPLY"; git -C /repo worktree remove --force "$WT"; exit 2; fi
cd /verif
for C in "$@"; do
  OUT=$(VERIF_REPO="$WT" PYTHONPATH="$WT/src" ./vf check "$C" --tier "$TIER" 2>&1); RC=$?
  echo "== $C rc=$RC $(echo "$OUT" | grep -c '^VIOLATION') violations; $(echo "$OUT" | grep 'violation signature' | head -3 | tr '\n' ';')"
  echo "$OUT" | grep -E "MACHINERY|Traceback" | head -3
done
git -C /verif checkout -q -- evidence 2>/dev/null
git -C /repo worktree remove --force "$WT"
