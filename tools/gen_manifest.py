#!/venv/bin/python
"""Regenerate MANIFEST.json from the table below (kept in one place so it is always valid)."""
import json, os, sys
HERE = os.path.dirname(os.path.dirname(os.path.abspath(__file__)))
sys.path.insert(0, os.path.join(HERE, "tools"))
from manifest_table import CHECKS, NOT_APPLICABLE, ENGINES  # noqa: E402

checks = []
for pid, c in sorted(CHECKS.items()):
    checks.append({
        "property_id": pid,
        "quick_cmd": f"./vf check {pid} --tier quick",
        "thorough_cmd": f"./vf check {pid} --tier thorough",
        "evidence_file": f"/verif/evidence/{pid}.json",
        "replay_cmd_template": "./vf replay {path}",
        "engine": c["engine"],
        "level_claimed": {"category": c.get("category", "model_checking"), "text": c["text"], "design_ref": c["design_ref"]},
        "level_note": c["note"],
        "technique": c["technique"],
    })
m = {
    "version": 1,
    "setup_cmd": "./vf setup",
    "hooks": {
        "guard": "ONNX_IR_PY_VERIF",
        "enable": "no source hooks are needed: checks observe onnx_ir through its public API (and, for C09, through shims installed in the module namespace by the harness); ./vf exports ONNX_IR_PY_VERIF=1 for uniformity",
        "baseline_off_cmd": "tools/baseline_off.py",
        "source_commits": [],
        "add_only": True,
    },
    "engines": ENGINES,
    "checks": checks,
    "not_applicable": [{"property_id": p, "reason": r} for p, r in sorted(NOT_APPLICABLE.items())],
    "notes": "TLA+ specifications under /verif/specs, checked with TLC and bound to /repo by replay of TLC-generated states/behaviours into the real library and by TLC trace validation of executions recorded from the real library. Genuine defects repaired in /repo are 'fix:' commits listed in known_findings.json (status fixed); unrepaired ones are status known.",
}
with open(os.path.join(HERE, "MANIFEST.json"), "w") as f:
    json.dump(m, f, indent=1)
    f.write("\n")
print("wrote MANIFEST.json with", len(checks), "checks,", len(m["not_applicable"]), "not_applicable")
