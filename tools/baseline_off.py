#!/venv/bin/python
"""Run the repository's pinned test suite with the verification guard OFF and compare the set of
passing tests with /root/.vp/BASELINE.json (stable_pass).  Exit 0 iff every stable test passes."""
import json
import os
import subprocess
import sys
import tempfile
import xml.etree.ElementTree as ET

base = json.load(open("/root/.vp/BASELINE.json"))
env = dict(os.environ)
env.pop("ONNX_IR_PY_VERIF", None)
with tempfile.TemporaryDirectory() as d:
    xml = os.path.join(d, "junit.xml")
    cmd = base["cmd"].replace("<file>", xml)
    p = subprocess.run(cmd, shell=True, env=env, stdout=subprocess.PIPE, stderr=subprocess.STDOUT, text=True)
    tail = p.stdout[-1500:]
    passed = set()
    for tc in ET.parse(xml).getroot().iter("testcase"):
        if not any(ch.tag in ("failure", "error", "skipped") for ch in tc):
            passed.add(f"{tc.get('classname')}::{tc.get('name')}")
stable = set(base["stable_pass"])
missing = sorted(stable - passed)
print(f"stable={len(stable)} passed_now={len(passed)} stable_missing={len(missing)}")
for m in missing[:40]:
    print("MISSING", m)
if missing:
    print(tail)
sys.exit(1 if missing else 0)
