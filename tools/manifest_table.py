ENGINES = [
    {"name": "irgraph", "path": "specs/ir/IRGraph.tla", "serves_properties": ["C01", "C06"],
     "kind_free_text": "TLA+ state machine of Value/Node/Graph and the tracked containers; TLC exhaustive per focus cfg (IRGraphMC_*.cfg) + IRGraphTrace.tla trace validation; harness/vfh/irdrive.py, irreplay.py, irtrace.py, ircheck.py"},
    {"name": "irclone", "path": "specs/ir/IRClone.tla", "serves_properties": ["C13"],
     "kind_free_text": "IRGraph extended with nesting, attribute-level state and the cloner (CloneGraph transcribes _cloner.py); IRCloneMC.tla; harness/vfh/irclone.py"},
]

CHECKS = {
    "C01": dict(
        engine="irgraph", design_ref="DESIGN.md §3, §4 C01",
        technique="TLC model checking of IRGraph.tla + replay of every explored (state, call) into onnx_ir + TLC trace validation of recorded executions",
        text="TLC explores every history of the public mutator alphabet (incl. rejected calls) over a small universe and checks the six use-def/ownership invariants and the reference-counting mechanism on the design; every explored (state, call) pair is executed on real onnx_ir objects and the full observable projection compared with the model's successor; long random executions of the real code over a larger universe are validated event by event against the spec by TLC, which evaluates the invariants on every observed state.",
        note="small-scope hypothesis for the exhaustive part (<=2 graphs, <=8 values, <=3 nodes, <=3 calls after seed histories); objects observed through public accessors; TLC, CPython trusted",
    ),
    "C06": dict(
        engine="irgraph", design_ref="DESIGN.md §3, §4 C06",
        technique="TLC model checking of IRGraph.tla (RejectAtomic) + replay of every rejecting (state, call) into onnx_ir with full snapshot comparison + TLC trace validation",
        text="the specification classifies, for every reachable state and every candidate call/argument choice, which calls must be rejected (action property RejectAtomic: rejected => state unchanged); each such call is executed on the real objects from the same state and the complete observable snapshot must be identical before and after; recorded executions are checked by TLC for 'raised => observed state unchanged' on every event.",
        note="as C01; 'every observable property' = projection + node/value attribute snapshot taken through public accessors",
    ),
}

CHECKS["C13"] = dict(
    engine="irclone", design_ref="DESIGN.md §4 C13",
    technique="TLC model checking of IRClone.tla (clone at any state, then edits on either copy) + replay of every (state, call) into onnx_ir with cell-level independence comparison",
    text="the specification allocates fresh objects for everything a cloned graph defines and makes every edit touch exactly one object; TLC checks closedness/freshness of clones on the design and enumerates clone points followed by edits of structure, names, types, shapes, constants, metadata and attributes on either copy; each (state, call) is executed on real objects through Graph/GraphView/Model/Function.clone and any observable cell that changes although the model leaves it untouched is shared state between the copies; object identity of containers, closedness and serialization equality are checked at the clone step.",
    note="small scope (nesting <=2, <=4 graphs, <=2-3 calls after seed); object identity of metadata containers inspected through private attributes only to compare identity",
)

ENGINES.append({"name": "journal", "path": "specs/ir/Journal.tla", "serves_properties": ["C20"],
                "kind_free_text": "journal stack + per-call transcription of instrumented operations (JOps) over IRGraph; JournalMC.tla; harness/vfh/irjournal.py (twin replay plain vs journaled)"})
CHECKS["C20"] = dict(
    engine="journal", design_ref="DESIGN.md §4 C20",
    technique="TLC model checking of JournalMC.tla + twin replay (plain vs inside real Journal contexts) of every explored (state, step)",
    text="the specification keeps the IR state a function of the un-journaled history (Transparent), grows exactly the active journals by the instrumented operations of each call (OneEntry, transcribed per call from the wrappers) and nests journals as a stack; TLC explores enter/exit/exit-by-exception interleaved with the mutator alphabet incl. rejected calls; every state's history and every candidate step are executed twice on real objects, plainly and under real Journals, comparing outcome, full projection, appended entries per journal, the class-attribute table after every exit (function identity), and that entries do not keep IR objects alive.",
    note="properly nested journals; nesting <= 2 (quick) / 3 (thorough); entries of raising operations tolerated (weak reading)",
)

ENGINES.append({"name": "multidevice", "path": "specs/ir/MultiDevice.tla", "serves_properties": ["C19"],
                "kind_free_text": "annotations bound to value/configuration object ids over IRGraph; shard/set_pipeline_stage/add/remove(cascade) transcribed with rejection branches; MultiDeviceMC.tla; harness/vfh/irmd.py"})
CHECKS["C19"] = dict(
    engine="multidevice", design_ref="DESIGN.md §4 C19",
    technique="TLC model checking of MultiDeviceMC.tla (NoDangle/WellFormed invariants) + replay of every (state, call) into a real ir.Model + per-state checker / serialization / round-trip / clone checks against the spec's SerAnn",
    text="annotations are modelled as bound to value and configuration object ids; TLC checks NoDangle, WellFormed and Canonical over all interleavings of annotation calls (incl. every rejection branch) with graph edits and renames; every explored (state, call) is executed on a real model comparing the annotation projection by identity; on every state the library's own device-configuration check must be silent, the serialized references must equal the spec's prediction by current names, and IR-version-11 round trip and Model.clone must preserve them.",
    note="small scope: 2 nodes, <=9 values, <=2 configurations, <=2-3 calls after the seed; assumptions listed in evidence",
)

ENGINES.append({"name": "rewrite", "path": "specs/rewrite/Rewrite.tla", "serves_properties": ["C05", "C14"],
                "kind_free_text": "abstract dataflow programs with Herbrand denotation (Rewrite.tla), complete small-program generator (RewriteMC.tla), validation of observed pass applications (RewriteTrace.tla), pass contract / ONNX boundary with faults (PassContract.tla), combinators (PassManager.tla); harness/vfh/rewrite.py (concretize/abstract), passrun.py, passcheck.py, irobs.py + specs/ir/ObsCheck.tla"})
CHECKS["C05"] = dict(
    engine="rewrite", design_ref="DESIGN.md §4 C05",
    technique="TLC-generated corpus of abstract programs concretised to ONNX + TLC evaluation of Herbrand-denotation equality on the abstraction of every real pass application (translation validation against the TLA+ semantics) + concrete witness",
    text="TLC enumerates every small abstract program (control flow with captures, functions with attribute parameters, optional I/O, multi-output nodes, duplicate constants/initializers, outputs aliasing inputs); each is concretised to a checker-valid model, every built-in pass and several pass sequences are run on fresh copies, the results are abstracted back and TLC evaluates interface preservation and equality of Herbrand denotations (equal outputs for all inputs and all operator interpretations); a violation is reported only with a concrete witness (different outputs on seeded inputs, changed arity/inputs, or the ONNX checker rejecting the result).",
    note="small scope (<=2 main-graph nodes plus bodies/functions, sampled in the quick tier); operator semantics uninterpreted; witnesses use onnx ReferenceEvaluator/onnxruntime; the abstraction function is validated by abstract(concretize(P)) = P on every program",
)
CHECKS["C14"] = dict(
    engine="rewrite", design_ref="DESIGN.md §4 C14",
    technique="TLC model checking of PassContract.tla (ONNX call boundary with faults) and PassManager.tla + TLC trace validation of recorded pass applications (contract formulas, C01 invariants on every resulting model) + fault replay on real CheckerPass/ShapeInferencePass",
    text="the call boundary is specified as an action system with a fault at every step and the requirement 'entry model restored at every exit'; combinators are checked to preserve the flag/identity contracts; every real pass application on the TLC-generated corpus is recorded (object identity, modified flag vs byte-level change, re-application rounds, sortedness, naming) and TLC evaluates Identity/FlagSound/Fixpoint/NoDamage/AnalysisOnly on each record and the C01 invariants on each resulting model; every entry model x fault position of the boundary is replayed on the real analysis passes with a full snapshot comparison.",
    note="convergence required of single passes only; modified=False compared against deterministic proto bytes; faults injected by a raising LazyTensor and by patching onnx.checker/shape_inference in the harness process",
)

ENGINES.append({"name": "pathcontain", "path": "specs/extdata/PathContain.tla", "serves_properties": ["C10"],
                "kind_free_text": "TLA+ model of a small POSIX file system (symlinks, hard links), posixpath join/normpath/abspath/dirname/realpath and the kernel's path walk, ExternalTensor's 3-layer containment check + open, the tensor access protocol and ir.load's base_dir derivation; PathContainMC.tla (_enum/_proto/_loaddev cfgs); harness/vfh/pathcontain.py, checks/c10.py"})
CHECKS["C10"] = dict(
    engine="pathcontain", design_ref="DESIGN.md §4 C10",
    technique="TLC model checking of PathContain.tla + replay of every enumerated configuration and protocol history into onnx_ir + conformance of the environment model with the real kernel",
    text="TLC proves FailClosed, NoOverReject(Plain), LoadBase and realpath/kernel agreement on every enumerated (file-system instance, base spelling, location string) configuration and NoByteBeforeCheck/BytesFromCheckedOpen on every access history of one tensor; each configuration is materialised on disk with canary bytes and read through every entry point of the real library (direct construction and ir.load with every path spelling) under an open() audit hook; accept/reject, returned bytes and opened files are compared with the specification's verdict; each protocol history is replayed step by step; the specification's kernel walk and realpath are themselves compared with the real OS on every configuration.",
    note="small scope: 7 instances, 16-18 base spellings, locations of <=3 (quick) / <=4 (thorough) units, protocol depth 3/4; static file system (no TOCTOU), no link loops, POSIX, 16-byte tensors; quick tier reads missing-file configurations through 2 of 6 entry points (rotating)",
)

ENGINES.append({"name": "extlayout", "path": "specs/extdata/ExtLayout.tla", "serves_properties": ["C07"],
  "kind_free_text": "pure TLA+ transcription of the external-data layout (Align, threshold split, raw and safetensors sharding, per-tensor placement, shard/index file names) with the property's formulas as predicates over (configuration, layout); ExtLayoutSave.tla = save protocol (snapshot; unload; write may fail; assign; serialize; restore in finally); ExtLayoutMC.tla enumeration, ExtLayoutTrace.tla evaluation of observed layouts; harness/vfh/extlayout.py"})
CHECKS["C07"] = dict(
  engine="extlayout", design_ref="DESIGN.md §4 C07, App. A.8",
  technique="TLC enumeration of every (size tuple x threshold x alignment x align_threshold x shard limit x backend) with all layout formulas as invariants + TLC model checking of the save protocol with a failure at every step (Restored) + execution of the enumerated configurations on real models through ir.save/ir.save_safetensors and ir.load + TLC evaluation of every formula on the OBSERVED layout and comparison with the computed one",
  text="TLC computes, for each configuration, the layout the code must produce (files, per-tensor location/offset/length, index file, names) and proves Order, Disjoint, InFile, Aligned, ExactlyOneShard, OversizeOnlyAlone and ThresholdRule on it; every selected configuration becomes a real model whose initializers have exactly those byte counts, cycling through array/lazy/packed/sub-byte/proto-backed/already-external/shared-object/zero-size kinds, main-graph and subgraph placements, dotted and nested destination names and max_workers; after save+load the observed locations, offsets, lengths, file sizes, byte/name/dtype/shape equality and the identity of every const_value (also when an injected failing tensor or an unwritable model path makes save raise) are handed to TLC, which evaluates each formula on the observation; a layout that differs from the prediction but satisfies every formula is recorded as a divergence.",
  note="quick: all configurations with <=2 tensors + seeded sample of 3-tuples (30k executed); thorough: all <=3 + sample of 4-tuples (400k); byte equality computed in Python; safetensors order taken modulo the serializer's (dtype, name) order; already-external sources only in files other than the destination",
)
ENGINES.append({"name": "tensorrepr", "path": "specs/serde/TensorRepr.tla", "serves_properties": ["C04"],
  "kind_free_text": "logical tensor [cls,n,dims,bit-pattern codes]; Pack/Unpack, onnx.proto storage fields (int32_data packed-byte / sign-extension rules, typed entries), external window, tofile destinations; every representation as Stored + derived bytes/values; element type tables as data; TensorReprMC.tla (+ _thorough, _tables cfgs); harness/vfh/tensorrepr.py"})
CHECKS["C04"] = dict(engine="tensorrepr", design_ref="DESIGN.md §4 C04",
  technique="TLC enumeration of (logical tensor x representation x tofile destination/writes) with Agree/PackLen/WriteInv/AgreeAll/Tables as invariants + one implementation test per TLC state and applicable element type + three-way comparison with onnx.numpy_helper/onnx.helper",
  text="TLC enumerates every logical tensor of 10 element classes x n 0..9 x 3 shapes x 5 bit-pattern schemes, every applicable representation (array native/bits/sbits/ctor/list, packed, proto x storage field, external x offset kind x length, lazy x inner, torch) and 0..2 tofile() calls into 6 destination kinds; each printed state is built with the public API for every element type of the class and dtype, shape, size, nbytes, tobytes(), numpy() bit patterns, tofile() content and position, serialize_tensor() are compared with the values TLC derived; the same records are compared with the ONNX reference encoder/decoder; the element type tables are checked for mutual consistency in TLC and compared with onnx_ir._enums.",
  note="quick: MaxWrites=1, ~154k states, all executed (~407k tests); thorough: MaxWrites=2; bit patterns only (no real-number semantics); f32 signalling NaN, trailing-NUL strings, non-seekable destinations out of scope")

ENGINES.append({"name": "serdeir", "path": "specs/serde/SerdeIR.tla", "serves_properties": ["C03"],
  "kind_free_text": "abstract proto Ser, scoped deserializer Deser, Serializable precondition and object-graph isomorphism Iso over IRClone's state; SerdeIRMC.tla (seed models x edit histories, theorems as invariants), SerdeIRTrace.tla (judges observed (IR, deserialized IR) pairs); harness/vfh/serdeir.py"})
CHECKS["C03"] = dict(engine="serdeir", design_ref="DESIGN.md §4 C02/C03/C17, App. A.6",
  technique="TLC model checking of SerdeIRMC.tla (Serializable => Iso(Deser(Ser)), effect = tensor names only, Ser independent of its effect) + replay of every emitted state into real models (deep snapshot / serialize twice / proto vs Ser / round trip) + TLC evaluation of Serializable and Iso on the observed object graphs",
  text="the specification defines the abstract proto the serializer must write (Ser), the scoped deserializer (Deser), the precondition Serializable and the isomorphism Iso, and TLC proves Serializable => Iso(Deser(Ser)) and 'serialization changes only initializer tensor names' on every reachable state of five seed models under edit histories; every emitted state is rebuilt with real objects (rotating tensor implementations, IR versions 8-13, functions, device configurations), serialized twice (byte-equal, no side effect beyond tensor-name alignment, also when to_proto raises), compared with Ser, deserialized, and TLC evaluates Serializable and Iso on the observed (original, deserialized) object graphs; leaf payloads are compared by the harness.",
  note="Serializable delimits the quantifier (an outer value listed as a subgraph output is outside it: ONNX-invalid); small scope: 3 graphs, nesting <=3, <=2-3 edits after 5 seed models; quick tier executes a seeded third of the states")
ENGINES.append({"name": "atomicsave", "path": "specs/extdata/AtomicSave.tla", "serves_properties": ["C08"],
 "kind_free_text": "TLA+ model of the file-system effects of the external-data save (temp dir/file, chunk writes, serial and parallel writer, copymode, replace, finally clean-up, release/invalidate, sharded pre-check) with a fail twin per effect and crash anywhere; AtomicSaveMC.tla (+_f2.cfg), AtomicSaveTrace.tla; harness/vfh/faultfs.py (strace fault/kill injection, module-global proxies), checks/c08.py"})
CHECKS["C08"] = dict(engine="atomicsave", design_ref="DESIGN.md §4 C08, A.8, B.4",
  technique="TLC model checking of AtomicSave.tla + fault/crash enumeration on the real save + TLC trace validation of every injected run",
  text="TLC checks OldOrNew / FailKeepsOld / InvalidateOnlyIfReplaced / ShardNeverOverwrites on the design for every fault and crash position of 74 configurations (1-2 faults). Every effect of the real ir.save is then made to fail or the process killed at it, at the system-call boundary with strace -e inject and at Python level through proxies in the module globals of onnx_ir.external_data. Every such run is validated by TLC as a trace (effect order including the finally path, and the observed end state), and TLC evaluates the property formulas on the observed directory and tensor state.",
  note="chunk-granular contents; single process crash (SIGKILL/_exit), no power-loss durability; failures after the replace and a missing destination are outside the statement (weaker reading); parallel schedules as produced by the OS; strace/ptrace, TLC, CPython trusted")

ENGINES.append({"name": "extract", "path": "specs/rewrite/Extract.tla", "serves_properties": ["C18"],
  "kind_free_text": "declarative region extraction (Need/Frontier/Captures, Herbrand denotation) + transcription of _extractor.py walk/frontier check, the GraphView cloner and the implicit-usage DFS; ExtractMC.tla enumerates all graph forests x all cuts of the bound (ExtractMC_*.cfg); harness/vfh/extract.py"})
CHECKS["C18"] = dict(engine="extract", design_ref="DESIGN.md §4 C18",
  technique="TLC exhaustive instance/cut enumeration + theorem checking of Extract.tla + replay of every cut into onnx_ir",
  text="TLC enumerates every instance (<=3 nodes quick / <=4 thorough, nesting depth <=2) and every cut; on each it checks that the transcribed algorithm yields the least closed node set in original order with the needed initializers, raises iff the frontier is non-empty, preserves the Herbrand denotation, and that the capture DFS equals Captures; every cut is executed on real onnx_ir objects through Graph/Function/GraphView x by object/by name and compared on nodes, order, initializers, raise, object identity, source unchanged and output terms; analyze_implicit_usage is compared with Captures.",
  note="small scope; sorted well-formed sources; cuts among root values; DenEq in the statement's reading (source values at the boundary); at 4 nodes one output per cut (NeedUnion lemma)")

_PENDING = "check not built yet in this round (specification planned in DESIGN.md §4); not claimed until its TLA+ model and binding exist"
NOT_APPLICABLE = {p: _PENDING for p in ["C02", "C09", "C11", "C12", "C15", "C16", "C17"]}
