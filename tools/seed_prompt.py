#!/venv/bin/python
"""Render the prompt for a seeding sub-agent (a fresh agent that sees ONLY the property text and a scratch
worktree) for one property and one round.
usage: tools/seed_prompt.py Cxx <round> [--avoid "<one line per earlier idea>"]  -> prompt on stdout
The worktree /tmp/seed-Cxx-r<round>-wt must be created by the caller
(git -C /repo worktree add --detach /tmp/seed-Cxx-r<round>-wt HEAD)."""
import json
import os
import sys

HERE = os.path.dirname(os.path.abspath(__file__))


def main():
    pid, rnd = sys.argv[1], sys.argv[2]
    avoid = ""
    if "--avoid" in sys.argv:
        avoid = sys.argv[sys.argv.index("--avoid") + 1]
    prop = None
    for line in open(os.path.join(HERE, "..", "properties.jsonl")):
        p = json.loads(line)
        if p["id"] == pid:
            prop = p
    wt = f"/tmp/seed-{pid}-r{rnd}-wt"
    out = f"/tmp/seed-{pid}-r{rnd}-out"
    files = ", ".join(prop["anchors"]["files"])
    txt = f"""You are helping to evaluate a verification tool by writing REALISTIC BUGGY VARIANTS of a Python library. You get one semantic property of the library onnx/ir-py and your own scratch git worktree of the library at {wt} (a checkout of the current HEAD; `git -C {wt} diff` shows your change). Work ONLY inside {wt} and {out}; do not read or write /verif or /repo (they are off limits - in particular do not look at any verification machinery), and never commit.

The property ({pid}: {prop['title']}):
{prop['statement']}
It is quantified over: {prop['quantifier']['text']}

Task: produce TWO DIFFERENT, INDEPENDENT changes to the library sources under {wt}/src/onnx_ir (each as its own patch against the clean worktree; reset the worktree with `git -C {wt} checkout -- .` between them) such that each change
  (1) BREAKS the property above (a realistic mistake a developer could make while refactoring/optimising/"fixing" something: an off-by-one, a dropped bookkeeping step on one code path, a check moved after a mutation, a wrong condition, state shared instead of copied, a missing case, a cache not invalidated - NOT a syntax error, not an obviously sabotaged function, not something that makes ordinary use fail at once);
  (2) still lets the library import and the repository's own test-suite pass exactly as before: run
        cd {wt} && PYTHONPATH={wt}/src /venv/bin/python -m pytest -q -p no:cacheprovider --timeout=900 --continue-on-collection-errors -q 2>&1 | tail -5
      (PYTHONPATH is REQUIRED, otherwise the tests import another copy of the library; two collection errors about a missing module 'onnxscript' and one failure related to it are pre-existing and expected: run the suite on the unmodified worktree first - the set of failing tests must be identical with and without your change; the suite takes about half a minute);
  (3) needs something SPECIFIC to manifest - a particular multi-step sequence of operations, an unusual but legal input, a particular interleaving / fault / crash point, or two cooperating code sites that each look fine alone - rather than being exposed by ordinary use at once.
For each change write a small demonstration program demo.py (plain Python, run as `PYTHONPATH={wt}/src /venv/bin/python demo.py`, exit code 0 when the property holds for its scenario, non-zero with a short message when it is violated) that FAILS with the change applied and PASSES on the unmodified worktree. Verify both facts yourself. The demonstration must show a violation of the property AS STATED (not of some stronger expectation of yours).

Deliver, for change k in (1, 2): {out}/change<k>/patch.diff (output of `git -C {wt} diff`), {out}/change<k>/demo.py, {out}/change<k>/notes.md (what the change is, why it violates the property, what exactly is needed for it to manifest, the commands you ran and their results incl. the test-suite summary lines with and without the change). Leave the worktree clean at the end (`git -C {wt} checkout -- .`; remove __pycache__/.pytest_cache you created is not necessary). Your final message: a 5-line summary per change.

Hints: read the relevant sources first ({files}). Prefer changes deep in a mechanism (a counter, a cache flag, an ordering, a restore path, a name table, a boundary condition) over changes at the API surface. The two changes should hit different mechanisms / different clauses of the property.
"""
    if avoid:
        txt += ("\nEarlier rounds already produced changes along the following lines - do NOT repeat these ideas, find "
                "different mechanisms, code sites and clauses of the property:\n" + avoid + "\n")
    print(txt)


main()
