#!/venv/bin/python
"""Take in the two changes a seeding sub-agent delivered for one property and one round:
copy them to /verif/seeded/<Cxx-k>/, confirm them (tools/seed_confirm.py), run the quick tier of the
given checks against a scratch worktree with the patch (tools/try_seed.sh) and write meta.json.
usage: tools/seed_intake.py Cxx <round> [extra checks ...]     (round 3 -> ids Cxx-3, Cxx-4; round 4 -> -5, -6)"""
import json
import os
import re
import shutil
import subprocess
import sys

HERE = os.path.dirname(os.path.abspath(__file__))
VERIF = os.path.dirname(HERE)


def main():
    pid, rnd = sys.argv[1], int(sys.argv[2])
    checks = [pid] + sys.argv[3:]
    out = f"/tmp/seed-{pid}-r{rnd}-out"
    for k in (1, 2):
        src = os.path.join(out, f"change{k}")
        if not os.path.exists(os.path.join(src, "patch.diff")):
            print(f"{pid} r{rnd} change{k}: no patch delivered")
            continue
        sid = f"{pid}-{2 * (rnd - 2) + k}"
        dst = os.path.join(VERIF, "seeded", sid)
        os.makedirs(dst, exist_ok=True)
        for f in ("patch.diff", "demo.py", "notes.md"):
            if os.path.exists(os.path.join(src, f)):
                shutil.copy(os.path.join(src, f), os.path.join(dst, f))
        # demos refer to their scratch worktree only through PYTHONPATH; make sure no absolute path is baked in
        demo = open(os.path.join(dst, "demo.py")).read()
        baked = bool(re.search(r"/tmp/seed-", demo))
        conf = subprocess.run([os.path.join(HERE, "seed_confirm.py"), os.path.join(dst, "patch.diff"),
                               os.path.join(dst, "demo.py")], capture_output=True, text=True)
        try:
            cres = json.loads(conf.stdout.strip().splitlines()[-1])
        except Exception:
            cres = {"confirmed": False, "raw": (conf.stdout + conf.stderr)[-500:]}
        tr = subprocess.run([os.path.join(HERE, "try_seed.sh"), os.path.join(dst, "patch.diff"), "quick"] + checks,
                            capture_output=True, text=True)
        det, lines = [], []
        for line in tr.stdout.splitlines():
            lines.append(line[:400])
            m = re.match(r"== (C\d+) rc=(\d+)", line)
            if m and m.group(2) == "1":
                det.append(m.group(1))
        notes = open(os.path.join(dst, "notes.md")).read() if os.path.exists(os.path.join(dst, "notes.md")) else ""
        first = next((l.strip("# ").strip() for l in notes.splitlines() if l.strip()), "")
        meta = {
            "property": pid,
            "origin": "independent sub-agent given only the property text and a scratch worktree (round %d)" % rnd,
            "needs_to_manifest": first,
            "demo_mentions_scratch_path": baked,
            "confirmed": cres,
            "ran": [f"tools/seed_confirm.py seeded/{sid}/patch.diff seeded/{sid}/demo.py",
                    f"tools/try_seed.sh seeded/{sid}/patch.diff quick {' '.join(checks)}"],
            "try_seed_output": lines,
            "detected_by": det,
        }
        json.dump(meta, open(os.path.join(dst, "meta.json"), "w"), indent=1)
        print(f"{sid}: confirmed={cres.get('confirmed')} detected_by={det} :: " + " | ".join(lines)[:600])


main()
