#!/venv/bin/python
"""Append an entry to known_findings.json (development-time helper; checks never write that file).
usage: tools/kf_add.py <Cxx> fixed|known <commit|-> <signature-pattern> <what>"""
import json, sys
pid, status, commit, sig, what = sys.argv[1:6]
p = "/verif/known_findings.json"
k = json.load(open(p))
e = {"property": pid, "status": status}
if status == "fixed":
    e["commit"] = commit
    what = f"fixed: property={pid} {commit} {what}"
e["signature"] = sig
e["what"] = what
k["findings"].append(e)
json.dump(k, open(p, "w"), indent=1)
print(json.dumps(e))
