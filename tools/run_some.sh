#!/bin/bash
# usage: tools/run_some.sh quick|thorough Cxx [Cyy ...]  -> one summary line per check (background sweeps of a few checks)
cd "$(dirname "$0")/.."
TIER=$1; shift
for c in "$@"; do
  s=$(date +%s)
  out=$(./vf check $c --tier "$TIER" 2>&1); rc=$?
  echo "== $c rc=$rc $(( $(date +%s) - s ))s :: $(echo "$out" | grep -E '^\[C' | tail -1)"
  echo "$out" | grep -E "violation signature|KNOWN-FINDING|MACHINERY" | cut -c1-300 | head -12
done
