"""Execution side of C02 / C17: run the real onnx_ir serde on concretised abstract protos, project the
resulting IR, observe file access, check the serialize-again fixpoint.

Everything here is *observation*; the oracles are
  * Norm(p) and the expected outcome class / IR projection emitted by TLC (SerdeMC.tla), and
  * TLC's evaluation of the C01 invariants on the observed projections (SerdeTrace.tla).
"""

from __future__ import annotations

import json
import logging
import os
import signal
import sys
import zlib

import onnx

from . import concretize as C
from . import serde_cmp as K

NONAME = "<none>"
_LOG_OFF = False


def quiet():
    global _LOG_OFF
    if not _LOG_OFF:
        logging.disable(logging.CRITICAL)
        import warnings

        warnings.simplefilter("ignore")
        _LOG_OFF = True


# --------------------------------------------------------------------------------------------
# file access observation
# --------------------------------------------------------------------------------------------
class Audit:
    """sys.addaudithook based recorder (cannot be removed once installed: one per process, gated).

    Records 'open' and every 'os.*' / 'mmap.*' / 'shutil.*' / 'glob.*' / 'pathlib.*' audit event; os.stat,
    os.lstat and os.access raise no audit event, so those three functions are wrapped as well.  Files of the
    interpreter and of the library's own sources (lazy imports, linecache for warnings) are not counted.
    """

    _installed = None

    def __init__(self):
        self.on = False
        self.events: list = []
        self.ignore = tuple(
            os.path.realpath(p) + os.sep
            for p in {sys.prefix, sys.base_prefix, sys.exec_prefix, os.path.dirname(os.path.dirname(os.path.dirname(os.__file__))),
                      os.environ.get("VERIF_REPO", "/repo"), "/venv"}
            if p
        )

    @classmethod
    def get(cls) -> "Audit":
        if cls._installed is None:
            a = cls()
            sys.addaudithook(a._hook)
            for name in ("stat", "lstat", "access"):
                a._wrap(name)
            cls._installed = a
        return cls._installed

    def _wrap(self, name):
        orig = getattr(os, name)
        audit = self

        def wrapped(path, *a, **k):
            if audit.on:
                audit._record("os." + name, path)
            return orig(path, *a, **k)

        wrapped.__name__ = name
        setattr(os, name, wrapped)

    def _ignored(self, path) -> bool:
        try:
            if isinstance(path, int):
                return True
            p = os.fsdecode(path)
        except Exception:  # noqa: BLE001
            return False
        rp = os.path.abspath(p)
        return rp.startswith(self.ignore) or rp.startswith("/proc/") or rp.startswith("/dev/") or rp.startswith("/sys/")

    def _record(self, event, path):
        if not self._ignored(path):
            self.events.append((event, repr(path)[:120]))

    def _hook(self, event, args):
        if not self.on:
            return
        if event == "open" or event.startswith(("os.", "mmap.", "shutil.", "glob.", "pathlib.")):
            if event in ("os.putenv", "os.unsetenv", "os.fork", "os.forkpty", "os.kill", "os.times"):
                return
            path = args[0] if args else None
            self._record(event, path)

    def start(self):
        self.events = []
        self.on = True

    def stop(self) -> list:
        self.on = False
        ev, self.events = self.events, []
        return ev


# --------------------------------------------------------------------------------------------
# per-case time limit (termination)
# --------------------------------------------------------------------------------------------
class CaseTimeout(BaseException):
    pass


def _alarm(_sig, _frm):
    raise CaseTimeout()


class time_limit:
    def __init__(self, seconds: float):
        self.seconds = seconds

    def __enter__(self):
        self.old = signal.signal(signal.SIGALRM, _alarm)
        signal.setitimer(signal.ITIMER_REAL, self.seconds)

    def __exit__(self, *exc):
        signal.setitimer(signal.ITIMER_REAL, 0)
        signal.signal(signal.SIGALRM, self.old)
        return False


# --------------------------------------------------------------------------------------------
# projection of an arbitrary deserialized model (nested graphs, functions) through public accessors
# --------------------------------------------------------------------------------------------
def _graph_attrs(node):
    """Graphs held by the node's attributes, in attribute order."""
    import onnx_ir as ir

    out = []
    for a in node.attributes.values():
        if a.is_ref():
            continue
        if a.type == ir.AttributeType.GRAPH and a.value is not None:
            out.append(a.value)
        elif a.type == ir.AttributeType.GRAPHS and a.value is not None:
            out.extend(a.value)
    return out


def _specname(n):
    if n is None:
        return NONAME
    if isinstance(n, bytes):
        return "bytes:" + n.hex()
    return C.UNSPELL.get(n, n)      # back to the specification's spelling (a, b, c) of the proto being judged


def project_roots(roots) -> dict:
    """Observable state (shape of IRGraph!Obs plus nSubs/vConst/vHasInfo) of the object graph reachable from
    the root graphs.  Numbering: graphs depth-first from the roots, nodes in that order, values at first
    encounter (graph inputs, initializers, per node inputs then outputs then its nested graphs, graph outputs)."""
    graphs, nodes, values = [], [], []
    gid, nid, vid = {}, {}, {}

    def see_v(v):
        if v is not None and id(v) not in vid:
            values.append(v)
            vid[id(v)] = len(values)

    def visit(g):
        if id(g) in gid:
            return
        graphs.append(g)
        gid[id(g)] = len(graphs)
        for v in g.inputs:
            see_v(v)
        for v in g.initializers.values():
            see_v(v)
        for n in g:
            if id(n) not in nid:
                nodes.append(n)
                nid[id(n)] = len(nodes)
            for v in n.inputs:
                see_v(v)
            for v in n.outputs:
                see_v(v)
            for sub in _graph_attrs(n):
                visit(sub)
        for v in g.outputs:
            see_v(v)

    for g in roots:
        visit(g)
    # closure: users and producers that the traversal did not reach (there should be none)
    i = 0
    while i < len(values):
        v = values[i]
        i += 1
        extra = [u.node for u in v.uses()]
        if v.producer() is not None:
            extra.append(v.producer())
        for n in extra:
            if id(n) not in nid:
                nodes.append(n)
                nid[id(n)] = len(nodes)
                for w in list(n.inputs) + list(n.outputs):
                    see_v(w)

    def G(g):
        return 0 if g is None else gid.get(id(g), -1)

    def N(n):
        return 0 if n is None else nid.get(id(n), -1)

    def V(v):
        return 0 if v is None else vid.get(id(v), -1)

    o = {
        "nIn": [[V(x) for x in n.inputs] for n in nodes],
        "nOut": [[V(x) for x in n.outputs] for n in nodes],
        "nGraph": [G(n.graph) for n in nodes],
        "gNodes": [[N(n) for n in g] for g in graphs],
        "gIn": [[V(x) for x in g.inputs] for g in graphs],
        "gOut": [[V(x) for x in g.outputs] for g in graphs],
        "gInitK": [[_specname(k) for k in g.initializers.keys()] for g in graphs],
        "gInitV": [[V(x) for x in g.initializers.values()] for g in graphs],
        "vProd": [N(v.producer()) for v in values],
        "vIdx": [(-2 if v.index() is None else v.index()) for v in values],
        "vUses": [sorted(N(u.node) * 16 + u.idx for u in v.uses()) for v in values],
        "vGraph": [G(v.graph) for v in values],
        "vIsIn": [bool(v.is_graph_input()) for v in values],
        "vIsOut": [bool(v.is_graph_output()) for v in values],
        "vIsInit": [bool(v.is_initializer()) for v in values],
        "vName": [_specname(v.name) for v in values],
    }
    return {
        "o": o,
        "nSubs": [[G(s) for s in _graph_attrs(n)] for n in nodes],
        "vConst": [v.const_value is not None for v in values],
        "vHasInfo": [bool(v.type is not None or v.shape is not None or v.metadata_props or v.doc_string) for v in values],
    }


def project_model(model) -> dict:
    return project_roots([model.graph] + [f.graph for f in model.functions.values()])


def relabel_spec(obsx: dict, kinds: list) -> dict:
    """The spec's ObsX (creation-order numbering) renumbered by the same traversal as project_roots."""
    o = obsx["o"]
    nsubs = obsx["nSubs"]
    gmap, nmap, vmap = {}, {}, {}

    def see_v(v):
        if v and v not in vmap:
            vmap[v] = len(vmap) + 1

    def visit(g):
        if g in gmap:
            return
        gmap[g] = len(gmap) + 1
        for v in o["gIn"][g - 1]:
            see_v(v)
        for v in o["gInitV"][g - 1]:
            see_v(v)
        for n in o["gNodes"][g - 1]:
            if n not in nmap:
                nmap[n] = len(nmap) + 1
            for v in o["nIn"][n - 1]:
                see_v(v)
            for v in o["nOut"][n - 1]:
                see_v(v)
            for s in nsubs[n - 1]:
                visit(s)
        for v in o["gOut"][g - 1]:
            see_v(v)

    visit(1)
    for g, k in enumerate(kinds, start=1):
        if k == "func":
            visit(g)
    nG, nN, nV = len(gmap), len(nmap), len(vmap)
    if nG != len(o["gNodes"]) or nN != len(o["nIn"]) or nV != len(o["vProd"]):
        return {"unreachable": [nG, len(o["gNodes"]), nN, len(o["nIn"]), nV, len(o["vProd"])]}
    ginv = {v: k for k, v in gmap.items()}
    ninv = {v: k for k, v in nmap.items()}
    vinv = {v: k for k, v in vmap.items()}
    V = lambda v: vmap.get(v, 0) if v else 0  # noqa: E731
    N = lambda n: nmap.get(n, 0) if n else 0  # noqa: E731
    G = lambda g: gmap.get(g, 0) if g else 0  # noqa: E731
    gs = [ginv[i] for i in range(1, nG + 1)]
    ns = [ninv[i] for i in range(1, nN + 1)]
    vs = [vinv[i] for i in range(1, nV + 1)]
    out = {
        "nIn": [[V(x) for x in o["nIn"][n - 1]] for n in ns],
        "nOut": [[V(x) for x in o["nOut"][n - 1]] for n in ns],
        "nGraph": [G(o["nGraph"][n - 1]) for n in ns],
        "gNodes": [[N(x) for x in o["gNodes"][g - 1]] for g in gs],
        "gIn": [[V(x) for x in o["gIn"][g - 1]] for g in gs],
        "gOut": [[V(x) for x in o["gOut"][g - 1]] for g in gs],
        "gInitK": [list(o["gInitK"][g - 1]) for g in gs],
        "gInitV": [[V(x) for x in o["gInitV"][g - 1]] for g in gs],
        "vProd": [N(o["vProd"][v - 1]) for v in vs],
        "vIdx": [o["vIdx"][v - 1] for v in vs],
        "vUses": [sorted(N(u // 16) * 16 + u % 16 for u in o["vUses"][v - 1]) for v in vs],
        "vGraph": [G(o["vGraph"][v - 1]) for v in vs],
        "vIsIn": [o["vIsIn"][v - 1] for v in vs],
        "vIsOut": [o["vIsOut"][v - 1] for v in vs],
        "vIsInit": [o["vIsInit"][v - 1] for v in vs],
        "vName": [o["vName"][v - 1] for v in vs],
    }
    return {
        "o": out,
        "nSubs": [[G(s) for s in nsubs[n - 1]] for n in ns],
        "vConst": [obsx["vConst"][v - 1] for v in vs],
        "vHasInfo": [obsx["vHasInfo"][v - 1] for v in vs],
        "gKinds": [kinds[g - 1] for g in gs],
    }


def diff_proj(a: dict, b: dict) -> list:
    """a: relabelled expectation of the specification, b: projection of the real IR."""
    out = [k for k in a["o"] if a["o"][k] != b["o"].get(k)]
    out += [k for k in ("nSubs", "vConst", "vHasInfo") if a.get(k) != b.get(k)]
    return out


# --------------------------------------------------------------------------------------------
# the C17 judgement of one concrete proto
# --------------------------------------------------------------------------------------------
def _all_tensors(model):
    import onnx_ir as ir

    seen = []

    def from_graph(g, depth=0):
        for v in g.initializers.values():
            if v.const_value is not None:
                seen.append(v.const_value)
        for n in g:
            for a in n.attributes.values():
                if a.is_ref() or a.value is None:
                    continue
                if a.type == ir.AttributeType.TENSOR:
                    seen.append(a.value)
                elif a.type == ir.AttributeType.TENSORS:
                    seen.extend(a.value)
                elif a.type == ir.AttributeType.GRAPH:
                    from_graph(a.value, depth + 1)
                elif a.type == ir.AttributeType.GRAPHS:
                    for s in a.value:
                        from_graph(s, depth + 1)

    from_graph(model.graph)
    for f in model.functions.values():
        from_graph(f.graph)
        for a in f.attributes.values():
            if a.value is None:
                continue
            if a.type == ir.AttributeType.TENSOR:
                seen.append(a.value)
            elif a.type == ir.AttributeType.TENSORS:
                seen.extend(a.value)
    return seen


def _root_exc(e: BaseException) -> str:
    seen = 0
    while e.__cause__ is not None and seen < 20:
        e = e.__cause__
        seen += 1
    return type(e).__name__


def judge_c17(mp: onnx.ModelProto, limit_s: float = 10.0) -> dict:
    """Deserialize under observation.  Returns
    cls: 'ir' | 'error' | 'timeout';  exc;  file_events;  inspect_events;  proj (if ir);
    fix: None | 'ser-error' | 'ok' | list of difference signatures;  fix_exc"""
    import onnx_ir as ir

    quiet()
    audit = Audit.get()
    res: dict = {"cls": "ir", "exc": "", "file_events": [], "inspect_events": [], "proj": None, "fix": None, "fix_exc": ""}
    try:
        with time_limit(limit_s):
            audit.start()
            try:
                model = ir.serde.deserialize_model(mp)
            except Exception as e:  # noqa: BLE001 - the outcome class is what is observed
                res["cls"] = "error"
                res["exc"] = _root_exc(e)
                return res
            finally:
                res["file_events"] = audit.stop()
            # inspecting name / dtype / shape / size of every resulting tensor must not touch a file either
            audit.start()
            try:
                n_inspect_err = 0
                for t in _all_tensors(model):
                    for attr in ("name", "dtype", "shape", "size"):
                        try:
                            getattr(t, attr)
                        except Exception:  # noqa: BLE001
                            n_inspect_err += 1
                res["inspect_errors"] = n_inspect_err
            finally:
                res["inspect_events"] = audit.stop()
            try:
                res["proj"] = project_model(model)
            except Exception as e:  # noqa: BLE001
                # an object reachable from the returned IR whose public accessors raise (e.g. a half-constructed
                # node that is still registered as a user of a value): the links of that IR are not consistent
                res["cls"] = "broken-ir"
                res["exc"] = f"{type(e).__name__}: {str(e)[:120]}"
                return res
            # serialize-again fixpoint
            try:
                p1 = ir.serde.serialize_model(model)
            except Exception as e:  # noqa: BLE001
                res["fix"] = "ser-error"
                res["fix_exc"] = _root_exc(e)
                return res
            try:
                m2 = ir.serde.deserialize_model(p1)
            except Exception as e:  # noqa: BLE001
                res["fix"] = ["reserialized-proto-does-not-deserialize"]
                res["fix_exc"] = _root_exc(e)
                return res
            try:
                p2 = ir.serde.serialize_model(m2)
            except Exception as e:  # noqa: BLE001
                res["fix"] = ["second-serialization-raises"]
                res["fix_exc"] = _root_exc(e)
                return res
            b1 = p1.SerializeToString(deterministic=True)
            b2 = p2.SerializeToString(deterministic=True)
            if b1 == b2:
                res["fix"] = "ok"
            else:
                ds = K.diff(K.canon(p1), K.canon(p2))
                res["fix"] = sorted({K.signature(d) for d in ds}) or ["order-or-presence-only"]
                res["fix_detail"] = [list(map(str, d)) for d in ds[:3]]
    except CaseTimeout:
        audit.stop()
        res["cls"] = "timeout"
    return res


# --------------------------------------------------------------------------------------------
# the C02 judgement of one enumerated valid proto
# --------------------------------------------------------------------------------------------
def judge_c02(rec: dict, salt: int, used: dict | None = None, parts_first: bool = False) -> dict:
    """Round trip of the concretised proto, compared field by field with the concretised Norm(p)."""
    import onnx_ir as ir

    quiet()
    irv = rec["p"]["irv"]
    mp = C.Concretizer(salt, irv, used).model(rec["e"])
    exp = C.Concretizer(salt, irv).model(rec["norm"])
    out = {"diffs": [], "exc": "", "has_dev": any(n.device_configurations for n in mp.graph.node)}
    if parts_first:      # (a successful whole-model call may reset what a rejected call left behind)
        out["parts"] = parts_roundtrip(mp, exp)
    try:
        real = ir.to_proto(ir.from_proto(mp))
    except Exception as e:  # noqa: BLE001
        out["exc"] = _root_exc(e)
        out["exc_at"] = _where(e)
        return out
    ds = K.diff(K.canon(exp), K.canon(real))
    out["diffs"] = [list(map(str, d)) for d in ds]
    # standalone entry points on the parts of this proto
    if not parts_first:
        out["parts"] = parts_roundtrip(mp, exp)
    return out


def c02_signatures(j: dict) -> list:
    """(signature, entry point, detail) of every difference of one judgement.  The signature names the message
    field and the kind of difference (lost / added / duplicated / changed / length), not the entry point."""
    out = []
    if j["exc"]:
        out.append((f"C02:exception:{j['exc']}:{j.get('exc_at', '?')}", "from_proto/to_proto", j["exc"]))
    for d in j["diffs"]:
        out.append((f"C02:{d[0]}:{d[1]}", "from_proto/to_proto", d[2]))
    for d in j.get("parts", ()):
        out.append((f"C02:{d[1]}:{d[2]}", d[0], d[3]))
    return out


def _where(e: BaseException) -> str:
    import traceback

    tb = traceback.extract_tb(e.__traceback__)
    while e.__cause__ is not None:
        e = e.__cause__
        tb = traceback.extract_tb(e.__traceback__) or tb
    for fr in reversed(tb):
        if "onnx_ir" in fr.filename:
            return f"{os.path.basename(fr.filename)}:{fr.name}"
    return "?"


def _rt(label, proto, expected, de, se) -> list:
    """-> [entry point label, path, kind, detail] per difference"""
    try:
        got = se(de(proto))
    except Exception as e:  # noqa: BLE001
        return [[label, "exception:" + _root_exc(e), _where(e), repr(e)[:200]]]
    return [[label, d[0], d[1], d[2]] for d in K.diff(K.canon(expected), K.canon(got))]


def parts_roundtrip(mp: onnx.ModelProto, exp: onnx.ModelProto) -> list:
    """serde.deserialize_X / serialize_X on the graph, the functions, the nodes, the tensors, the attributes,
    the value infos and the types of the concrete proto; expectation = the same part of concretize(Norm(p))."""
    import onnx_ir as ir

    S = ir.serde
    diffs = []
    diffs += _rt("graph", mp.graph, _strip_fn_vi(exp.graph), S.deserialize_graph, S.serialize_graph)
    for f, fe in zip(mp.functions, exp.functions):
        if mp.ir_version >= 10:
            diffs += _rt("function", f, fe, S.deserialize_function, S.serialize_function)
    for n, ne in zip(mp.graph.node, exp.graph.node):
        if not any(a.type in (onnx.AttributeProto.GRAPH, onnx.AttributeProto.GRAPHS) for a in n.attribute):
            ne2 = onnx.NodeProto()
            ne2.CopyFrom(ne)
            diffs += _rt("node", n, ne2, S.deserialize_node, S.serialize_node)
        for a in n.attribute:
            if a.type not in (onnx.AttributeProto.GRAPH, onnx.AttributeProto.GRAPHS) and not a.ref_attr_name:
                diffs += _rt("attribute", a, a, S.deserialize_attribute, S.serialize_attribute)
    for t in mp.graph.initializer:
        diffs += _rt("tensor", t, t, S.deserialize_tensor, S.serialize_tensor)
    for vi in list(mp.graph.input) + list(mp.graph.output):
        diffs += _rt("value_info", vi, vi, lambda p: S.deserialize_value_info_proto(p, None), S.serialize_value)
        if vi.HasField("type"):
            diffs += _rt("type", vi.type, vi.type, _de_type, _se_type)
    return diffs


def _strip_fn_vi(g: onnx.GraphProto) -> onnx.GraphProto:
    """deserialize_graph alone knows no functions: the IR<10 function value infos stored in the main graph are
    unreferenced names for it and are dropped."""
    out = onnx.GraphProto()
    out.CopyFrom(g)
    keep = [v for v in out.value_info if "/" not in v.name]
    del out.value_info[:]
    out.value_info.extend(keep)
    return out


def _de_type(tp):
    import onnx_ir as ir

    return (ir.serde.deserialize_type_proto_for_type(tp), ir.serde.deserialize_type_proto_for_shape(tp))


def _se_type(ts):
    import onnx_ir as ir

    t, s = ts
    out = ir.serde.serialize_type(t)
    if s is not None:
        ir.serde.serialize_shape_into(out, s)
    return out


def leaf_roundtrips() -> tuple:
    """Round trip of every catalogue leaf through its own entry point (from_proto/to_proto dispatch and the
    specific deserialize_*/serialize_* pair).  Returns (number of cases, differences)."""
    import onnx_ir as ir

    quiet()
    S = ir.serde
    n = 0
    diffs = []
    for name, mk in C.TENSORS:
        for meta in (None, [("k", "v")]):
            t = mk()
            t.name = "t"
            if meta:
                t.doc_string = "d"
                e = t.metadata_props.add()
                e.key, e.value = meta[0]
            n += 2
            diffs += _rt(f"leaf:tensor[{name}]", t, t, S.deserialize_tensor, S.serialize_tensor)
            diffs += _rt(f"leaf:tensor[{name}]", t, t, ir.from_proto, ir.to_proto)
    for name, mk in C.REF_ATTR_LISTS:
        for a in mk():
            n += 2
            if a.ref_attr_name:
                diffs += _rt(f"leaf:attribute[{name}]", a, a, S.deserialize_attribute, S.serialize_reference_attribute)
            else:
                diffs += _rt(f"leaf:attribute[{name}]", a, a, S.deserialize_attribute, S.serialize_attribute)
            diffs += _rt(f"leaf:attribute[{name}]", a, a, ir.from_proto, ir.to_proto)
    for ti, spec in enumerate(C.TYPES):
        for si, sh in enumerate(C.SHAPES):
            tp = C.make_type(spec, sh)
            n += 2
            diffs += _rt(f"leaf:type[{ti}]", tp, tp, _de_type, _se_type)
            vi = onnx.ValueInfoProto()
            vi.name = "v"
            vi.type.CopyFrom(tp)
            vi.doc_string = C.DOCS[(ti + si) % len(C.DOCS)]
            for k, v in C.METAS[(ti + si) % len(C.METAS)]:
                e = vi.metadata_props.add()
                e.key, e.value = k, v
            diffs += _rt(f"leaf:value_info[{ti}]", vi, vi, ir.from_proto, ir.to_proto)
    return n, diffs


# --------------------------------------------------------------------------------------------
# chunk workers (multiprocessing)
# --------------------------------------------------------------------------------------------
def _parse(line: str):
    try:
        inner = json.loads(line)
        return json.loads(inner) if isinstance(inner, str) else None
    except ValueError:
        return None


def salt_of(p: dict, seed: int) -> int:
    """Per-proto salt: a function of the proto and the seed only (TLC emits records in a scheduling-dependent order)."""
    return (seed + zlib.crc32(json.dumps(p, sort_keys=True).encode())) & 0x7FFFFFFF


def failing_calls(order=(8, 10, 12)) -> int:
    """Serde calls that are rejected half-way (the property holds for every call whatever came before it - calls that
    FAILED included): a model whose serialization raises at a node, for IR versions below and above the
    device-configuration gate; a lazy tensor whose loader raises; protos whose deserialization raises in the middle of
    a graph (invalid UTF-8 in a later node, a node output declared twice).  Returns the number of calls that raised."""
    import numpy as np
    import onnx_ir as ir

    raised = 0

    def boom():
        raise RuntimeError("vf: tensor cannot be materialised")

    for irv in order:
        x = ir.Value(name="x", type=ir.TensorType(ir.DataType.FLOAT), shape=ir.Shape([1]))
        n1 = ir.Node("", "Relu", [x], num_outputs=1, name="ok")
        n2 = ir.Node("", "Bad", [n1.outputs[0]], [ir.Attr("a", ir.AttributeType.UNDEFINED, None)], num_outputs=1, name="bad")
        g = ir.Graph([x], [n2.outputs[0]], nodes=[n1, n2], name="g", opset_imports={"": 20})
        try:
            ir.to_proto(ir.Model(g, ir_version=irv))
        except Exception:  # noqa: BLE001
            raised += 1
        lz = ir.LazyTensor(boom, dtype=ir.DataType.FLOAT, shape=ir.Shape([2]), name="w")
        w = ir.Value(name="w", const_value=lz)
        g2 = ir.Graph([], [], nodes=[], initializers=[w], name="g2", opset_imports={"": 20})
        try:
            ir.to_proto(ir.Model(g2, ir_version=irv))
        except Exception:  # noqa: BLE001
            raised += 1
    h = onnx.helper
    bad_utf8 = h.make_node("Op", ["t"], ["u"], name="n2")
    a = bad_utf8.attribute.add()
    a.name, a.type = "s", onnx.AttributeProto.STRINGS
    a.strings.extend([b"ok", b"\xff\xfe"])
    sub = h.make_graph([h.make_node("Relu", ["x"], ["inner"])], "body", [], [h.make_tensor_value_info("inner", 1, [1])])
    first = h.make_node("Wrap", ["x"], ["t"], name="n1", body=sub)
    for nodes in ([first, bad_utf8], [first, h.make_node("Op", ["x"], ["t"], name="dup")]):
        gp = h.make_graph(nodes, "broken", [h.make_tensor_value_info("x", 1, [1])], [h.make_tensor_value_info("t", 1, [1])])
        mpb = h.make_model(gp)
        mpb.ir_version = 9
        try:
            ir.from_proto(mpb)
        except Exception:  # noqa: BLE001
            raised += 1
    return raised


def work_c02(args):
    lines, base, seed = args
    quiet()
    out = {"n": 0, "valid": 0, "strict": 0, "viol": {}, "lenient": {}, "model_c02_false": 0, "model_c17_false": 0, "explicit_mismatch": 0,
           "unparsed": 0, "used": {}, "features": set(), "samples": [], "parts": 0, "actions": {}}
    for i, line in enumerate(lines):
        r = _parse(line)
        if r is None:
            out["unparsed"] += 1
            continue
        out["n"] += 1
        if not r["valid"]:
            continue
        out["valid"] += 1
        out["strict"] += bool(r["strict"])
        if not r["c02"]:
            out["model_c02_false"] += 1
        if not r["c17"]:
            out["model_c17_false"] += 1
        if not C.same_explicit(C.explicit_of(r["p"]), r["e"]):
            out["explicit_mismatch"] += 1
        salt = salt_of(r["p"], seed)
        j = judge_c02(r, salt, out["used"])
        if i % 40 == 0 or (j["has_dev"] and i % 4 == 0):
            # the same round trips once more after rejected calls: nothing they left behind may show
            out["failing_calls"] = out.get("failing_calls", 0) + failing_calls((8, 10, 12) if (i // 4) % 2 else (12, 10, 8))
            j2 = judge_c02(r, salt, None, parts_first=True)
            out["history_cases"] = out.get("history_cases", 0) + 1
            if (j2["exc"], j2["diffs"], j2.get("parts")) != (j["exc"], j["diffs"], j.get("parts")):
                later = {(d[0], d[1]) for d in j2["diffs"]} | {(d[1] if len(d) > 1 else "?", d[2] if len(d) > 2 else "?") for d in j2.get("parts", [])}
                first = {(d[0], d[1]) for d in j["diffs"]} | {(d[1] if len(d) > 1 else "?", d[2] if len(d) > 2 else "?") for d in j.get("parts", [])}
                what = sorted(later ^ first)[:1] or [("result", "changed")]
                sig = f"C02:after-rejected-calls:{what[0][0]}:{what[0][1]}"
                if sig not in out["viol"]:
                    out["viol"][sig] = {"kind": "history", "p": r["p"], "salt": salt, "count": 0, "strict": True, "entry_points": ["after rejected calls"],
                                        "what": f"the round trip of this proto gives another result after rejected serde calls: {j2['exc'] or j2['diffs'][:2] or j2.get('parts', [])[:2]}"}
                out["viol"][sig]["count"] += 1
        feats = feature_key(r["p"])
        out["features"].add(feats)
        for act in builder_actions(r["p"]):
            out["actions"][act] = out["actions"].get(act, 0) + 1
        cand = {"p": r["p"], "salt": salt}
        if not out["samples"] or _case_key(cand) < _case_key(out["samples"][0]):
            out["samples"] = [cand]
        out["parts"] += 1
        bucket = out["viol"] if r["strict"] else out["lenient"]
        for sig, entry, what in c02_signatures(j):
            cand = {"kind": "enumerated", "p": r["p"], "salt": salt, "what": what, "count": 0, "strict": bool(r["strict"]), "entry_points": []}
            if sig not in bucket:
                bucket[sig] = cand
            elif _case_key(cand) < _case_key(bucket[sig]):
                cand["count"], cand["entry_points"] = bucket[sig]["count"], bucket[sig]["entry_points"]
                bucket[sig] = cand
            bucket[sig]["count"] += 1
            if entry not in bucket[sig]["entry_points"]:
                bucket[sig]["entry_points"].append(entry)
    out["features"] = sorted(out["features"])
    out["used"] = {k: sorted(v) for k, v in out["used"].items()}
    return out


def builder_actions(p: dict) -> set:
    """Which generator actions of SerdeMC must have been taken to reach this proto."""
    a = set()
    for g in p["gs"]:
        if g["kind"] == "sub":
            a.add("BAddSub")
        if g["kind"] == "func":
            a.add("BAddFunc/Init(func)")
        for k, act in (("ins", "BAddIn"), ("inits", "BAddInit"), ("outs", "BAddOut"), ("nodes", "BAddNode"), ("vinfo", "BAddVI"), ("quant", "BAddQ"),
                       ("untyped", "BAddUntyped"), ("doconly", "BAddDocOnly")):
            if g[k]:
                a.add(act)
        for n in g["nodes"]:
            if n["ins"]:
                a.add("BAddNIn")
            if n["outs"]:
                a.add("BAddNOut")
    return a


def feature_key(p: dict) -> str:
    """Structural feature combination of an abstract proto (for distinct_nontrivial)."""
    f = []
    gs = p["gs"]
    kinds = [g["kind"] for g in gs]
    f.append("g%d" % len(gs))
    if "func" in kinds:
        f.append("func")
    if any(g["kind"] == "sub" and gs[g["par"] - 1]["kind"] == "sub" for g in gs):
        f.append("nest2")
    f.append("n%d" % sum(len(g["nodes"]) for g in gs))
    for g in gs:
        defs = set(g["ins"]) | set(g["inits"]) | {o for n in g["nodes"] for o in n["outs"] if o}
        uses = {i for n in g["nodes"] for i in n["ins"] if i}
        if g["kind"] == "sub":
            par = gs[g["par"] - 1]
            pdefs = set(par["ins"]) | set(par["inits"]) | {o for n in par["nodes"] for o in n["outs"] if o}
            if (uses - defs) & pdefs:
                f.append("capture")
            if defs & pdefs:
                f.append("shadow")
        if uses - defs and g["kind"] != "sub":
            f.append("dangling")
        if set(g["ins"]) & set(g["inits"]):
            f.append("init-of-input")
        if set(g["outs"]) & set(g["ins"]):
            f.append("passthrough")
        if set(g["outs"]) & set(g["inits"]):
            f.append("init-output")
        if len(set(g["outs"])) < len(g["outs"]):
            f.append("dup-output")
        if len(set(g["ins"])) < len(g["ins"]):
            f.append("dup-input")
        if g["vinfo"]:
            f.append("vi-ref" if set(g["vinfo"]) & defs else "vi-unref")
        if g["quant"]:
            f.append("quant")
        if g["untyped"]:
            f.append("untyped")
        if g.get("doconly"):
            f.append("doconly")
        if "" in g["ins"] or "" in g["outs"] or "" in g["inits"]:
            f.append("empty-io-name")
        for k, n in enumerate(g["nodes"]):
            if "" in n["ins"]:
                f.append("empty-in")
            if n["outs"] and n["outs"][-1] == "":
                f.append("trailing-empty-out")
            elif "" in n["outs"]:
                f.append("inner-empty-out")
            later = {o for m in g["nodes"][k:] for o in m["outs"] if o}
            if set(n["ins"]) & later:
                f.append("unsorted-or-cycle")
        outs = [o for n in g["nodes"] for o in n["outs"] if o]
        if len(set(outs)) < len(outs) or set(outs) & (set(g["ins"]) | set(g["inits"])):
            f.append("redeclared")
    f.append("irv%d" % p["irv"])
    return ",".join(sorted(set(f)))


def work_c17(args):
    """Enumerated (any mode) protos: concretise, judge, compare with the spec's expectation."""
    lines, base, seed = args
    quiet()
    out = {"n": 0, "unparsed": 0, "viol": {}, "div": {}, "projs": {}, "features": set(), "cls": {}, "samples": [], "fix_checked": 0,
           "model_c17_false": 0, "mutation_seeds": [], "actions": {}, "payload_errors": {}}
    for i, line in enumerate(lines):
        r = _parse(line)
        if r is None:
            out["unparsed"] += 1
            continue
        out["n"] += 1
        p = r["p"]
        salt = salt_of(p, seed)
        mp = C.Concretizer(salt, p["irv"]).model(C.explicit_of(p))
        j = judge_c17(mp)
        feats = feature_key(p)
        out["features"].add(feats + "|" + j["cls"])
        for act in builder_actions(p):
            out["actions"][act] = out["actions"].get(act, 0) + 1
        out["cls"][j["cls"]] = out["cls"].get(j["cls"], 0) + 1
        cand = {"p": p, "salt": salt, "outcome": j["cls"]}
        if not out["samples"] or _case_key(cand) < _case_key(out["samples"][0]):
            out["samples"] = [cand]
        detail = {"kind": "enumerated", "p": p, "salt": salt}
        _collect_c17(out, j, detail)
        if not r["c17"]:
            out["model_c17_false"] += 1
        # ---- conformance with the specification's prediction (divergence, never a verdict)
        if j["cls"] != "timeout":
            if j["cls"] == "error" and r["cls"] == "ir":
                # the model has no notion of payload decoding: an exception raised on a payload leaf is an
                # acceptable outcome for C17 and is only counted
                _bump(out["payload_errors"], f"{j['exc']}", detail)
            elif j["cls"] != r["cls"]:
                _bump(out["div"], f"outcome:spec={r['cls']}({r['err']}):code={j['cls']}({j['exc']})", detail)
            elif j["cls"] == "ir":
                want = relabel_spec(r["obs"], [g["kind"] for g in p["gs"]])
                if "unreachable" in want:
                    _bump(out["div"], "spec-state-has-unreachable-objects", detail)
                else:
                    d = diff_proj(want, j["proj"])
                    if d:
                        _bump(out["div"], "projection:" + ",".join(d), detail)
                if isinstance(j["fix"], list) and r["c17"]:
                    pass  # reported as violation by _collect_c17; the model did not predict it
                if not r["c17"] and j["fix"] == "ok":
                    _bump(out["div"], "fixpoint:spec-predicts-failure:code-ok", detail)
        if salt % 7 == 0:
            out["mutation_seeds"].append(mp.SerializeToString(deterministic=True))
    out["features"] = sorted(out["features"])
    return out


def _case_key(d: dict) -> str:
    return json.dumps({k: d.get(k) for k in ("p", "salt", "mutation", "index", "rng_seed", "seed_proto_hex", "mutator")}, sort_keys=True, default=str)


def _bump(d, sig, detail):
    """Count a case under its signature; the recorded case is the smallest one, not the first one seen (the order
    of TLC's output lines depends on worker scheduling)."""
    if sig not in d:
        d[sig] = dict(detail, count=0)
    elif _case_key(detail) < _case_key(d[sig]):
        d[sig] = dict(detail, count=d[sig]["count"])
    d[sig]["count"] += 1


def _collect_c17(out, j, detail):
    """Turn one judgement into violations (the clauses of C17 decidable without TLC) and queue the projection."""
    if j["cls"] == "timeout":
        _bump(out["viol"], "C17:termination:timeout", detail)
        return
    if j["file_events"]:
        _bump(out["viol"], "C17:file-access:deserialize:" + j["file_events"][0][0], dict(detail, events=j["file_events"][:5]))
    if j["inspect_events"]:
        _bump(out["viol"], "C17:file-access:inspect:" + j["inspect_events"][0][0], dict(detail, events=j["inspect_events"][:5]))
    if j["cls"] == "broken-ir":
        _bump(out["viol"], "C17:inconsistent-ir:accessor-raises:" + j["exc"].split(":")[0], dict(detail, error=j["exc"]))
    if j["cls"] == "ir":
        _bump(out["projs"], json.dumps(j["proj"]["o"], sort_keys=True), detail)
        if isinstance(j["fix"], list):
            out["fix_checked"] += 1
            for s in j["fix"]:
                _bump(out["viol"], "C17:fixpoint:" + s, dict(detail, fix_exc=j.get("fix_exc", ""), fix_detail=j.get("fix_detail", [])))
        elif j["fix"] == "ok":
            out["fix_checked"] += 1
