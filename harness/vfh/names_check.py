"""Engine of check C15 (three parts, one verdict).

A  name authority : TLC explores add/remove/re-add/rename histories (NamesAuthMC, two focus cfgs), every
                    explored transition is replayed on real objects and the names compared; seeded
                    random executions of the real objects are validated by NamesAuthTrace, where TLC
                    evaluates Fresh/Kept on the OBSERVED names.  A replay mismatch is judged the same way.
B  NameFixPass    : TLC enumerates every small scoped naming instance and runs the transcription
                    (NamesFixMC); the real pass is run on each; the observed before/after namings are
                    fed back to TLC (NamesJudge), which evaluates the post-conditions: that is the verdict.
                    Equality with the predicted names is conformance (a mismatch satisfying the
                    post-conditions is a divergence).  Random larger instances go through the judge too,
                    which then also checks conformance with the transcription.
C  rename_values  : TLC enumerates all small rename calls (NamesRenameMC, AllOrNothing is an invariant of
                    the model); each is replayed; NamesJudge evaluates AllOrNothing on the observed
                    before/after states.
"""

from __future__ import annotations

import json
import multiprocessing as mp
import os
import random
import re
import threading
import time

from . import names_auth, names_fix, names_rename
from .common import NCPU, SPECS, MachineryError
from .report import Ctx

POOL = None  # worker processes shared by the three parts (forked before any thread is started)

DIR = os.path.join(SPECS, "names")
NONE = "<none>"


def _p(name: str) -> str:
    return os.path.join(DIR, name)


def _cfg_variant(scratch: str, cfg: str, tag: str, **subst) -> str:
    src = open(_p(cfg)).read()
    for k, v in subst.items():
        src, n = re.subn(rf"^(\s*{k}\s*=\s*).*$", lambda m: m.group(1) + str(v), src, flags=re.M)
        if n != 1:
            raise MachineryError(f"cfg {cfg}: cannot set {k}")
    path = os.path.join(scratch, f"{cfg[:-4]}_{tag}.cfg")
    with open(path, "w") as f:
        f.write(src)
    return path


def _tlc(ctx, tla, cfg, **kw):
    """ctx.tlc with a modest heap (the models are small; many JVMs may share the machine) and one retry
    when the JVM was killed from outside (rc -9 without our timeout)."""
    kw.setdefault("heap", "4g")
    res = ctx.tlc(tla, cfg, **kw)
    if res.returncode in (-9, 137) and not res.timed_out:
        ctx.note(f"TLC run {kw.get('tag')} was killed from outside (rc={res.returncode}); repeated once")
        res = ctx.tlc(tla, cfg, **kw)
    return res


def _need_ok(res, what: str) -> None:
    if res.violated or res.errors or res.returncode != 0:
        raise MachineryError(f"{what}: TLC rc={res.returncode} violated={res.violated} errors={res.errors[:2]}\n{res.tail(25)}")


# ================================================================================================
# the judge: TLC evaluates the property on observed results
# ================================================================================================
def judge(ctx, structs: list, fix: list, ren: list, tag: str, chunk: int = 50000):
    """fix: [sidx, pre, post, cf]; ren: [pre, pairs, post, out]. Returns (fix verdicts, ren verdicts):
    fix verdict i = (broken clauses, conforms); ren verdict i = holds."""
    fv, rv = [None] * len(fix), [None] * len(ren)
    jobs = []
    for i in range(0, len(fix), chunk):
        jobs.append(("fix", i, fix[i:i + chunk]))
    for i in range(0, len(ren), chunk):
        jobs.append(("ren", i, ren[i:i + chunk]))
    for k, (kind, off, part) in enumerate(jobs):
        path = os.path.join(ctx.scratch, f"judge_{tag}_{k}.json")
        with open(path, "w") as f:
            if kind == "fix":
                # only the structures this batch refers to (TLC parses the file once per worker)
                used = sorted({o[0] for o in part})
                remap = {s: i + 1 for i, s in enumerate(used)}
                json.dump({"structs": [structs[s - 1] for s in used],
                           "fix": [[remap[o[0]]] + list(o[1:]) for o in part], "ren": []}, f)
            else:
                json.dump({"structs": [], "fix": [], "ren": part}, f)
        res = _tlc(ctx, _p("NamesJudge.tla"), _p("NamesJudge.cfg"), tag=f"judge-{tag}-{k}", env={"JUDGE_FILE": path},
                   deadlock=False, timeout=3000, workers=min(NCPU, 8), heap="6g")
        _need_ok(res, f"judge {tag}/{k}")
        for r in res.records():
            if not isinstance(r, list) or not r:
                continue
            if r[0] == "F" and kind == "fix":
                fv[off + r[1] - 1] = (r[2], bool(r[3]))
            elif r[0] == "R" and kind == "ren":
                rv[off + r[1] - 1] = bool(r[2])
        os.unlink(path)
        os.unlink(res.out_path)
    if any(v is None for v in fv) or any(v is None for v in rv):
        raise MachineryError(f"judge {tag}: {sum(v is None for v in fv) + sum(v is None for v in rv)} records without a verdict")
    return fv, rv


# ================================================================================================
# part A
# ================================================================================================
def _auth_trace_validate(ctx, traces: list, ng: int, tag: str, chunk: int = 400):
    """Validated in batches: TLC parses the trace file once per worker, so files are kept small."""
    rep = {"acc": set(), "div": {}, "fresh": [], "kept": []}
    for k, off in enumerate(range(0, len(traces), chunk)):
        part = traces[off:off + chunk]
        tf = os.path.join(ctx.scratch, f"auth_traces_{tag}_{k}.json")
        names_auth.write_trace_file(tf, part, ng)
        res = _tlc(ctx, _p("NamesAuthTrace.tla"), _p("NamesAuthTrace.cfg"), tag=f"auth-trace-{tag}-{k}", env={"TRACE_FILE": tf},
                   deadlock=False, timeout=3000)
        _need_ok(res, f"authority trace validation ({tag}/{k})")
        r = names_auth.parse_reports(res)
        rep["acc"] |= {t + off for t in r["acc"]}
        rep["div"].update({t + off: l for t, l in r["div"].items()})
        rep["fresh"] += [(t + off, l, items) for t, l, items in r["fresh"]]
        rep["kept"] += [(t + off, l) for t, l in r["kept"]]
        os.unlink(tf)
        os.unlink(res.out_path)
    missing = set(range(1, len(traces) + 1)) - rep["acc"] - set(rep["div"])
    if missing:
        raise MachineryError(f"authority traces ({tag}): {len(missing)} traces neither accepted nor rejected")
    return rep


def _auth_report(ctx, rep: dict, traces: list, source: str, divs: dict, seeds=None):
    """Turn the reports of NamesAuthTrace into violations / divergences."""
    for tid, l, items in rep["fresh"]:
        ev = traces[tid - 1][l - 1]
        kinds = "+".join(sorted({"value" if it[0] == "v" else "node" for it in items}))
        ctx.violation(
            f"C15:Auth:Fresh:{ev['c'][0]}:{kinds}",
            dict(part="A", source=source, ng=_ng_of(source), history=[e["c"] for e in traces[tid - 1][:l]], items=items,
                 functions=[2] if source == "trace" else [],
                 observed=ev["post"], trace_seed=(seeds[tid - 1] if seeds else None),
                 message=f"{ev['c'][0]}: generated name(s) {[it[2] for it in items]} had been registered or assigned "
                         f"by that graph before (Fresh evaluated by TLC on the observed names)"))
    for tid, l in rep["kept"]:
        ev = traces[tid - 1][l - 1]
        ctx.violation(
            f"C15:Auth:Kept:{ev['c'][0]}",
            dict(part="A", source=source, ng=_ng_of(source), history=[e["c"] for e in traces[tid - 1][:l]],
                 functions=[2] if source == "trace" else [],
                 observed=ev["post"], trace_seed=(seeds[tid - 1] if seeds else None),
                 message=f"{ev['c'][0]}: an explicitly given name was altered by adding a node (Kept evaluated by TLC "
                         f"on the observed names)"))
    bad = {(t, l) for t, l, _ in rep["fresh"]} | set(rep["kept"])
    for tid, l in rep["div"].items():
        if (tid, l) in bad:
            continue
        ev = traces[tid - 1][l - 1]
        sig = f"DIV:auth:{source}:{ev['c'][0]}:{ev['out']}"
        divs[sig] = divs.get(sig, 0) + 1


def _ng_of(source: str) -> int:
    return 3 if source == "trace" else 2


def part_a(ctx, divs: dict, kinds_all: dict) -> None:
    thorough = ctx.tier == "thorough"
    mc = _p("NamesAuthMC.tla")
    foci = [("add", dict(MaxDepth=4)), ("multi", dict(MaxDepth=4 if thorough else 3))]
    if thorough:
        foci[0] = ("add", dict(MaxDepth=4, Seeds="{1, 2, 3, 4}", SetV='{"<none>", "val_2"}'))
    mismatch_traces = []
    for focus, subst in foci:
        cfg = _cfg_variant(ctx.scratch, f"NamesAuthMC_{focus}.cfg", ctx.tier, **subst)
        res = _tlc(ctx, mc, cfg, tag=f"auth-{focus}", timeout=3000)
        _need_ok(res, f"authority design model ({focus})")
        st = names_auth.replay_file(res.out_path, 2, NCPU, POOL)
        os.unlink(res.out_path)
        if st["unparsed"]:
            raise MachineryError(f"auth-{focus}: {st['unparsed']} emitted records could not be parsed")
        if st["n"] == 0:
            raise MachineryError(f"auth-{focus}: TLC emitted no transitions")
        ctx.replayed += st["n"]
        for k, v in st["kinds"].items():
            kk = f"A|{k}"
            kinds_all[kk] = kinds_all.get(kk, 0) + v
            ctx.case(kk, nontrivial=("|raise|" in kk or kk.endswith("|gen")), n=v)
        if st["sample"] and len(ctx.samples) < 1:
            ctx.samples.append(dict(st["sample"], kind="authority history explored by TLC, replayed on real objects"))
        ctx.extra[f"auth_{focus}_transitions_replayed"] = st["n"]
        ctx.extra[f"auth_{focus}_mismatches"] = len(st["bad"])
        for b in st["bad"]:
            mismatch_traces.append(b["events"])
    if mismatch_traces:
        # a mismatch between prediction and code is judged by TLC on the observed names
        rep = _auth_trace_validate(ctx, mismatch_traces, 2, "mismatch")
        _auth_report(ctx, rep, mismatch_traces, "replay", divs)
        if not rep["div"]:
            raise MachineryError("authority replay mismatches were accepted by the trace spec (harness inconsistency)")

    # ---- code -> spec --------------------------------------------------------------------------
    ntr, length = (2500, 80) if thorough else (300, 50)
    t0 = time.time()
    seeds = [ctx.seed * 100003 + i for i in range(ntr)]
    traces = [names_auth.record_trace(s, length) for s in seeds]
    rep = _auth_trace_validate(ctx, traces, 3, "random")
    ctx.validated += len(rep["acc"])
    nev = sum(len(t) for t in traces)
    ctx.case(None, n=nev)
    ctx.extra["auth_traces_recorded"] = ntr
    ctx.extra["auth_trace_events"] = nev
    ctx.extra["auth_traces_divergent"] = len(rep["div"])
    ctx.extra["auth_trace_s"] = round(time.time() - t0, 1)
    _auth_report(ctx, rep, traces, "trace", divs, seeds)
    ctx.extra["auth_trace_sample"] = {"kind": "recorded execution of real ir.Graph/ir.Function objects, accepted by NamesAuthTrace",
                                      "events": [[e["c"], e["out"]] for e in traces[0][:8]]}


# ================================================================================================
# part B
# ================================================================================================
def _fix_cause(rec: dict, clause: str) -> str:
    """Readable sub-classification of a broken clause (classification only; the verdict is TLC's)."""
    pre, post = rec["pre"], rec["post"]
    if clause == "Completes":
        exc = rec.get("exc") or ""
        typ = exc.split(":")[0]
        return f"{typ}:" + ("initializer-rename-collision" if "Cannot rename initializer" in exc else "other")
    if clause.startswith("UniqueKept"):
        fld = "vname" if clause.endswith("value") else "nname"
        a, b = pre[fld], post[fld]
        causes = set()
        for i, nm in enumerate(a):
            if nm in (NONE, "") or a.count(nm) != 1 or b[i] == nm:
                continue
            thieves = [j for j in range(len(a)) if j != i and b[j] == nm]
            if any(a[j] in (NONE, "") for j in thieves):
                causes.add("taken-by-unnamed")
            elif thieves:
                causes.add("taken-by-renamed-duplicate")
            else:
                causes.add("changed-without-taker")
        return "+".join(sorted(causes)) or "unclassified"
    return ""


def _fix_size(rec: dict) -> tuple:
    return (len(rec["pre"]["vname"]) + len(rec["pre"]["nname"]), len(rec["S"]["hold"]), rec["pre"]["vname"], rec["pre"]["nname"])


def _fix_report(ctx, recs: list, verdicts: list, source: str, divs: dict) -> dict:
    """recs[i] has S, pre, post, exc, conf(optional). Smallest instance per signature is reported."""
    best = {}
    counts = {}
    for rec, (broken, jconf) in zip(recs, verdicts):
        conf = rec.get("conf", True) and jconf
        for clause in broken:
            cause = _fix_cause(rec, clause)
            sig = f"C15:NameFix:{clause}" + (f":{cause}" if cause else "")
            counts[sig] = counts.get(sig, 0) + 1
            if sig not in best or _fix_size(rec) < _fix_size(best[sig]):
                best[sig] = rec
        if not conf:
            k = f"DIV:fix:{source}:" + ("out" if rec.get("pred") and rec["pred"]["out"] != rec["post"]["out"] else "names")
            divs[k] = divs.get(k, 0) + 1
            if divs[k] == 1:
                ctx.note(f"first {k}: struct={json.dumps(rec['S']['raw'])} pre={rec['pre']['vname']}/{rec['pre']['nname']} "
                         f"observed={rec['post']} predicted={rec.get('pred')}")
    for sig, rec in sorted(best.items()):
        ctx.violation(sig, dict(
            part="B", source=source, S=rec["S"], vname=rec["pre"]["vname"], nname=rec["pre"]["nname"], observed=rec["post"],
            exception=rec.get("exc"), instances_with_this_signature=counts[sig], composite=rec.get("composite"),
            message=f"NameFixPass on {_describe(rec)}: post-condition {sig.split(':', 2)[2]} fails on the observed result "
                    f"{rec['post']['vname']}/{rec['post']['nname']}"
                    + (f" ({rec['exc']})" if rec.get("exc") else "") + f" [{counts[sig]} instances]"))
    return counts


def _describe(rec: dict) -> str:
    S = rec["S"]
    roles = [f"{r['k']}{r['g'] or ''}{('@n%d' % r['n']) if r['n'] else ''}" for r in S["raw"]["vrole"]]
    return (f"{S['top']} with values {list(zip(roles, rec['pre']['vname']))}, nodes {rec['pre']['nname']} in graphs "
            f"{S['raw']['nodeG']}, subgraph holders {S['hold']}")


def part_b(ctx, divs: dict, kinds_all: dict) -> None:
    thorough = ctx.tier == "thorough"
    mc = _p("NamesFixMC.tla")
    cfgs = ["v3t", "v3s", "v4t", "n3t"] if thorough else ["v3", "v4", "n3"]
    all_counts = {}
    ninst = 0
    # the transcription executed one visit per step on the smallest family: mechanism invariant at every
    # step, and small-step = big-step
    res = _tlc(ctx, mc, _p("NamesFixMC_step.cfg"), tag="fix-step", deadlock=False, timeout=3000)
    _need_ok(res, "name-fix design model (step)")
    os.unlink(res.out_path)
    batches = []          # (source, recs)
    jstructs, jfix = [], []
    for c in cfgs:
        res = _tlc(ctx, mc, _p(f"NamesFixMC_{c}.cfg"), tag=f"fix-{c}", deadlock=False, timeout=6000)
        _need_ok(res, f"name-fix design model ({c})")
        structs, runs = names_fix.load_tlc_output(res.out_path)
        os.unlink(res.out_path)
        if structs is None:
            raise MachineryError(f"fix-{c}: emitted records could not be parsed")
        if not runs:
            raise MachineryError(f"fix-{c}: TLC emitted no instances")
        out = names_fix.replay(structs, runs, NCPU, POOL)
        errs = [r for r in out if "error" in r]
        if errs:
            raise MachineryError(f"fix-{c}: {len(errs)} instances could not be built: {errs[0]['error']}")
        keys = sorted(structs)
        kidx = {k: len(jstructs) + i + 1 for i, k in enumerate(keys)}
        jstructs += [structs[k]["raw"] for k in keys]
        for r in out:
            r["S"] = structs[r["key"]]
            jfix.append([kidx[r["key"]], r["pre"], r["post"], False])
        batches.append((c, out))
        ctx.replayed += len(out)
        ninst += len(out)
        ctx.extra[f"fix_{c}_instances"] = len(out)
        ctx.extra[f"fix_{c}_structures"] = len(structs)
        ctx.extra[f"fix_{c}_nonconforming"] = sum(1 for r in out if not r["conf"])

    # ---- whole models: a main graph and one or two functions, all of them enumerated instances (FModel) --
    ncomp = 40000 if thorough else 4000
    pool_recs = [r for _, out in batches for r in out]
    mains = [r for r in pool_recs if r["S"]["top"] == "graph"]
    funcs = [r for r in pool_recs if r["S"]["top"] == "function"]
    # functions that need fixing first: that is where a model-level driver can go wrong
    funcs.sort(key=lambda r: (not r["pred"]["mod"], r["key"], r["pre"]["vname"], r["pre"]["nname"]))
    nfix = max(1, sum(1 for r in funcs if r["pred"]["mod"]))
    mains.sort(key=lambda r: (r["key"], r["pre"]["vname"], r["pre"]["nname"]))
    items, members = [], []
    if mains and funcs:
        stride = max(1, len(mains) // ncomp)
        for i, m in enumerate(mains[ctx.seed % stride::stride][:ncomp]):
            fs = [funcs[(i * 7 + 1) % nfix if i % 4 else (i * 11) % len(funcs)]]
            if i % 3 == 0:
                fs.append(funcs[(i * 13 + 5) % len(funcs)])
            parts = [m] + fs
            items.append(([(r["S"], r["pre"]["vname"], r["pre"]["nname"]) for r in parts], [r["pred"] for r in parts]))
            members.append(parts)
    comp = names_fix.replay_composites(items, NCPU, POOL) if items else []
    crecs = []
    flag_mismatch = 0
    for parts, c in zip(members, comp):
        if "error" in c:
            raise MachineryError(f"composite model could not be built: {c['error']}")
        if c["want_mod"] is not None and c["mod"] is not None and c["mod"] != c["want_mod"]:
            flag_mismatch += 1
        for r, t in zip(parts, c["tops"]):
            if t["untouched_expected"]:
                continue
            jstructs.append(r["S"]["raw"])
            jfix.append([len(jstructs), t["pre"], t["post"], False])
            crecs.append({"S": r["S"], "pre": t["pre"], "post": t["post"], "exc": c["exc"], "conf": t["conf"], "pred": r["pred"],
                          "composite": [[p["S"]["raw"], p["pre"]["vname"], p["pre"]["nname"]] for p in parts]})
    if crecs:
        batches.append(("model", crecs))
    ctx.replayed += len(comp)
    ctx.extra["fix_composite_models"] = len(comp)
    ctx.extra["fix_composite_tops_judged"] = len(crecs)
    ctx.extra["fix_composite_nonconforming_tops"] = sum(1 for r in crecs if not r["conf"])
    if flag_mismatch:
        divs["DIV:fix:model:modified-flag"] = flag_mismatch

    # ---- code -> spec: random larger instances, conformance checked by TLC as well -----------------
    nrand = 20000 if thorough else 1500
    rng = random.Random(ctx.seed * 7919 + 15)
    recs = []
    for _ in range(nrand):
        S, vn, nn = names_fix.random_instance(rng)
        o = names_fix.run_instance(S, vn, nn)
        if "error" in o:
            raise MachineryError(f"random name-fix instance could not be built: {o['error']}")
        jstructs.append(S["raw"])
        jfix.append([len(jstructs), o["pre"], o["post"], True])
        recs.append({"S": S, "pre": o["pre"], "post": o["post"], "exc": o["exc"]})
    batches.append(("random", recs))

    # ---- the verdict: TLC evaluates the post-conditions on every observed result -------------------
    fv_all, _ = judge(ctx, jstructs, jfix, [], "fix")
    pos = 0
    for c, out in batches:
        fv = fv_all[pos:pos + len(out)]
        pos += len(out)
        if c == "model":
            for r, (broken, _) in zip(out, fv):
                kk = f"B|model|{r['S']['top']}|{r['post']['out']}|{'conf' if r['conf'] else 'nonconf'}|" + "+".join(broken)
                kinds_all[kk] = kinds_all.get(kk, 0) + 1
        elif c == "random":
            nconf = sum(1 for _, cf in fv if cf)
            ctx.validated += nconf
            ctx.case(None, n=len(out))
            ctx.extra["fix_random_instances"] = len(out)
            ctx.extra["fix_random_conforming"] = nconf
        else:
            # the model's own prediction of the broken clauses must agree with the judgement wherever the code conforms
            for r, (broken, _) in zip(out, fv):
                if r["conf"] and broken != r["pbroken"]:
                    raise MachineryError(f"fix-{c}: judge and model disagree on a conforming instance {r['key']} {r['pre']}")
                changed = r["pre"]["vname"] != r["post"]["vname"] or r["pre"]["nname"] != r["post"]["nname"]
                kk = (f"B|{c[0]}|{r['S']['top']}|g{len(r['S']['hold'])}|{r['post']['out']}|{'changed' if changed else 'same'}|"
                      + "+".join(broken))
                kinds_all[kk] = kinds_all.get(kk, 0) + 1
            if len(ctx.samples) < 1 and c.startswith("v3"):
                r = next((x for x in out if x["pre"]["vname"] != x["post"]["vname"] and len(x["S"]["hold"]) > 1), out[0])
                ctx.samples.append({"kind": "naming instance enumerated by TLC, real NameFixPass result judged by TLC",
                                    "structure": r["S"]["raw"], "before": [r["pre"]["vname"], r["pre"]["nname"]],
                                    "after": [r["post"]["vname"], r["post"]["nname"]], "outcome": r["post"]["out"]})
        counts = _fix_report(ctx, out, fv, c if c in ("random", "model") else f"enum-{c}", divs)
        for k, v in counts.items():
            all_counts[k] = all_counts.get(k, 0) + v
    for kk, v in kinds_all.items():
        if kk.startswith("B|"):
            ctx.case(kk, nontrivial=("|changed|" in kk or "|raise|" in kk), n=v)
    ctx.extra["fix_instances_enumerated"] = ninst
    ctx.extra["fix_broken_clause_counts"] = all_counts


# ================================================================================================
# part C
# ================================================================================================
def part_c(ctx, divs: dict, kinds_all: dict) -> None:
    thorough = ctx.tier == "thorough"
    mc = _p("NamesRenameMC.tla")
    # the validation is necessary: without the "name held by an initializer outside the renamed set" check the
    # mechanism is not atomic -> TLC must find the violation at the design level
    res = _tlc(ctx, mc, _p("NamesRenameMC_weak.cfg"), tag="ren-weak", deadlock=False, timeout=600, count=False)
    if "InvAllOrNothing" not in res.violated:
        raise MachineryError(f"weakened rename model does not violate AllOrNothing: {res.violated} {res.errors[:2]}")
    os.unlink(res.out_path)
    cfg = _p("NamesRenameMC.cfg")
    if thorough:
        cfg = _cfg_variant(ctx.scratch, "NamesRenameMC.cfg", "t", LongDistinct="FALSE", Targets='{"a", "b", "c", "", "<none>"}',
                           TensorChoices="{FALSE, TRUE}")
    res = _tlc(ctx, mc, cfg, tag="ren", deadlock=False, timeout=6000)
    _need_ok(res, "rename design model")
    out = names_rename.replay_file(res.out_path, NCPU, POOL)
    os.unlink(res.out_path)
    if any("unparsed" in r for r in out) or not out:
        raise MachineryError("rename: emitted records could not be parsed")
    errs = [r for r in out if "error" in r]
    if errs:
        raise MachineryError(f"rename: {len(errs)} instances could not be built: {errs[0]['error']}")
    _, rv = judge(ctx, [], [], [[r["pre"], r["pairs"], r["post"], r["out"]] for r in out], "ren")
    ctx.replayed += len(out)
    best = {}
    for r, holds in zip(out, rv):
        kind = names_rename.kind_of(r["pre"], r["pairs"])
        kk = f"C|{kind}|{r['pred'][1]}|{r['out']}"
        kinds_all[kk] = kinds_all.get(kk, 0) + 1
        if not holds:
            touched = any(r["pre"]["vinit"][p[0] - 1] != 0 for p in r["pairs"])
            sig = f"C15:Rename:AllOrNothing:{r['out']}:{'initializer' if touched else 'plain'}"
            if sig not in best or len(r["pairs"]) < len(best[sig]["pairs"]):
                best[sig] = r
        if not r["conf"]:
            k = f"DIV:rename:{r['pred'][1]}:{r['out']}"
            divs[k] = divs.get(k, 0) + 1
            if divs[k] == 1:
                ctx.note(f"first {k}: pre={r['pre']} pairs={r['pairs']} observed={r['post']} predicted={r['pred'][0]}")
    for sig, r in sorted(best.items()):
        ctx.violation(sig, dict(part="C", pre=r["pre"], pairs=r["pairs"], observed=r["post"], out=r["out"], exception=r["exc"],
                                message=f"rename_values({r['pairs']}) on {r['pre']} -> {r['out']} {r['exc'] or ''}: neither "
                                        f"everything renamed and re-keyed nor nothing changed; observed {r['post']}"))
    for kk, v in kinds_all.items():
        if kk.startswith("C|"):
            ctx.case(kk, nontrivial=("|reject" in kk or "init0" not in kk), n=v)
    ctx.extra["rename_calls_replayed"] = len(out)
    ctx.extra["rename_nonconforming"] = sum(1 for r in out if not r["conf"])
    if len(ctx.samples) < 1:
        r = next((x for x in out if "cycle3" in names_rename.kind_of(x["pre"], x["pairs"]) and x["out"] == "ok"), out[0])
        ctx.samples.append({"kind": "rename_values call enumerated by TLC, replayed, AllOrNothing evaluated by TLC on the result",
                            "before": r["pre"], "pairs": r["pairs"], "after": r["post"], "outcome": r["out"]})


# ================================================================================================
def coverage_check(ctx) -> None:
    """Anti-vacuity: with -coverage 1 no expression of the design models may have count 0."""
    zero = {}
    runs = [("NamesAuthMC.tla", _cfg_variant(ctx.scratch, "NamesAuthMC_add.cfg", "cov", MaxDepth=3, EmitOn="FALSE")),
            ("NamesAuthMC.tla", _cfg_variant(ctx.scratch, "NamesAuthMC_multi.cfg", "cov", MaxDepth=3, EmitOn="FALSE")),
            ("NamesFixMC.tla", _p("NamesFixMC_step.cfg")),
            ("NamesRenameMC.tla", _cfg_variant(ctx.scratch, "NamesRenameMC.cfg", "cov", EmitOn="FALSE"))]
    for i, (tla, cfg) in enumerate(runs):
        res = _tlc(ctx, _p(tla), cfg, tag=f"cov-{i}", deadlock=False, timeout=3000, coverage=True, count=False)
        _need_ok(res, f"coverage run {tla}")
        n = 0
        with open(res.out_path, errors="replace") as f:
            for line in f:
                if re.match(r"^\s*\|*line \d+, col \d+ to line \d+, col \d+ of module Names\w*: 0$", line.rstrip()):
                    n += 1
        zero[f"{tla}:{os.path.basename(cfg)}"] = n
        os.unlink(res.out_path)
    ctx.extra["coverage_zero_count_expressions"] = zero
    if any(zero.values()):
        raise MachineryError(f"design model has expressions that are never evaluated: {zero}")


def run(ctx) -> None:
    """The three parts are independent; they run concurrently, each on its own sub-context, and are merged."""
    global POOL
    divs: dict = {}
    kinds: dict = {}
    if ctx.tier == "thorough":
        coverage_check(ctx)
    POOL = mp.get_context("fork").Pool(NCPU)
    parts = {"a": part_a, "b": part_b, "c": part_c}
    subs, errors, local = {}, {}, {}
    for p in parts:
        d = os.path.join(ctx.scratch, f"part_{p}")
        os.makedirs(d, exist_ok=True)
        subs[p] = Ctx(ctx.pid, ctx.tier, ctx.seed, d, level=ctx.level)
        subs[p].known = []   # known findings are matched once, when merging
        local[p] = ({}, {})

    def work(p):
        t = time.time()
        try:
            parts[p](subs[p], local[p][0], local[p][1])
        except BaseException as e:  # noqa: BLE001 - re-raised in the main thread
            errors[p] = e
        subs[p].extra[f"part_{p}_s"] = round(time.time() - t, 1)

    try:
        threads = [threading.Thread(target=work, args=(p,), name=f"c15-{p}") for p in parts]
        for t in threads:
            t.start()
        for t in threads:
            t.join()
    finally:
        POOL.terminate()
        POOL = None
    for p in parts:
        if p in errors:
            raise errors[p]
    for p in parts:
        sub = subs[p]
        ctx.states += sub.states
        ctx.transitions += sub.transitions
        ctx.tlc_runs += sub.tlc_runs
        ctx.replayed += sub.replayed
        ctx.validated += sub.validated
        ctx.evaluations += sub.evaluations
        ctx._distinct |= sub._distinct
        ctx.samples += sub.samples
        ctx.notes += sub.notes
        ctx.extra.update(sub.extra)
        for sig, detail in sorted(sub.violations.items()):
            ctx.violation(sig, detail)
        for k, v in local[p][0].items():
            divs[k] = divs.get(k, 0) + v
        kinds.update(local[p][1])
    ctx.extra["divergences"] = divs
    ctx.extra["case_kinds"] = len(kinds)
    if divs:
        ctx.note(f"{sum(divs.values())} model/code divergences that do not break the property (see coverage.divergences)")
    ctx.rule = (
        "evaluations = authority transitions replayed + authority trace events validated + name-fix instances run on the "
        "real pass + rename calls replayed. distinct_nontrivial = distinct classes (A: op|outcome|generated-a-name, B: "
        "family|top|#scopes|outcome|changed|broken clauses, C: call features|model outcome|code outcome); a class is "
        "non-trivial when a name is generated or a call rejected (A), a name changes or the pass raises (B), the call is "
        "rejected or touches an initializer (C)."
    )
    ctx.exhaustive = not divs
    ctx.assumptions = [
        "small scope: A <=3 nodes, <=2 graphs, histories of <=4 calls after construction (random traces: 3 graphs, 8 nodes, "
        "50-80 calls); B <=4 values, <=3 nodes, 2 scopes (thorough: 3 scopes) with sorted, valid scoping (a subgraph only "
        "references values visible at its holder); C 3 values, <=3 pairs, 2 graphs",
        "name spaces of nodes and values are separate for Fresh (a value called node_Op_0 does not forbid a node of that name)",
        "names assigned by the user after the add (value.name = ..., graph.inputs.append) are not 'registered by the graph'",
        "'visible from a subgraph' = inputs and initializers of the enclosing graphs and outputs of nodes preceding the holder",
        "'already unique' = non-empty and carried by no other value (node) of the whole graph or function being fixed",
        "initializer dictionary order is compared for conformance only, never for the verdict",
        "exception types are not part of the verdict (raise vs return only)",
    ]


# ================================================================================================
def replay(ctx, detail: dict) -> bool:
    part = detail.get("part")
    if part == "A":
        u = names_auth.Universe(detail.get("ng", 2), function_graphs=detail.get("functions", ()))
        events = []
        for c in detail["history"]:
            out = u.apply(c)
            events.append({"c": c, "out": out, "post": u.project()})
        print("observed:", events[-1])
        rep = _auth_trace_validate(ctx, [events], detail.get("ng", 2), "replay")
        print("TLC reports:", {k: v for k, v in rep.items() if v})
        return bool(rep["fresh"] or rep["kept"])
    if part == "B" and detail.get("composite"):
        # a whole model: main graph + functions; every top is judged
        parts = [(names_fix.derive_lists(raw), vn, nn) for raw, vn, nn in detail["composite"]]
        o = names_fix.run_composite(parts)
        if "error" in o:
            raise MachineryError(o["error"])
        print("tops before:", [(p["vname"], p["nname"]) for p in o["pres"]], "after:",
              [(p["vname"], p["nname"]) for p in o["posts"]], o["exc"])
        posts = [dict(p, out="ok") for p in o["posts"]]
        if o["out"] == "raise":
            posts[0]["out"] = "raise"
        fv, _ = judge(ctx, [p[0]["raw"] for p in parts], [[k + 1, pre, post, False] for k, (pre, post) in
                                                         enumerate(zip(o["pres"], posts))], [], "replay")
        print("post-conditions broken per top (TLC):", [f[0] for f in fv])
        clause = (detail.get("_signature", "").split(":") + ["", "", ""])[2]
        return any(any(b.startswith(clause) for b in f[0]) if clause else bool(f[0]) for f in fv)
    if part == "B":
        o = names_fix.run_instance(detail["S"], detail["vname"], detail["nname"])
        if "error" in o:
            raise MachineryError(o["error"])
        print("before:", o["pre"]["vname"], o["pre"]["nname"], "after:", o["post"], o["exc"])
        fv, _ = judge(ctx, [detail["S"]["raw"]], [[1, o["pre"], o["post"], False]], [], "replay")
        print("post-conditions broken (TLC):", fv[0][0])
        clause = (detail.get("_signature", "").split(":") + ["", "", ""])[2]
        return any(b.startswith(clause) for b in fv[0][0]) if clause else bool(fv[0][0])
    if part == "C":
        o = names_rename.run_instance(detail["pre"], detail["pairs"])
        if "error" in o:
            raise MachineryError(o["error"])
        print("observed:", o)
        _, rv = judge(ctx, [], [], [[detail["pre"], detail["pairs"], o["post"], o["out"]]], "replay")
        print("AllOrNothing (TLC):", rv[0])
        return not rv[0]
    raise MachineryError(f"unknown replay detail {detail.keys()}")
