"""Drivers binding the LinkedSet / RecIter specifications (property C11) to the real code.

A *target* holds real objects and real generator objects (the cursors):

  dls    onnx_ir._linked_list.DoublyLinkedSet of token objects, iter()/reversed()
  graph  ir.Graph of real ir.Node objects edited through Graph.append/extend/insert_after/
         insert_before/remove/sort, cursors iter(graph)/reversed(graph)
  func   ir.Function wrapping such a graph, edited through Function.append/extend/remove/sort and
         Node.append / Node.prepend for the positional inserts, cursors iter(func)/reversed(func)
  rec    a 2-level nesting (outer graph, one host node with a GRAPH attribute holding the inner
         graph) traversed by onnx_ir.traversal.RecursiveGraphIterator

Elements are numbered 1..n; an action is the spec's tuple (op, a, es, c).  Every call is made
through the public API and classified as  ok | rej (ValueError) | yield | stop | err:<Type>.
"""

from __future__ import annotations

import onnx_ir as ir
from onnx_ir._linked_list import DoublyLinkedSet
from onnx_ir.traversal import RecursiveGraphIterator

KINDS = ("dls", "graph", "func")


class StepTimeout(Exception):
    """A public call of the library did not return ("always terminates" is part of C11)."""


class _Lib:
    """Marks the regions in which the harness is inside a call of the library: the watchdog of lsreplay
    interrupts only those (outcome err:StepTimeout of that call)."""

    inside = False
    timeouts = 0     # calls interrupted so far in this process

    def __enter__(self):
        _Lib.inside = True

    def __exit__(self, *a):
        _Lib.inside = False
        return False


LIB = _Lib()


def on_alarm(_sig, _frm):
    if _Lib.inside:
        _Lib.timeouts += 1
        raise StepTimeout()


class Tok:
    __slots__ = ("i",)

    def __init__(self, i):
        self.i = i

    def __repr__(self):
        return f"e{self.i}"


def _classify(exc: BaseException) -> str:
    if isinstance(exc, ValueError):
        return "rej"
    return "err:" + type(exc).__name__


def make_nodes(n: int, prefix: str, deps=None, host_attr=None):
    """n real nodes; node k takes the outputs of the nodes deps[k] (default: all lower ones, which
    makes ascending ids the only topological order)."""
    nodes = []
    for k in range(1, n + 1):
        ds = range(1, k) if deps is None else deps.get(k, ())
        ins = [nodes[d - 1].outputs[0] for d in ds]
        attrs = [host_attr] if (host_attr is not None and k == 1) else []
        nodes.append(ir.Node("", "Op", inputs=ins, attributes=attrs, num_outputs=1, name=f"{prefix}{k}"))
    return nodes


class _SeqTarget:
    """Common part: observation of a sequence-like object x over elements self.el[1..n]."""

    nelem: int

    _t0 = 0

    def ident(self, obj) -> int:
        return self.ids.get(id(obj), -1)

    def dead(self) -> bool:
        return _Lib.timeouts != self._t0

    def observe(self, x=None):
        """(list, len, items, negitems, member, oob) read through the public protocol only."""
        x = self.x if x is None else x
        if _Lib.timeouts != self._t0:     # a call of this behaviour never returned: nothing more to learn from the object
            return [-9], -1, [], [], [], 0
        try:
            with LIB:
                lst = []
                for o in x:
                    lst.append(self.ident(o))
                    if len(lst) > 1000:
                        raise RuntimeError("endless iteration")
        except Exception as e:  # noqa: BLE001
            lst = ["err:" + type(e).__name__]
        try:
            with LIB:
                n = len(x)
        except Exception:  # noqa: BLE001
            n = -1
        m = len(lst)
        items, neg = [], []
        for i in range(m):
            try:
                with LIB:
                    items.append(self.ident(x[i]))
            except Exception:  # noqa: BLE001
                items.append(-2)
            try:
                with LIB:
                    neg.append(self.ident(x[-i - 1]))
            except Exception:  # noqa: BLE001
                neg.append(-2)
        mem = []
        for k in range(1, self.nelem + 1):
            try:
                with LIB:
                    mem.append(1 if self.el[k] in x else 0)
            except Exception:  # noqa: BLE001
                mem.append(-1)
        oob = 1
        for i in (max(n, m), -max(n, m) - 1):
            try:
                with LIB:
                    x[i]
                    oob = 0
            except IndexError:
                pass
            except Exception:  # noqa: BLE001
                oob = 0
        return lst, n, items, neg, mem, oob

    def step(self, c: int):
        try:
            with LIB:
                o = next(self.cur[c - 1])
        except StopIteration:
            return "stop", 0
        except Exception as e:  # noqa: BLE001
            return "err:" + type(e).__name__, 0
        return "yield", self.ident(o)


class DlsTarget(_SeqTarget):
    kind = "dls"

    def __init__(self, nelem, init, dirs, deps=None):
        self.nelem = nelem
        self._t0 = _Lib.timeouts
        self.el = {k: Tok(k) for k in range(1, nelem + 1)}
        self.ids = {id(o): k for k, o in self.el.items()}
        self.x = DoublyLinkedSet([self.el[k] for k in init])
        self.cur = [iter(self.x) if d == "f" else reversed(self.x) for d in dirs]

    def apply(self, op, a, es, c):
        E = self.el
        if self.dead():
            return "err:StepTimeout", 0
        if op == "ST":
            return self.step(c)
        try:
            with LIB:
                if op == "AP":
                    self.x.append(E[a])
                elif op in ("EX", "SO"):
                    self.x.extend([E[k] for k in es])
                elif op == "IA":
                    self.x.insert_after(E[a], [E[k] for k in es])
                elif op == "IB":
                    self.x.insert_before(E[a], [E[k] for k in es])
                elif op == "RM":
                    self.x.remove(E[a])
                else:
                    raise AssertionError(op)
        except Exception as e:  # noqa: BLE001
            return _classify(e), 0
        return "ok", 0


class GraphTarget(_SeqTarget):
    """kind 'graph': Graph methods; kind 'func': Function methods + Node.append/prepend."""

    def __init__(self, nelem, init, dirs, kind="graph", deps=None):
        self.kind = kind
        self.nelem = nelem
        self._t0 = _Lib.timeouts
        nodes = make_nodes(nelem, "n", deps)
        self.el = {k: nodes[k - 1] for k in range(1, nelem + 1)}
        self.ids = {id(o): k for k, o in self.el.items()}
        self.g = ir.Graph(inputs=[], outputs=[], nodes=[self.el[k] for k in init], name="g")
        self.x = self.g if kind == "graph" else ir.Function("d", "f", graph=self.g, attributes=[])
        self.cur = [iter(self.x) if d == "f" else reversed(self.x) for d in dirs]

    def apply(self, op, a, es, c):
        E, x = self.el, self.x
        if self.dead():
            return "err:StepTimeout", 0
        if op == "ST":
            return self.step(c)
        try:
            with LIB:
                if op == "AP":
                    x.append(E[a])
                elif op == "EX":
                    x.extend([E[k] for k in es])
                elif op == "SO":
                    x.sort()
                elif op in ("IA", "IB"):
                    new = [E[k] for k in es]
                    arg = new[0] if (len(new) == 1 and a % 2 == 1) else new   # a bare Node is accepted too
                    if self.kind == "func":
                        (E[a].append if op == "IA" else E[a].prepend)(arg)
                    else:
                        (x.insert_after if op == "IA" else x.insert_before)(E[a], arg)
                elif op == "RM":
                    x.remove(E[a])
                else:
                    raise AssertionError(op)
        except Exception as e:  # noqa: BLE001
            return _classify(e), 0
        return "ok", 0


def make_target(kind, nelem, init, dirs, deps=None):
    if kind == "dls":
        return DlsTarget(nelem, init, dirs, deps)
    return GraphTarget(nelem, init, dirs, kind, deps)


class RecTarget(_SeqTarget):
    """Outer graph (elements 1..n, node 1 is the host of the inner graph) and inner graph
    (elements 1..n of its own), traversed by one RecursiveGraphIterator."""

    kind = "rec"

    def __init__(self, nelem, init_o, init_i, d, via_all_nodes=False):
        self.nelem = nelem
        self._t0 = _Lib.timeouts
        inner = make_nodes(nelem, "i")
        self.gi = ir.Graph(inputs=[], outputs=[], nodes=[inner[k - 1] for k in init_i], name="inner")
        outer = make_nodes(nelem, "o", host_attr=ir.AttrGraph("body", self.gi))
        self.go = ir.Graph(inputs=[], outputs=[], nodes=[outer[k - 1] for k in init_o], name="outer")
        self.els = [{k: outer[k - 1] for k in range(1, nelem + 1)}, {k: inner[k - 1] for k in range(1, nelem + 1)}]
        self.idss = [{id(o): k for k, o in E.items()} for E in self.els]
        self.gs = [self.go, self.gi]
        if via_all_nodes and d == "f":
            self.it = self.go.all_nodes()
        else:
            self.it = RecursiveGraphIterator(self.go, reverse=(d == "b"))

    def observe2(self):
        out = []
        for lvl in (0, 1):
            self.el, self.ids = self.els[lvl], self.idss[lvl]
            out.append(self.observe(self.gs[lvl]))
        return out

    def apply(self, op, g, a, es):
        if self.dead():
            return "err:StepTimeout", 0, 0
        if op == "ST":
            try:
                with LIB:
                    o = next(self.it)
            except StopIteration:
                return "stop", 0, 0
            except Exception as e:  # noqa: BLE001
                return "err:" + type(e).__name__, 0, 0
            for lvl in (0, 1):
                k = self.idss[lvl].get(id(o))
                if k is not None:
                    return "yield", lvl, k
            return "yield", 0, -1
        E, x = self.els[g], self.gs[g]
        try:
            with LIB:
                if op == "AP":
                    x.append(E[a])
                elif op == "EX":
                    x.extend([E[k] for k in es])
                elif op == "SO":
                    self.go.sort()
                elif op == "IA":
                    x.insert_after(E[a], [E[k] for k in es])
                elif op == "IB":
                    x.insert_before(E[a], [E[k] for k in es])
                elif op == "RM":
                    x.remove(E[a])
                else:
                    raise AssertionError(op)
        except Exception as e:  # noqa: BLE001
            return _classify(e), 0, 0
        return "ok", 0, 0


def expected_obs(lst, nelem):
    """What len / indexing / membership must report for the sequence lst."""
    return list(lst), len(lst), list(lst), list(lst)[::-1], [1 if k in lst else 0 for k in range(1, nelem + 1)], 1
