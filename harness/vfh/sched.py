"""Deterministic scheduler and synchronisation shims for ``onnx_ir.external_data`` (property C09).

Nothing in /repo is edited.  ``external_data`` does ``import threading`` / ``import concurrent.futures``
and looks the names up in its *module globals* at call time, so the harness replaces, in its own
process and only for the duration of one execution,

* ``external_data.threading``   by a namespace with ``Lock``, ``Condition``, ``local``;
* ``external_data.concurrent``  by a namespace whose ``futures`` has ``ThreadPoolExecutor`` and
  ``as_completed``;
* ``external_data._ByteBudget`` by a subclass that only *registers* the budget object and records
  which thread holds a reservation (``acquire``/``release`` themselves are the real, inherited code).

Two worlds implement the same interface (``Env``):

``GatedEnv``  worker "threads" are real Python threads, but exactly one runs at a time: every shim
    operation first parks the thread; the scheduler (running in the harness thread) picks one
    runnable thread, lets it execute up to its next synchronisation point and then takes the snapshot
    of the observable state (real ``_ByteBudget`` counters + monitors).  One granted step emits at most
    one event.  No runnable thread while some are unfinished = deadlock.

``RealEnv``   real ``threading``/``concurrent.futures`` objects behind logging wrappers; the OS picks the
    schedule.  Events get their place in the global order under a log mutex, taken while the lock /
    condition concerned is still held.

Termination: in the gated world "no runnable thread while some are unfinished" is a deadlock of the code
under test and so is an execution that is still going after the step bound (both are recorded in
``env.deadlock`` with ``why`` = ``deadlock`` / ``stepbound`` and become C09 verdicts); in the real world a
quiet period without any event is.  The harness itself never hangs on them: parked threads are unwound with
``SchedAbort``, a granted thread that does not come back within ``GRANT_TIMEOUT`` is a machinery error.

Exceptions of every kind raised by the code under test or by the injected failures (``KeyboardInterrupt``,
``SystemExit`` and other ``BaseException`` subclasses included) are stored in the future by the pool threads
of both worlds exactly like ``concurrent.futures`` does (``except BaseException``); only ``SchedAbort`` and
``MachineryError`` belong to the harness.  A pool that the code never shuts down (its threads keep running
after the caller resumed) is drained by the scheduler / by ``RealEnv.drain``.

If an internal name the shims rely on has moved, ``MachineryError`` is raised (exit 2) - never a verdict.
"""

from __future__ import annotations

import concurrent.futures as _rcf
import sys
import threading as _rt
import types

from .common import MachineryError

# spec action names per lock kind
_ACQ = {"icb": "ICbAcq", "ocb": "OCbAcq", "files": "FAcq", "tensor": "TLock"}
_REL = {"icb": "ICbRel", "ocb": "OCbRel", "files": "FRel", "tensor": "TUnlock"}


class SchedAbort(BaseException):
    """Raised inside parked threads to unwind them after a deadlock / at teardown."""


class RealWaitTimeout(Exception):
    """Real-thread world: a wait on the budget condition never ended (reported as a deadlock)."""


GRANT_TIMEOUT = 300.0       # gated world: a granted step of the real code (no I/O to speak of) takes microseconds
REAL_WAIT_TIMEOUT = 900.0   # never decides anything by itself: run_real declares a deadlock only after a quiet period


class ReplayMismatch(Exception):
    """A scripted schedule asked for a thread that is not runnable."""


class _Monitors:
    """Observable state shared by both worlds (what ``Obs`` of the specification talks about)."""

    def __init__(self, ntensors: int):
        self.budgets: list = []
        self.held: list = []      # [tid, nbytes]  acquire returned, release not yet returned
        self.eval: list = []      # [tid, obj]     inside tensor.tofile
        self.incb: list = []      # tids inside the user callback
        self.cb = [0] * ntensors  # callback invocations per tensor index
        self.cb_log: list = []    # (tid, index, filename, offset)
        self.busy: set = set()
        self.caller = "running"


# =====================================================================================================
#                                        the gated world
# =====================================================================================================
class _SThread:
    __slots__ = ("tid", "sem", "ready", "eager", "label", "thread", "killed", "idle", "notified", "ctx",
                 "job_base", "lockn")

    def __init__(self, tid):
        self.tid = tid
        self.sem = _rt.Semaphore(0)
        self.ready = lambda: True
        self.eager = False
        self.label = "start"
        self.thread = None
        self.killed = False
        self.idle = False
        self.notified = False
        self.ctx = None
        self.job_base = 0
        self.lockn = 0


class GatedEnv:
    gated = True

    def __init__(self, ntensors: int, sharded: bool, chooser):
        self.mon = _Monitors(ntensors)
        self.sharded = sharded
        self.chooser = chooser
        self.threads: dict = {}
        self.tls = _rt.local()
        self.sched_sem = _rt.Semaphore(0)
        self.aborting = False
        self.events: list = []
        self.choices: list = []      # tid granted at every non-eager decision
        self.runnable_log: list = []  # runnable tids at every non-eager decision
        self.deadlock = None
        self.error = None
        self.last = None             # tid granted last
        self.extra_tids = 0

    # ---- thread side ---------------------------------------------------------------------------
    def me(self) -> _SThread:
        st = getattr(self.tls, "st", None)
        if st is None:
            raise MachineryError("shim operation from a thread the scheduler does not know")
        return st

    def tid(self) -> int:
        return self.me().tid

    def park(self, ready=None, label="", eager=False, idle=False):
        """Give the baton back; continue when the scheduler grants this thread again."""
        st = self.me()
        if self.aborting:
            raise SchedAbort()
        st.ready = ready if ready is not None else (lambda: True)
        st.label, st.eager, st.idle = label, eager, idle
        self.sched_sem.release()
        st.sem.acquire()
        st.idle = False
        if self.aborting or st.killed:
            raise SchedAbort()

    def emit(self, op: str, i: int = 0, **extra):
        if self.aborting:
            return
        ev = {"t": self.tid(), "op": op, "i": int(i), "cmp": 1, "post": None}
        ev.update(extra)
        self.events.append(ev)

    def spawn(self, tid: int, body, ready, idle=False) -> _SThread:
        if tid in self.threads:
            raise MachineryError(f"thread id {tid} allocated twice")
        st = _SThread(tid)
        st.ready, st.idle, st.label = ready, idle, "spawned"

        def run():
            self.tls.st = st
            st.sem.acquire()
            if not (st.killed or self.aborting):
                try:
                    body(st)
                except SchedAbort:
                    pass
                except BaseException as e:  # noqa: BLE001 - the harness itself failed
                    if self.error is None:
                        self.error = e
            if st.killed or self.aborting:
                return
            self.threads.pop(tid, None)
            self.sched_sem.release()

        st.thread = _rt.Thread(target=run, name=f"vf-c09-{tid}", daemon=True)
        self.threads[tid] = st
        st.thread.start()
        return st

    def kill(self, st: _SThread):
        """Stop a parked idle pool thread (called by the baton holder)."""
        st.killed = True
        st.sem.release()
        st.thread.join(10)
        self.threads.pop(st.tid, None)

    # ---- reservation monitor (acquire returned .. release returned) ---------------------------------
    def want(self, n: int):
        self.tls.want = n
        self.tls.in_acquire = True

    def acquired(self):
        self.tls.in_acquire = None
        self.mon.held.append([self.tid(), self.tls.want])

    def releasing(self):
        self.tls.in_acquire = False

    def released(self):
        self.tls.in_acquire = None
        t = self.tid()
        for ent in self.mon.held:
            if ent[0] == t:
                self.mon.held.remove(ent)
                break

    # ---- observation ----------------------------------------------------------------------------
    def observe(self) -> dict:
        m = self.mon
        inflight, over, wait = 0, False, []
        for b in m.budgets:
            try:
                inflight += b._in_flight
                over = over or bool(b._oversized_active)
                wait += [w.tid for w in b._condition.waiters]
            except AttributeError as e:
                raise MachineryError(f"_ByteBudget internals moved: {e}") from None
        return {
            "inflight": int(inflight), "over": bool(over), "wait": sorted(wait),
            "incb": sorted(m.incb), "eval": sorted(list(x) for x in m.eval),
            "held": sorted(list(x) for x in m.held), "cb": list(m.cb),
            "busy": sorted(m.busy), "caller": m.caller,
        }

    # ---- scheduler side -------------------------------------------------------------------------
    def run(self, main_body, max_steps: int = 5000):
        self.spawn(0, main_body, ready=lambda: True).eager = True   # the caller's start is not a sync point
        nev = 0
        steps = 0
        while True:
            if self.error is not None:
                self._abort()
                raise MachineryError(f"harness thread failed: {self.error!r}") from self.error
            if len(self.events) > nev + 1:
                self._abort()
                raise MachineryError(f"{len(self.events) - nev} events in one granted step: {self.events[nev:]}")
            if len(self.events) == nev + 1:
                self.events[-1]["post"] = self.observe()
                nev += 1
            live = [self.threads[k] for k in sorted(self.threads)]
            if not live:
                return
            runnable = [st for st in live if st.ready()]
            eager = [st for st in runnable if st.eager]
            if eager:
                pick = eager[0]
            elif not runnable:
                if all(st.idle for st in live) and 0 not in self.threads:
                    for st in live:  # pool threads left behind by shutdown(wait=False)
                        self.kill(st)
                    return
                self.deadlock = {
                    "blocked": [[st.tid, str(st.label)] for st in live if not st.idle],
                    "idle": [st.tid for st in live if st.idle],
                    "obs": self.observe(), "why": "deadlock",
                }
                self.events.append({"t": 0, "op": "Deadlock", "i": 0, "cmp": 0, "post": self.observe()})
                self._abort()
                return
            else:
                tids = [st.tid for st in runnable]
                try:
                    t = self.chooser(tids, self)
                except ReplayMismatch:
                    self._abort()
                    raise
                if t not in tids:
                    self._abort()
                    raise MachineryError(f"chooser returned {t}, runnable {tids}")
                self.choices.append(t)
                self.runnable_log.append(tids)
                pick = self.threads[t]
            steps += 1
            if steps > max_steps:
                # the bounded-step watchdog: under this scheduler a thread that waits is parked until it is
                # notified, so an execution of a handful of tensors that is still going after `max_steps`
                # granted steps does not terminate (livelock) - a verdict about the code, like a deadlock
                self.deadlock = {
                    "blocked": [[st.tid, str(st.label)] for st in live if not st.idle],
                    "idle": [st.tid for st in live if st.idle],
                    "obs": self.observe(), "why": "stepbound",
                }
                self.events.append({"t": 0, "op": "Deadlock", "i": 0, "cmp": 0, "post": self.observe()})
                self._abort()
                return
            self.last = pick.tid
            pick.sem.release()
            if not self.sched_sem.acquire(timeout=GRANT_TIMEOUT):
                # the granted thread neither reached its next synchronisation point nor ended: it blocks on
                # something the shims do not control.  That is a hole in the binding, not a verdict - but never a hang.
                self.aborting = True
                raise MachineryError(f"thread {pick.tid} ({pick.label}) did not reach a synchronisation point within "
                                     f"{GRANT_TIMEOUT:.0f} s: it blocks on a primitive the shims do not replace")

    def _abort(self):
        self.aborting = True
        for st in list(self.threads.values()):
            st.sem.release()
        for st in list(self.threads.values()):
            st.thread.join(10)
        self.threads.clear()

    # ---- shim factories ---------------------------------------------------------------------------
    def threading_ns(self):
        env = self
        return types.SimpleNamespace(
            Lock=lambda: _GLock(env), Condition=lambda lock=None: _GCondition(env),
            local=_rt.local, RLock=lambda: _GLock(env), get_ident=_rt.get_ident,
            current_thread=_rt.current_thread,
        )

    def concurrent_ns(self):
        env = self
        futures = types.SimpleNamespace(
            ThreadPoolExecutor=lambda max_workers=None, **kw: _GExecutor(env, max_workers),
            as_completed=lambda fs, timeout=None: _g_as_completed(env, fs),
            Future=_GFuture, CancelledError=_rcf.CancelledError, TimeoutError=_rcf.TimeoutError,
            FIRST_COMPLETED=_rcf.FIRST_COMPLETED, ALL_COMPLETED=_rcf.ALL_COMPLETED,
        )
        return types.SimpleNamespace(futures=futures)

    def lock_kind(self) -> str:
        kind = _classify_site(_lock_site_from())
        if kind == "pool":
            st = self.me()
            st.lockn += 1
            return "icb" if st.lockn % 2 == 1 else "files"
        return kind


def _classify_site(site: str) -> str:
    """Which lock of external_data is being created: by the (qualified) name of the creating function."""
    if site.startswith("_create_tensor_write_locks"):
        return "tensor"
    if site.startswith("_write_external_tensors"):
        return "ocb"      # the callback lock shared by the shard drivers
    if site.startswith("_ExternalDataWriter._write_parallel") or site.startswith("_write_parallel"):
        return "pool"     # callback_lock, files_lock (in this order)
    raise MachineryError(f"threading.Lock() created at an unknown site of external_data: {site}")


def _lock_site_from(depth: int = 1) -> str:
    f = sys._getframe(depth)
    # skip the frames of the shims themselves
    while f is not None and f.f_code.co_filename == __file__:
        f = f.f_back
    if f is None:
        return "?"
    # qualified name, e.g. "_ExternalDataWriter._write_parallel" or "_write_external_tensors.<locals>._wrapped"
    return getattr(f.f_code, "co_qualname", f.f_code.co_name)


class _GLock:
    def __init__(self, env: GatedEnv):
        self.env = env
        self.owner = None
        self.kind = env.lock_kind()

    def acquire(self, blocking=True, timeout=-1):
        env = self.env
        if env.aborting:
            return True
        env.park(lambda: self.owner is None, label=f"acquire {self.kind} lock")
        self.owner = env.tid()
        env.emit(_ACQ[self.kind])
        return True

    def release(self):
        env = self.env
        if env.aborting:
            self.owner = None
            return
        env.park(None, label=f"release {self.kind} lock")
        env.emit(_REL[self.kind])
        self.owner = None

    def locked(self):
        return self.owner is not None

    def __enter__(self):
        return self.acquire()

    def __exit__(self, *a):
        self.release()
        return False


class _GCondition:
    """threading.Condition: wait() releases the logical lock and blocks until notified."""

    def __init__(self, env: GatedEnv):
        self.env = env
        self.owner = None
        self.waiters: list = []   # parked, not notified, FIFO like threading.Condition

    def acquire(self, *a):
        env = self.env
        if env.aborting:
            return True
        env.park(lambda: self.owner is None, label="enter budget monitor")
        st = env.me()
        self.owner = st.tid
        st.ctx = {"waited": False, "blocked": False}
        return True

    def release(self):
        env = self.env
        if env.aborting:
            self.owner = None
            return
        st = env.me()
        ctx = st.ctx or {"waited": False, "blocked": False}
        # which budget operation this critical section belongs to is known from the traced budget
        # (acquire/release are entered through _TracedBudget); the waiting idiom (wait_for, bare wait, none)
        # only decides between a first-attempt admission and an admission after a wake-up
        acquiring = getattr(env.tls, "in_acquire", None)
        if acquiring is None:
            acquiring = ctx["waited"]
        op = ("WakeOk" if ctx["blocked"] else "AcqOk") if acquiring else "Release"
        env.emit(op)
        st.ctx = None
        self.owner = None

    def __enter__(self):
        return self.acquire()

    def __exit__(self, *a):
        self.release()
        return False

    def _wait_once(self):
        env = self.env
        st = env.me()
        ctx = st.ctx
        env.emit("WakeBlock" if ctx["blocked"] else "AcqBlock")
        ctx["blocked"] = True
        st.notified = False
        self.waiters.append(st)
        self.owner = None
        env.park(lambda: st.notified and self.owner is None, label="wait on budget condition")
        self.owner = st.tid

    def wait(self, timeout=None):
        if self.env.aborting:
            raise SchedAbort()
        self.env.me().ctx["waited"] = True
        self._wait_once()
        return True

    def wait_for(self, predicate, timeout=None):
        if self.env.aborting:
            raise SchedAbort()
        self.env.me().ctx["waited"] = True
        r = predicate()
        while not r:
            self._wait_once()
            r = predicate()
        return r

    def notify(self, n=1):
        for st in self.waiters[:n]:
            st.notified = True
        del self.waiters[:n]

    def notify_all(self):
        self.notify(len(self.waiters))


class _GFuture:
    def __init__(self, ex, fn, args, kwargs, gidx):
        self.ex, self.fn, self.args, self.kwargs, self.gidx = ex, fn, args, kwargs, gidx
        self.status = "queued"
        self.value = None
        self.seq = None

    def done(self):
        return self.status in ("ok", "failed", "cancelled")

    def cancelled(self):
        return self.status == "cancelled"

    def cancel(self):
        if self.status == "queued":
            self.status = "cancelled"
            if self in self.ex.queue:
                self.ex.queue.remove(self)
            return True
        return self.status == "cancelled"

    def result(self, timeout=None):
        env = self.ex.env
        if not self.done():
            env.park(self.done, label="future.result", eager=True)
        if self.status == "cancelled":
            raise _rcf.CancelledError()
        if self.status == "failed":
            raise self.value
        return self.value

    def exception(self, timeout=None):
        self.ex.env.park(self.done, label="future.exception", eager=True) if not self.done() else None
        return self.value if self.status == "failed" else None


def _g_as_completed(env: GatedEnv, fs):
    fs = list(fs)
    yielded: set = set()
    while len(yielded) < len(fs):
        def ready():
            return any(f.status == "failed" and id(f) not in yielded for f in fs) or all(f.done() for f in fs)

        if not ready():
            env.park(ready, label="as_completed", eager=True)
        batch = sorted((f for f in fs if f.done() and id(f) not in yielded), key=lambda f: f.seq or 0)
        for f in batch:
            yielded.add(id(f))
            yield f


class _GExecutor:
    def __init__(self, env: GatedEnv, max_workers):
        self.env = env
        self.owner = env.tid()
        self.max_workers = max_workers or 4
        self.driver_pool = env.sharded and self.owner == 0
        self.queue: list = []
        self.futures: list = []
        self.workers: list = []
        self.stopped = False
        self.shut = False
        self.base = 0
        self.seq = 0

    def submit(self, fn, *args, **kwargs):
        env = self.env
        if self.shut:
            raise RuntimeError("cannot schedule new futures after shutdown")
        if self.driver_pool:
            if not args or not hasattr(args[0], "__len__"):
                raise MachineryError("shard job is not submitted as fn(tensors, ...) any more")
            f = _GFuture(self, fn, args, kwargs, len(self.futures) + 1)
            f.base = self.base
            self.base += len(args[0])
        else:
            if not args or not isinstance(args[0], int):
                raise MachineryError("pool task is not submitted as fn(index) any more")
            f = _GFuture(self, fn, args, kwargs, env.me().job_base + args[0] + 1)
        self.futures.append(f)
        self.queue.append(f)
        if len(self.workers) < self.max_workers:
            k = len(self.workers) + 1
            tid = k if self.driver_pool else 10 * self.owner + k
            if tid in env.threads:
                # a pool of the same owner that was never shut down (that is what ErrJoin is about) still has a
                # thread of this name: the new thread gets a name the specification does not know (a divergence
                # at most - the formulas are evaluated on the observed states all the same)
                env.extra_tids += 1
                tid = 1000 + env.extra_tids
            st = env.spawn(tid, self._worker, ready=lambda: bool(self.queue), idle=True)
            self.workers.append(st)
        return f

    def _worker(self, st: _SThread):
        env = self.env
        take, fin = ("DTake", "DFinish") if self.driver_pool else ("Take", "Finish")
        while True:
            if not self.queue:
                return
            f = self.queue.pop(0)
            f.status = "running"
            env.mon.busy.add(st.tid)
            if self.driver_pool:
                st.job_base = f.base
            env.emit(take, f.gidx)
            try:
                val, ok = f.fn(*f.args, **f.kwargs), True
            except (SchedAbort, MachineryError):
                raise
            except BaseException as e:  # noqa: BLE001 - what ThreadPoolExecutor does
                val, ok = e, False
            env.park(None, label="complete future")
            f.value, f.status = val, ("ok" if ok else "failed")
            self.seq += 1
            f.seq = self.seq
            env.mon.busy.discard(st.tid)
            env.emit(fin, f.gidx)
            env.park(lambda: bool(self.queue), label="idle pool thread", idle=True)

    def shutdown(self, wait=True, *, cancel_futures=False):
        env = self.env
        if env.aborting:
            return
        if self.stopped:
            return
        if cancel_futures:
            env.park(None, label="shutdown(cancel_futures=True)")
            cancelled = [f.gidx for f in self.queue]
            for f in self.queue:
                f.status = "cancelled"
            self.queue.clear()
            self.shut = True
            env.emit("FirstFailure", 0, cancelled=cancelled)
        self.shut = True
        if wait:
            env.park(lambda: not self.queue and all(st.idle or st.tid not in env.threads for st in self.workers),
                     label="shutdown(wait=True)")
            env.emit("JoinAll" if self.driver_pool else "JoinInner")
            for st in self.workers:
                if st.tid in env.threads:
                    env.kill(st)
            self.stopped = True

    def __enter__(self):
        return self

    def __exit__(self, *a):
        self.shutdown(wait=True)
        return False


# =====================================================================================================
#                                        the real-thread world
# =====================================================================================================
class RealEnv:
    """Real threading; wrappers only log.  The OS chooses the schedule."""

    gated = False

    def __init__(self, ntensors: int, sharded: bool):
        self.mon = _Monitors(ntensors)
        self.sharded = sharded
        self.log = _rt.Lock()
        self.events: list = []
        self.tls = _rt.local()
        self.tls.tid = 0
        self.tls.job_base = 0
        self.tls.lockn = 0
        self.counters = (0, False)
        self.deadlock = None
        self.aborting = False
        self.error = None
        self.conditions: list = []
        self.executors: list = []
        self.tid_pool: dict = {}
        self.extra_tids = 0

    def drain(self, timeout: float) -> bool:
        """Wait for pool threads still running after the public call came back (harness thread)."""
        done = _rt.Event()

        def waiter():
            for ex in list(self.executors):
                _rcf.ThreadPoolExecutor.shutdown(ex, wait=True)
            done.set()

        _rt.Thread(target=waiter, daemon=True, name="vf-c09-drain").start()
        return done.wait(timeout)

    def abort(self):
        """After a deadlock verdict: let the threads stuck on the budget condition unwind."""
        self.aborting = True
        for c in self.conditions:
            with c.real:
                c.real.notify_all()

    def tid(self) -> int:
        t = getattr(self.tls, "tid", None)
        if t is None:
            raise MachineryError("event from a thread without an id")
        return t

    def park(self, *a, **k):
        return None

    # the reservation monitor changes atomically with the budget event (see _RCondition.__exit__)
    def want(self, n: int):
        self.tls.want = n
        self.tls.in_acquire = True

    def acquired(self):
        self.tls.in_acquire = None

    def releasing(self):
        self.tls.in_acquire = False

    def released(self):
        self.tls.in_acquire = None

    def _hold(self):
        self.mon.held.append([self.tid(), getattr(self.tls, "want", 0)])

    def _drop(self):
        t = self.tid()
        for ent in self.mon.held:
            if ent[0] == t:
                self.mon.held.remove(ent)
                break

    def _snapshot(self) -> dict:
        m = self.mon
        return {
            "inflight": int(self.counters[0]), "over": bool(self.counters[1]), "wait": [],
            "incb": sorted(m.incb), "eval": sorted(list(x) for x in m.eval),
            "held": sorted(list(x) for x in m.held), "cb": list(m.cb),
            "busy": sorted(m.busy), "caller": m.caller,
        }

    def emit(self, op: str, i: int = 0, counters=None, mutate=None, **extra):
        """Append one event under the log mutex; `mutate` updates the monitors atomically with it."""
        with self.log:
            if mutate is not None:
                mutate()
            if counters is not None:
                self.counters = counters
            ev = {"t": self.tid(), "op": op, "i": int(i), "cmp": 2 if counters is not None else 0,
                  "post": self._snapshot()}
            ev.update(extra)
            self.events.append(ev)

    def lock_kind(self) -> str:
        kind = _classify_site(_lock_site_from())
        if kind == "pool":
            self.tls.lockn = getattr(self.tls, "lockn", 0) + 1
            return "icb" if self.tls.lockn % 2 == 1 else "files"
        return kind

    def threading_ns(self):
        env = self
        return types.SimpleNamespace(
            Lock=lambda: _RLock(env), Condition=lambda lock=None: _RCondition(env),
            local=_rt.local, get_ident=_rt.get_ident, current_thread=_rt.current_thread,
        )

    def concurrent_ns(self):
        env = self

        def mk(max_workers=None, **kw):
            return _RExecutor(env, max_workers)

        futures = types.SimpleNamespace(
            ThreadPoolExecutor=mk, as_completed=_rcf.as_completed, Future=_rcf.Future,
            CancelledError=_rcf.CancelledError, TimeoutError=_rcf.TimeoutError,
        )
        return types.SimpleNamespace(futures=futures)


class _RLock:
    def __init__(self, env: RealEnv):
        self.env = env
        self.kind = env.lock_kind()
        self.real = _rt.Lock()

    def acquire(self, blocking=True, timeout=-1):
        r = self.real.acquire(blocking, timeout)
        if r:
            self.env.emit(_ACQ[self.kind])
        return r

    def release(self):
        self.env.emit(_REL[self.kind])
        self.real.release()

    def locked(self):
        return self.real.locked()

    def __enter__(self):
        return self.acquire()

    def __exit__(self, *a):
        self.release()
        return False


class _RCondition:
    def __init__(self, env: RealEnv):
        self.env = env
        self.real = _rt.Condition()
        env.conditions.append(self)
        self.budget = None   # set by the traced budget
        self.ctx = _rt.local()

    def _counters(self):
        b = self.budget
        if b is None:
            return (0, False)
        try:
            return (int(b._in_flight), bool(b._oversized_active))
        except AttributeError as e:
            raise MachineryError(f"_ByteBudget internals moved: {e}") from None

    def __enter__(self):
        self.real.acquire()
        self.ctx.waited = False
        self.ctx.blocked = False
        return True

    acquire = __enter__

    def __exit__(self, *a):
        acquiring = getattr(self.env.tls, "in_acquire", None)
        if acquiring is None:
            acquiring = self.ctx.waited
        op = ("WakeOk" if self.ctx.blocked else "AcqOk") if acquiring else "Release"
        if a and a[0] is not None:
            self.real.release()       # an exception (time-out) leaves the block: nothing was reserved
            return False
        self.env.emit(op, counters=self._counters(), mutate=self.env._drop if op == "Release" else self.env._hold)
        self.real.release()
        return False

    def release(self):
        self.__exit__(None, None, None)

    def wait_for(self, predicate, timeout=None):
        self.ctx.waited = True

        def pred():
            if self.env.aborting:
                raise RealWaitTimeout("aborted after a deadlock verdict")
            r = predicate()
            if not r:
                self.env.emit("WakeBlock" if self.ctx.blocked else "AcqBlock", counters=self._counters())
                self.ctx.blocked = True
            return r

        if not self.real.wait_for(pred, timeout if timeout is not None else REAL_WAIT_TIMEOUT):
            raise RealWaitTimeout("budget wait_for timed out")
        return True

    def wait(self, timeout=None):
        self.ctx.waited = True
        self.env.emit("WakeBlock" if self.ctx.blocked else "AcqBlock", counters=self._counters())
        self.ctx.blocked = True
        if not self.real.wait(timeout if timeout is not None else REAL_WAIT_TIMEOUT):
            raise RealWaitTimeout("budget wait timed out")
        if self.env.aborting:
            raise RealWaitTimeout("aborted after a deadlock verdict")
        return True

    def notify(self, n=1):
        self.real.notify(n)

    def notify_all(self):
        self.real.notify_all()


class _RExecutor(_rcf.ThreadPoolExecutor):
    def __init__(self, env: RealEnv, max_workers):
        super().__init__(max_workers=max_workers)
        self.env = env
        self.owner = env.tid()
        self.driver_pool = env.sharded and self.owner == 0
        self.nthreads = 0
        self.base = 0
        self.nsub = 0
        self.owner_base = getattr(env.tls, "job_base", 0)
        self.idlock = _rt.Lock()
        self.fut: list = []
        self.stopped = False
        env.executors.append(self)

    def submit(self, fn, *args, **kwargs):
        env = self.env
        self.nsub += 1
        if self.driver_pool:
            if not args or not hasattr(args[0], "__len__"):
                raise MachineryError("shard job is not submitted as fn(tensors, ...) any more")
            gidx, base = self.nsub, self.base
            self.base += len(args[0])
        else:
            if not args or not isinstance(args[0], int):
                raise MachineryError("pool task is not submitted as fn(index) any more")
            gidx, base = self.owner_base + args[0] + 1, 0
        take, fin = ("DTake", "DFinish") if self.driver_pool else ("Take", "Finish")

        def task():
            if getattr(env.tls, "tid", None) is None or getattr(env.tls, "pool", None) is not self:
                with self.idlock:
                    self.nthreads += 1
                    k = self.nthreads
                tid = k if self.driver_pool else 10 * self.owner + k
                with env.log:
                    other = env.tid_pool.get(tid)
                    if other is not None and other is not self and not other.stopped:
                        env.extra_tids += 1       # a pool of the same owner that was never joined still runs (see _GExecutor)
                        tid = 1000 + env.extra_tids
                    env.tid_pool[tid] = self
                env.tls.tid = tid
                env.tls.pool = self
                env.tls.lockn = 0
            env.tls.job_base = base
            t = env.tls.tid
            env.emit(take, gidx, mutate=lambda: env.mon.busy.add(t))
            try:
                return fn(*args, **kwargs)
            except MachineryError as e:
                env.error = e
                raise
            finally:
                env.emit(fin, gidx, mutate=lambda: env.mon.busy.discard(t))

        f = super().submit(task)
        f.gidx = gidx
        self.fut.append(f)
        return f

    def shutdown(self, wait=True, *, cancel_futures=False):
        if self.stopped:
            return super().shutdown(wait=wait, cancel_futures=cancel_futures)
        if cancel_futures:
            super().shutdown(wait=False, cancel_futures=True)
            self.env.emit("FirstFailure", 0, cancelled=[f.gidx for f in self.fut if f.cancelled()])
        if wait:
            super().shutdown(wait=True)
            self.env.emit("JoinAll" if self.driver_pool else "JoinInner")
            self.stopped = True
        else:
            super().shutdown(wait=False)

    def __exit__(self, *a):
        self.shutdown(wait=True)
        return False


# =====================================================================================================
#                          installation into onnx_ir.external_data (both worlds)
# =====================================================================================================
_INSTALL_LOCK = _rt.Lock()
REQUIRED_GLOBALS = ("threading", "concurrent", "_ByteBudget")


def check_binding(ed) -> None:
    """The names the shims replace must exist and be used the way the shims assume."""
    for name in REQUIRED_GLOBALS:
        if not hasattr(ed, name):
            raise MachineryError(f"onnx_ir.external_data.{name} does not exist: binding cannot be installed")
    if getattr(ed.threading, "__name__", "") != "threading" or getattr(ed.concurrent, "__name__", "") != "concurrent":
        raise MachineryError("onnx_ir.external_data no longer imports threading / concurrent.futures as modules")
    b = ed._ByteBudget
    for meth in ("acquire", "release"):
        if not callable(getattr(b, meth, None)):
            raise MachineryError(f"_ByteBudget.{meth} is missing")
    probe = b(3)
    for attr in ("_in_flight", "_oversized_active", "_condition", "_capacity"):
        if not hasattr(probe, attr):
            raise MachineryError(f"_ByteBudget.{attr} is missing: the real counters cannot be observed")
    for fn in ("convert_tensors_to_external", "unload_from_model", "_write_external_tensors", "_write_external_data",
               "_create_tensor_write_locks", "_ExternalDataWriter"):
        if not hasattr(ed, fn):
            raise MachineryError(f"onnx_ir.external_data.{fn} is missing")
    if not hasattr(ed._ExternalDataWriter, "_write_parallel") or not hasattr(ed._ExternalDataWriter, "_write_serial"):
        raise MachineryError("_ExternalDataWriter._write_parallel/_write_serial are missing")


class installed:
    """Context manager: external_data sees the shims of `env` while the body runs."""

    def __init__(self, env):
        self.env = env

    def __enter__(self):
        import onnx_ir.external_data as ed

        _INSTALL_LOCK.acquire()
        self.ed = ed
        self.saved = {n: getattr(ed, n) for n in REQUIRED_GLOBALS}
        env = self.env
        orig = self.saved["_ByteBudget"]

        class _TracedBudget(orig):  # the real acquire/release run; only registration is added
            def __init__(self, capacity):
                super().__init__(capacity)
                env.mon.budgets.append(self)
                cond = getattr(self, "_condition", None)
                if isinstance(cond, _RCondition):
                    cond.budget = self

            def acquire(self, nbytes):
                env.want(int(max(nbytes, 0)))
                try:
                    tok = super().acquire(nbytes)
                except BaseException:
                    env.tls.in_acquire = None
                    raise
                env.acquired()
                return tok

            def release(self, reservation):
                env.releasing()
                try:
                    super().release(reservation)
                finally:
                    env.tls.in_acquire = None
                env.released()

        ed.threading = env.threading_ns()
        ed.concurrent = env.concurrent_ns()
        ed._ByteBudget = _TracedBudget
        return env

    def __exit__(self, *a):
        for n, v in self.saved.items():
            setattr(self.ed, n, v)
        _INSTALL_LOCK.release()
        return False


# =====================================================================================================
#                                           choosers
# =====================================================================================================
class RandomChooser:
    def __init__(self, rng):
        self.rng = rng

    def __call__(self, tids, env):
        return tids[self.rng.randrange(len(tids))]


class PCTChooser:
    """Probabilistic concurrency testing: random thread priorities, d-1 priority change points."""

    def __init__(self, rng, depth: int = 3, horizon: int = 80):
        self.rng = rng
        self.prio: dict = {}
        self.change = sorted(rng.randrange(1, horizon) for _ in range(max(depth - 1, 0)))
        self.step = 0
        self.low = 0

    def __call__(self, tids, env):
        self.step += 1
        for t in tids:
            if t not in self.prio:
                self.prio[t] = self.rng.random() + 1.0
        t = max(tids, key=lambda x: self.prio[x])
        while self.change and self.change[0] <= self.step:
            self.change.pop(0)
            self.low -= 1
            self.prio[t] = self.low
            t = max(tids, key=lambda x: self.prio[x])
        return t


class ScriptChooser:
    """Follow `script` (thread ids); afterwards run non-preemptively (keep the running thread, else lowest id)."""

    def __init__(self, script, strict: bool = False):
        self.script = list(script)
        self.k = 0
        self.strict = strict

    def __call__(self, tids, env):
        if self.k < len(self.script):
            t = self.script[self.k]
            self.k += 1
            if t not in tids:
                raise ReplayMismatch(f"step {self.k}: thread {t} is not runnable (runnable: {tids})")
            return t
        if self.strict:
            raise ReplayMismatch(f"script exhausted after {self.k} steps, runnable: {tids}")
        return env.last if env.last in tids else tids[0]
