"""Shared engine of the IRGraph-based checks (C01, C06): model checking of the design spec,
replay of every explored (state, call) pair into the real library, and trace validation of long
random executions of the real library against IRGraphTrace.tla."""

from __future__ import annotations

import os
import re
import time

from . import irreplay, irtrace, tlc
from .common import NCPU, SPECS, MachineryError

IR = os.path.join(SPECS, "ir")
NAMES4 = ["a", "b", "a", "<none>"]
CONSTS4 = [True, True, False, True]

FOCI = ["coll", "multi", "nodelist", "nodeio", "replace", "newgraph"]


def _cfg_variant(scratch: str, focus: str, **subst) -> str:
    src = open(os.path.join(IR, f"IRGraphMC_{focus}.cfg")).read()
    for k, v in subst.items():
        src, n = re.subn(rf"^(\s*{k}\s*=\s*).*$", rf"\g<1>{v}", src, flags=re.M)
        if n != 1:
            raise MachineryError(f"cfg {focus}: cannot set {k}")
    path = os.path.join(scratch, f"IRGraphMC_{focus}_v.cfg")
    with open(path, "w") as f:
        f.write(src)
    return path


def run_engine(ctx, want_cls: str) -> None:
    """Runs everything; records violations of class `want_cls` ("C01" or "C06") in ctx."""
    thorough = ctx.tier == "thorough"
    kinds_total = {}
    div_total = {}
    replay_cfg = dict(ng=2, names=NAMES4, consts=CONSTS4, seed=ctx.seed)
    mc_tla = os.path.join(IR, "IRGraphMC.tla")

    def absorb(findings, stats, kinds, label):
        for sig, f in findings.items():
            if f["cls"] == want_cls:
                ctx.violation(sig, dict(f, source=label))
            elif f["cls"] == "DIV":
                div_total[sig] = div_total.get(sig, 0) + f.get("count", 1)
        for k, v in kinds.items():
            kinds_total[k] = kinds_total.get(k, 0) + v
        ctx.replayed += stats.get("states", 0)
        ctx.evaluations += stats.get("calls", 0)
        if stats.get("pre_mismatch"):
            ctx.note(f"{label}: {stats['pre_mismatch']} states not reachable on the code after an earlier divergence")
        if stats.get("unparsed"):
            raise MachineryError(f"{label}: {stats['unparsed']} emitted records could not be parsed")

    # ---- (A) exhaustive exploration per focus, every (state, call) replayed --------------------
    foci = [f for f in FOCI if f in os.environ.get("VERIF_IR_FOCI", ",".join(FOCI)).split(",")]   # (development aid)
    for focus in foci:
        depth = {"replace": 3 if thorough else 2, "newgraph": 3 if thorough else 2}.get(focus, 4 if thorough and focus != "nodeio" else 3)
        cfg = _cfg_variant(ctx.scratch, focus, MaxDepth=depth)
        res = ctx.tlc(mc_tla, cfg, tag=f"mc-{focus}", timeout=3000 if thorough else 900)
        if res.violated or res.errors or res.returncode != 0:
            # the DESIGN violates its own invariants: this is a spec bug, not a verdict on the code
            raise MachineryError(f"design spec check failed for focus {focus}: {res.violated} {res.errors[:2]}\n{res.tail(25)}")
        findings, stats, kinds = irreplay.replay_file(res.out_path, replay_cfg, nproc=NCPU, seed=ctx.seed)
        absorb(findings, stats, kinds, f"mc-{focus}")
        if stats.get("states", 0) != res.distinct:
            ctx.note(f"mc-{focus}: {stats.get('states', 0)} states replayed, TLC found {res.distinct} (states beyond the bound are not emitted)")
        os.unlink(res.out_path)

    # ---- (B) long random executions of the real code validated by TLC ---------------------------
    ntr = 1500 if thorough else 200
    length = 60 if thorough else 40
    t0 = time.time()
    traces = [irtrace.record_trace(ctx.seed * 100003 + i, length) for i in range(ntr)]
    tf = os.path.join(ctx.scratch, "irgraph_traces.json")
    irtrace.write_trace_file(tf, traces)
    res = ctx.tlc(os.path.join(IR, "IRGraphTrace.tla"), os.path.join(IR, "IRGraphTrace.cfg"), tag="trace",
                  env={"TRACE_FILE": tf}, deadlock=False, timeout=3000)
    if res.errors or res.returncode != 0 or res.violated:
        raise MachineryError(f"trace validation run failed: {res.violated} {res.errors[:2]}\n{res.tail(25)}")
    rep = irtrace.parse_reports(res)
    ctx.validated += len(rep["acc"])
    ctx.evaluations += sum(len(t) for t in traces)
    ctx.extra["trace_record_s"] = round(time.time() - t0, 1)
    for tid, l, names in rep["c01"]:
        ev = traces[tid - 1][l - 1]
        if want_cls == "C01":
            ctx.violation(f"C01:{ev['c'][0]}:{ev['c'][9]}:trace:" + "+".join(names),
                          dict(cls="C01", source="trace", trace_seed=ctx.seed * 100003 + tid - 1, event=l,
                               call=ev["c"], got=ev["out"], history=[[e["c"], e["out"]] for e in traces[tid - 1][:l - 1]],
                               message=f"observed state after event {l} breaks {names} (evaluated by TLC)"))
    for tid, l in rep["c06"]:
        ev = traces[tid - 1][l - 1]
        if want_cls == "C06":
            ctx.violation(f"C06:{ev['c'][0]}:{ev['c'][9]}:trace:changed",
                          dict(cls="C06", source="trace", trace_seed=ctx.seed * 100003 + tid - 1, event=l,
                               call=ev["c"], got=ev["out"], history=[[e["c"], e["out"]] for e in traces[tid - 1][:l - 1]],
                               message=f"event {l} raised and the observed state changed (evaluated by TLC)"))
    for tid, l in rep["div"].items():
        ev = traces[tid - 1][l - 1]
        sig = f"DIV:trace:{ev['c'][0]}:{ev['c'][9]}:{ev['out']}"
        div_total[sig] = div_total.get(sig, 0) + 1
    missing = set(range(1, ntr + 1)) - rep["acc"] - set(rep["div"])
    if missing:
        raise MachineryError(f"trace validation: {len(missing)} traces neither accepted nor rejected")

    # ---- coverage accounting ------------------------------------------------------------------
    nontriv = {k for k in kinds_total if "|ok|ok" not in k}
    for k in kinds_total:
        ctx._distinct.add(k)
    ctx.extra["call_kinds_replayed"] = len(kinds_total)
    ctx.extra["call_kinds_with_rejection"] = len(nontriv)
    ctx.extra["divergences"] = div_total
    ctx.extra["traces_recorded"] = ntr
    ctx.extra["trace_events"] = sum(len(t) for t in traces)
    ctx.extra["trace_divergent"] = len(rep["div"])
    if div_total:
        ctx.note(f"{sum(div_total.values())} model/code divergences that break neither C01 nor C06 (see coverage.divergences)")
    ctx.rule = (
        "TLC enumerates every reachable state of IRGraph.tla per focus cfg and, for every candidate call of every state, "
        "the predicted outcome and successor; each (state, call) is executed on real onnx_ir objects and the full observable "
        "projection compared. evaluations = calls executed on the implementation; distinct_nontrivial = distinct "
        "(op, collection kind, model outcome/reason, code outcome) combinations exercised."
    )
    ctx.samples = [
        {"history": [[e["c"], e["out"]] for e in traces[0][:8]], "kind": "recorded trace prefix (real code), validated by IRGraphTrace.tla"},
        {"kinds": sorted(kinds_total)[:12], "kind": "replayed (op|kind|model outcome|code outcome) classes"},
    ]
    ctx.exhaustive = div_total == {}
    ctx.assumptions = [
        "small-scope: <=2 graphs, <=8 values, <=3 nodes, <=3 calls after a seed history in the exhaustive part",
        "objects are observed through public accessors only (project())",
        "exception type is not compared, only raise vs return",
    ]


def replay_detail(ctx, detail: dict, cls: str) -> bool:
    """Re-execute one recorded violation on the current tree. True if it still violates."""
    from .irdrive import Universe, call_from_compact, check_invariants

    if detail.get("source") == "trace":
        names, consts, ng = irtrace.NAMES, irtrace.CONSTS, 3
    else:
        names, consts, ng = NAMES4, CONSTS4, 2
    u = Universe.__new__(Universe)
    u.strict_consts = detail.get("source") != "trace"      # as in the replay of the model-checked states
    u.__init__(ng, names, consts)
    for cc, _ in detail.get("history", []):
        u.apply(call_from_compact(cc))
    pre, extra = u.project(), u.extra_snapshot()
    got = u.apply(call_from_compact(detail["call"]))
    post = u.project()
    print("call", detail["call"], "->", got)
    if cls == "C06":
        return got != "ok" and (post != pre or u.extra_snapshot() != extra)
    bad = check_invariants(post)
    print("broken invariants:", bad)
    return bool(bad)
