"""C03 binding: SerdeIR.tla states replayed into real onnx_ir models, serialized, deserialized.

* ``SerdeUniverse``: CloneUniverse (real objects numbered like the specification) plus the ops the
  SerdeIR module adds (doc strings, tensors of several implementation kinds, unsetting type/shape).
* ``decorate``: everything the statement lists that the abstract state does not carry (IR version,
  opset imports, doc strings, attribute kinds, model-local functions, device configurations), chosen
  deterministically from the record number.
* ``deep_snapshot``: every observable property of every object, through public accessors.
* ``abstract_graph_proto``: a real GraphProto in the shape of the specification's ``Ser``.
* ``project_graph``: an IR graph (with everything nested) in the shape of the specification's state,
  objects numbered in walk order - used for the deserialized model; TLC evaluates ``Iso`` on the pair.
* ``leaf_diff``: payload comparison of two models the specification found isomorphic.
"""

from __future__ import annotations

import hashlib
import json
import logging
import multiprocessing as mp
import os
from collections import Counter

import numpy as np
import onnx
import onnx_ir as ir

from .irclone import CloneUniverse
from .irdrive import NONAME, call_from_compact

logging.getLogger("onnx_ir").setLevel(logging.CRITICAL)

NAMES5 = ["a", "b", "a", "<none>", "c"]
CONSTS5 = [False, True, True, True, False]
NOSHAPE = [-9]
KINDS = ("np", "lazy", "packed", "proto", "string", "npT")


def _sn(name):
    return NONAME if name is None else name


def make_tensor(kind: str):
    t = _make_tensor(kind)
    if kind != "proto":          # (the proto-backed tensor carries its own, in the proto)
        t.metadata_props["vf.kind"] = kind      # tensor metadata must survive whatever the storage path is
    return t


def _make_tensor(kind: str):
    if kind == "np":
        return ir.Tensor(np.array([1.5], dtype=np.float32))
    if kind == "lazy":
        # the wrapped tensor is proto-backed and has a name, a doc string and metadata OF ITS OWN (a weight borrowed
        # from another loaded model): what is written is the wrapper - its name follows the value's
        def inner():
            tp = onnx.numpy_helper.from_array(np.array([[1, 2, 3]], dtype=np.int64), name="inner_name")
            tp.doc_string = "inner doc"
            e = tp.metadata_props.add()
            e.key, e.value = "inner.key", "inner value"
            return ir.serde.TensorProtoTensor(tp)

        return ir.LazyTensor(inner, dtype=ir.DataType.INT64, shape=ir.Shape([1, 3]))
    if kind == "packed":
        return ir.PackedTensor(np.array([0x21, 0x03], dtype=np.uint8), ir.DataType.INT4, shape=[3])
    if kind == "proto":
        tp = onnx.helper.make_tensor("tp", onnx.TensorProto.INT32, [2], [7, 8])
        tp.doc_string = "proto tensor doc"
        return ir.serde.TensorProtoTensor(tp)
    if kind == "string":
        return ir.StringTensor([b"x", b"yz"], shape=ir.Shape([2]))
    if kind == "npT":
        return ir.Tensor(np.arange(6, dtype=np.int16).reshape(3, 2).T)   # 2 x 3, Fortran-contiguous
    raise AssertionError(kind)


def _dim_to_spec(d):
    if isinstance(d, int):
        return d
    return -1 if getattr(d, "value", None) is not None else -3


def _shape_to_spec(shape):
    return NOSHAPE if shape is None else [_dim_to_spec(d) for d in shape.dims]


def _dtype_name(v):
    if v.type is None:
        return ""
    try:
        return v.type.dtype.name
    except Exception:  # noqa: BLE001
        return "?"


class SerdeUniverse(CloneUniverse):
    def __init__(self):
        super().__init__(3, NAMES5, CONSTS5)

    def _dispatch(self, c: dict) -> None:
        op = c["op"]
        if op == "SetDoc":
            self.V(c["v"]).doc_string = c["name"]
        elif op == "SetTensor":
            self.V(c["v"]).const_value = make_tensor(c["name"])
        elif op == "SetType" and c["name"] == "":
            self.V(c["v"]).type = None
        elif op == "SetShape":
            dims = list(c["vs"])
            if dims == NOSHAPE:
                self.V(c["v"]).shape = None
            else:
                self.V(c["v"]).shape = ir.Shape([("N" if d == -1 else None if d == -3 else d) for d in dims])
        else:
            super()._dispatch(c)

    def project_s(self) -> dict:
        """Same shape as SerdeIRMC!Shown."""
        o = self.project_c()
        vals = self.values
        return {
            "s": {k: o[k] for k in ("nIn", "nOut", "nGraph", "gNodes", "gIn", "gOut", "vName", "vConst", "vIsOut", "vProd")}
                 | {"gInit": [[[k, v] for k, v in zip(ks, vs)] for ks, vs in zip(o["gInitK"], o["gInitV"])]},
            "sub": o["sub"], "ty": [_dtype_name(v) for v in vals], "sh": [_shape_to_spec(v.shape) for v in vals],
            "md": o["md"], "mt": o["mt"], "nmd": o["nmd"], "nat": o["nat"], "gmd": o["gmd"],
            "vdoc": [v.doc_string or "" for v in vals],
            "tn": [(NONAME if v.const_value is None else _sn(v.const_value.name)) for v in vals],
            "cty": [("" if v.const_value is None else v.const_value.dtype.name) for v in vals],
            "csh": [(NOSHAPE if v.const_value is None else [_dim_to_spec(d) for d in v.const_value.shape.dims]) for v in vals],
        }


def shown_of_spec(st: dict) -> dict:
    """Normalise the JSON of SerdeIRMC!Shown (sets arrive as arrays in TLC's order)."""
    out = dict(st)
    out["s"] = dict(st["s"])
    out["s"]["gInit"] = [[list(p) for p in g] for g in st["s"]["gInit"]]
    for k in ("md", "mt", "nmd", "nat", "gmd"):
        out[k] = [sorted(x) for x in st[k]]
    return out


def build(history) -> SerdeUniverse:
    u = SerdeUniverse()
    for cc, _ in history:
        u.apply(call_from_compact(cc))
    return u


# =====================================================================================================
# decoration: what the statement lists beyond the abstract state
# =====================================================================================================
def _attr_of_kind(name: str, kind: int):
    k = kind % 11
    if k == 0:
        return ir.AttrInt64(name, 7)
    if k == 1:
        return ir.AttrFloat32(name, 0.5, doc_string="attr doc")
    if k == 2:
        return ir.AttrString(name, "héllo")
    if k == 3:
        return ir.AttrInt64s(name, [1, -2, 3])
    if k == 4:
        return ir.AttrFloat32s(name, [0.25, -1.0])
    if k == 5:
        return ir.AttrStrings(name, ["x", ""])
    if k == 6:
        return ir.AttrTensor(name, ir.Tensor(np.arange(6, dtype=np.int16).reshape(2, 3), name="const_t", doc_string="td"))
    if k == 7:
        return ir.AttrTensors(name, [make_tensor("packed"), make_tensor("string"), make_tensor("lazy"), make_tensor("npT")])
    if k == 8:
        return ir.AttrTypeProto(name, ir.TypeAndShape(ir.SequenceType(ir.TensorType(ir.DataType.BFLOAT16)), ir.Shape(["B", 2, None])))
    if k == 9:
        return ir.AttrTypeProtos(name, [ir.TypeAndShape(ir.TensorType(ir.DataType.INT8), None),
                                        ir.TypeAndShape(ir.OptionalType(ir.TensorType(ir.DataType.FLOAT)), ir.Shape([]))])
    return ir.AttrInt64s(name, [])


def _make_function(variant: int, ir_version: int):
    x, y = ir.Value(name="x"), ir.Value(name="y")
    x.type = ir.TensorType(ir.DataType.FLOAT)
    x.shape = ir.Shape(["N", 4])
    n1 = ir.Node("", "Add", [x, y], num_outputs=1, name="fa")
    n1.outputs[0].name = "t"
    n1.outputs[0].type = ir.TensorType(ir.DataType.FLOAT)
    n1.outputs[0].shape = ir.Shape([None, 4])
    n1.outputs[0].metadata_props["fk"] = "fv"
    n2 = ir.Node("custom", "Scale", [n1.outputs[0], None], [ir.RefAttr("scale", "a", ir.AttributeType.FLOAT)],
                 num_outputs=2, name="fb", doc_string="node in function")
    n2.outputs[0].name = "out"
    n2.outputs[1].name = ""
    nodes = [n1, n2]
    if variant % 2 == 1:
        # a nested graph capturing a function input and an inner node output; listed out of order
        inner = ir.Node("", "Mul", [x, n1.outputs[0]], num_outputs=1, name="fin")
        inner.outputs[0].name = "iv"
        body = ir.Graph([], [inner.outputs[0]], nodes=[inner], name="fbody")
        n3 = ir.Node("", "If", [y], [ir.AttrGraph("then_branch", body)], num_outputs=1, name="fc")
        n3.outputs[0].name = "w"
        nodes = [n3, n1, n2]
    g = ir.Graph([x, y], [n2.outputs[0]], nodes=nodes, opset_imports={"": 18, "custom": 1}, name="fg",
                 doc_string="function doc", metadata_props={"fm": "1"})
    attrs = [ir.AttrFloat32("a", 2.0), ir.Attr("b", ir.AttributeType.UNDEFINED, None)]
    overload = "ov" if (variant >= 2 and ir_version >= 10) else ""
    return ir.Function("fdom", f"F{variant}", overload, graph=g, attributes=attrs)


def _annotate(n, cfg, *, spec: bool, stage, which: int = 0):
    """shard (when asked and a named value of known rank >= 1 exists) and/or set the pipeline stage of n under cfg."""
    cand = [v for v in list(n.outputs) + [x for x in n.inputs if x is not None] if v.name]
    shaped = [v for v in cand if v.shape is not None and len(v.shape) >= 1]
    try:
        if spec and shaped:
            v = shaped[which % len(shaped)]
            n.shard(v, configuration=cfg, axis=0, num_shards=2, device_indices=(0, 1) if cfg.num_devices >= 2 else (0,), pipeline_stage=stage)
        elif spec and cand:
            n.shard(cand[which % len(cand)], configuration=cfg, axis=0, num_shards=2, pipeline_stage=stage)
        elif stage is not None:
            n.set_pipeline_stage(cfg, stage)
    except Exception:  # noqa: BLE001 - an annotation the library refuses is simply not made
        if stage is not None:
            try:
                n.set_pipeline_stage(cfg, stage)
            except Exception:  # noqa: BLE001
                pass


def _decorate_devices(model: ir.Model, dv: int) -> None:
    """Node device configurations: nodes with 0, 1, 2 and 3 entries, declared and dangling ones (configuration
    removed from the model without cascade) mixed in both orders, with and without sharding specs and stages;
    in the main graph, in a subgraph and in a model-local function.  Serialized from IR version 11 on."""
    if dv == 0:
        return
    top = list(model.graph)
    inner, seen, todo = [], {id(model.graph)}, [model.graph]     # own walk: an edit may have nested a graph in itself
    while todo:
        for n in todo.pop(0):
            for sg in _subgraphs(n):
                if id(sg) not in seen:
                    seen.add(id(sg))
                    todo.append(sg)
                    inner.extend(sg)
    fnodes = [f[0] for f in model.functions.values() if len(f)]
    n0 = top[0] if top else None
    n1 = top[1] if len(top) > 1 else None
    ns = inner[0] if inner else None
    nf = fnodes[0] if fnodes else None
    mesh = model.add_device_configuration("mesh", num_devices=2, device_names=("d0", "d1"))
    pp = model.add_device_configuration("pp", num_devices=3) if dv in (2, 3, 4, 6, 7) else None
    zz = model.add_device_configuration("zz", num_devices=1) if dv == 6 else None
    if dv == 1:       # one declared entry: spec + stage; stage only
        if n0: _annotate(n0, mesh, spec=True, stage=1)
        if n1: _annotate(n1, mesh, spec=False, stage=0)
        if ns: _annotate(ns, mesh, spec=True, stage=None)
    elif dv == 2:     # two declared entries on one node
        if n0: _annotate(n0, mesh, spec=True, stage=None); _annotate(n0, pp, spec=False, stage=2)
        if n1: _annotate(n1, pp, spec=True, stage=0)
        if nf: _annotate(nf, mesh, spec=True, stage=None); _annotate(nf, pp, spec=False, stage=1)
    elif dv == 3:     # [declared(spec, stage), dangling(stage)], a node with only a dangling entry
        if n0: _annotate(n0, mesh, spec=True, stage=1); _annotate(n0, pp, spec=False, stage=2)
        if n1: _annotate(n1, pp, spec=False, stage=0)
        if ns: _annotate(ns, mesh, spec=False, stage=0); _annotate(ns, pp, spec=True, stage=1)
        if nf: _annotate(nf, mesh, spec=True, stage=None); _annotate(nf, pp, spec=False, stage=1)
        model.remove_device_configuration("pp")
    elif dv == 4:     # [dangling(spec, no stage), declared(stage)]
        if n0: _annotate(n0, pp, spec=True, stage=None); _annotate(n0, mesh, spec=False, stage=0)
        if ns: _annotate(ns, pp, spec=True, stage=2); _annotate(ns, mesh, spec=True, stage=None, which=1)
        model.remove_device_configuration(pp)
    elif dv == 5:     # only dangling entries, the model declares nothing any more
        if n0: _annotate(n0, mesh, spec=True, stage=1)
        if n1: _annotate(n1, mesh, spec=False, stage=3)
        model.remove_device_configuration("mesh")
    elif dv == 6:     # three entries: [dangling(stage), dangling(spec, stage), declared(stage)]
        if n0: _annotate(n0, mesh, spec=False, stage=0); _annotate(n0, pp, spec=True, stage=1); _annotate(n0, zz, spec=False, stage=2)
        if n1: _annotate(n1, zz, spec=True, stage=None); _annotate(n1, mesh, spec=True, stage=1, which=1)
        model.remove_device_configuration("pp")
        model.remove_device_configuration(mesh)
    elif dv == 7:     # two specs (two values) under one declared entry next to a dangling one
        if n0: _annotate(n0, mesh, spec=True, stage=None, which=0); _annotate(n0, mesh, spec=True, stage=1, which=1); _annotate(n0, pp, spec=True, stage=0)
        if ns: _annotate(ns, pp, spec=False, stage=1); _annotate(ns, mesh, spec=False, stage=1)
        if nf: _annotate(nf, pp, spec=True, stage=None); _annotate(nf, mesh, spec=False, stage=2)
        model.remove_device_configuration("pp")


def decorate(u: SerdeUniverse, k: int) -> ir.Model:
    """Wrap graph 1 in a model and attach leaf payloads; k selects the variant. Never changes what the
    abstract state observes (structure, value names/types/shapes/metadata keys, attribute names)."""
    ir_version = 8 + k % 6
    g = u.graphs[0]
    g.opset_imports.clear()
    g.opset_imports[""] = 17 + k % 5
    if k % 3 == 0:
        g.opset_imports["custom"] = 2
    model = ir.Model(g, ir_version=ir_version, producer_name="vf" if k % 2 else None, producer_version="1.2" if k % 4 == 1 else None,
                     domain="vf.dom" if k % 3 == 1 else None, model_version=(k % 7) or None,
                     doc_string="model doc" if k % 2 == 0 else None,
                     functions=[_make_function(i + k, ir_version) for i in range(k % 3)],
                     metadata_props={"mk": "mv", "a": ""} if k % 2 else {})
    for gi, gr in enumerate(u.graphs):
        gr.doc_string = f"graph {gi} doc" if (k + gi) % 2 else None
    for ni, n in enumerate(u.nodes):
        if (ni + k) % 3 == 0:
            n.doc_string = f"node {ni} doc"
        j = 0
        for name, a in list(n.attributes.items()):
            if a.type not in (ir.AttributeType.GRAPH, ir.AttributeType.GRAPHS):
                n.attributes[name] = _attr_of_kind(name, k + ni + j)
                j += 1
    # nested type kinds on typed values (dtype, which the abstract state sees, is kept)
    for vi, v in enumerate(u.values):
        if v.type is not None and (vi + k) % 4 == 0:
            dt = v.type.dtype
            v.type = ir.OptionalType(ir.SequenceType(ir.TensorType(dt))) if (vi + k) % 8 == 0 else ir.SequenceType(ir.TensorType(dt), denotation="SEQ")
    # denotations of tensor types and of dimensions (leaf payloads: equality of types / shapes ignores them)
    for vi, v in enumerate(u.values):
        if isinstance(v.type, ir.TensorType) and (vi + k) % 3 == 1:
            v.type = ir.TensorType(v.type.dtype, denotation="TENSOR")
        if v.shape is not None and len(v.shape) > 0 and (vi + k) % 3 != 0:
            try:
                v.shape.set_denotation(len(v.shape) - 1, "DATA_FEATURE")
            except Exception:  # noqa: BLE001 - a frozen shape: leave it
                pass
    _decorate_devices(model, (k // 6) % 8)
    return model


# =====================================================================================================
# deep snapshot through public accessors
# =====================================================================================================
def _tensor_snap(t, with_bytes=True):
    if t is None:
        return None
    d = {"id": id(t), "cls": type(t).__name__, "name": t.name, "dtype": t.dtype.name, "shape": list(map(str, t.shape.dims)),
         "doc": t.doc_string, "md": dict(t.metadata_props)}
    if with_bytes and not isinstance(t, ir.LazyTensor):
        try:
            d["bytes"] = t.tobytes().hex() if t.dtype != ir.DataType.STRING else repr(list(t.numpy().ravel()))
        except Exception as e:  # noqa: BLE001
            d["bytes"] = "raise:" + type(e).__name__
    return d


def _type_snap(t):
    if t is None:
        return None
    out = [type(t).__name__, t.denotation]
    if isinstance(t, (ir.SequenceType, ir.OptionalType)):
        out.append(_type_snap(t.elem_type))
    else:
        out.append(t.dtype.name)
    return out


def _shape_snap(s):
    if s is None:
        return None
    return [[d if isinstance(d, int) else ("sym", d.value), s.get_denotation(i)] for i, d in enumerate(s.dims)]


def _attr_snap(a):
    d = {"id": id(a), "name": a.name, "type": a.type.name, "doc": a.doc_string, "ref": a.ref_attr_name if a.is_ref() else None}
    val = None if a.is_ref() else a.value
    if a.type == ir.AttributeType.TENSOR and val is not None:
        d["value"] = _tensor_snap(val)
    elif a.type == ir.AttributeType.TENSORS and val is not None:
        d["value"] = [_tensor_snap(t) for t in val]
    elif a.type in (ir.AttributeType.GRAPH, ir.AttributeType.GRAPHS):
        d["value"] = [id(x) for x in ([val] if a.type == ir.AttributeType.GRAPH else val)]
    elif a.type == ir.AttributeType.TYPE_PROTO and val is not None:
        d["value"] = [_type_snap(val.type), _shape_snap(val.shape)]
    elif a.type == ir.AttributeType.TYPE_PROTOS and val is not None:
        d["value"] = [[_type_snap(x.type), _shape_snap(x.shape)] for x in val]
    else:
        d["value"] = repr(val)
    return d


def _devcfg_snap(n):
    out = []
    for dc in n.device_configurations:
        out.append((None if dc.configuration is None else (id(dc.configuration), dc.configuration.name), dc.pipeline_stage,
                    [(id(sp.value), None if sp.value is None else sp.value.name, tuple(sp.device),
                      tuple((d.axis, tuple((repr(s.dim), s.num_shards) for s in d.simple_shardings)) for d in sp.sharded_dims))
                     for sp in dc.sharding_specs]))
    return out


def _value_cells(out, key, v):
    out[key + ("name",)] = v.name
    out[key + ("type",)] = (id(v.type), _type_snap(v.type))
    out[key + ("shape",)] = (id(v.shape), _shape_snap(v.shape))
    out[key + ("doc",)] = v.doc_string
    out[key + ("md",)] = dict(v.metadata_props)
    out[key + ("meta",)] = {str(a): repr(b) for a, b in v.meta.items()}
    cv = v.const_value
    out[key + ("const",)] = None if cv is None else {k: x for k, x in _tensor_snap(cv).items() if k != "name"}
    out[key + ("tensor_name",)] = None if cv is None else cv.name
    out[key + ("roles",)] = (v.is_graph_input(), v.is_graph_output(), v.is_initializer(), id(v.producer()), v.index(), id(v.graph))
    out[key + ("uses",)] = sorted((id(us.node), us.idx) for us in v.uses())


def _node_cells(out, key, n):
    out[key + ("ident",)] = (n.name, n.domain, n.op_type, n.overload, n.doc_string, id(n.graph))
    out[key + ("io",)] = ([id(x) for x in n.inputs], [id(x) for x in n.outputs])
    out[key + ("md",)] = dict(n.metadata_props)
    out[key + ("attrs",)] = [_attr_snap(a) for a in n.attributes.values()]
    out[key + ("devcfg",)] = _devcfg_snap(n)


def _graph_cells(out, key, g):
    out[key + ("ident",)] = (g.name, g.doc_string, dict(g.opset_imports), dict(g.metadata_props))
    out[key + ("io",)] = ([id(x) for x in g.inputs], [id(x) for x in g.outputs], [(k, id(x)) for k, x in g.initializers.items()],
                          [id(n) for n in g])


def deep_snapshot(u: SerdeUniverse, model: ir.Model) -> dict:
    out: dict = {}
    for i, v in enumerate(u.values):
        _value_cells(out, ("v", i + 1), v)
    for i, n in enumerate(u.nodes):
        _node_cells(out, ("n", i + 1), n)
    for i, g in enumerate(u.graphs):
        _graph_cells(out, ("g", i + 1), g)
    out[("m", "fields")] = (model.ir_version, model.producer_name, model.producer_version, model.domain, model.model_version,
                            model.doc_string, dict(model.metadata_props), dict(model.opset_imports), id(model.graph))
    out[("m", "devcfg")] = [(id(c), c.name, c.num_devices, tuple(c.device_names)) for c in model.device_configurations]
    out[("m", "functions")] = [(k, id(f)) for k, f in model.functions.items()]
    for fi, f in enumerate(model.functions.values()):
        out[("f", fi, "ident")] = (f.domain, f.name, f.overload, f.doc_string, dict(f.opset_imports), dict(f.metadata_props))
        out[("f", fi, "attrs")] = [_attr_snap(a) for a in f.attributes.values()]
        out[("f", fi, "io")] = ([id(x) for x in f.inputs], [id(x) for x in f.outputs], [id(n) for n in f])
        seen = set()
        def walk(nodes, prefix):
            for ni, n in enumerate(nodes):
                _node_cells(out, prefix + ("n", ni), n)
                for oi, o in enumerate(n.outputs):
                    _value_cells(out, prefix + ("n", ni, "o", oi), o)
                for a in n.attributes.values():
                    if a.type == ir.AttributeType.GRAPH and id(a.value) not in seen:
                        seen.add(id(a.value))
                        _graph_cells(out, prefix + ("n", ni, "g", a.name), a.value)
                        walk(list(a.value), prefix + ("n", ni, "g", a.name))
        for ii, x in enumerate(f.inputs):
            _value_cells(out, ("f", fi, "in", ii), x)
        walk(list(f), ("f", fi))
    return out


def snapshot_diff(a: dict, b: dict) -> list:
    return sorted((k for k in set(a) | set(b) if a.get(k, "<absent>") != b.get(k, "<absent>")), key=str)


# =====================================================================================================
# real GraphProto -> the specification's abstract proto
# =====================================================================================================
def _tp_ty(tp: onnx.TypeProto) -> str:
    cur = tp
    while True:
        w = cur.WhichOneof("value")
        if w is None:
            return ""
        inner = getattr(cur, w)
        if w in ("tensor_type", "sparse_tensor_type"):
            return ir.DataType(inner.elem_type).name
        cur = inner.elem_type


def _tp_sh(tp: onnx.TypeProto):
    cur = tp
    while True:
        w = cur.WhichOneof("value")
        if w is None:
            return NOSHAPE
        inner = getattr(cur, w)
        if w in ("tensor_type", "sparse_tensor_type"):
            if not inner.HasField("shape"):
                return NOSHAPE
            return [(d.dim_value if d.HasField("dim_value") else -1 if d.HasField("dim_param") else -3) for d in inner.shape.dim]
        cur = inner.elem_type


def _vi(p: onnx.ValueInfoProto) -> dict:
    return {"name": p.name, "ty": _tp_ty(p.type), "sh": _tp_sh(p.type), "md": sorted(e.key for e in p.metadata_props), "doc": p.doc_string}


def abstract_graph_proto(gp: onnx.GraphProto, skip_function_vi: bool = False) -> dict:
    nodes = []
    for n in gp.node:
        subs, attrs = [], []
        for a in n.attribute:
            if a.type == onnx.AttributeProto.GRAPH:
                subs.append(abstract_graph_proto(a.g))
            elif a.type == onnx.AttributeProto.GRAPHS:
                subs.extend(abstract_graph_proto(x) for x in a.graphs)
            else:
                attrs.append(a.name)
        nodes.append({"name": n.name, "ins": list(n.input), "outs": list(n.output), "attrs": sorted(attrs),
                      "md": sorted(e.key for e in n.metadata_props), "subs": subs})
    vinfo = [_vi(x) for x in gp.value_info if not (skip_function_vi and "::" in x.name and "/" in x.name)]
    return {"inputs": [_vi(x) for x in gp.input],
            "inits": [{"name": t.name, "ty": ir.DataType(t.data_type).name, "sh": list(t.dims)} for t in gp.initializer],
            "nodes": nodes, "outputs": [_vi(x) for x in gp.output], "vinfo": vinfo,
            "md": sorted(e.key for e in gp.metadata_props)}


def norm_spec_proto(p: dict) -> dict:
    def vi(x):
        return {"name": x["name"], "ty": x["ty"], "sh": list(x["sh"]), "md": sorted(x["md"]), "doc": x["doc"]}
    return {"inputs": [vi(x) for x in p["inputs"]],
            "inits": [{"name": t["name"], "ty": t["ty"], "sh": list(t["sh"])} for t in p["inits"]],
            "nodes": [{"name": n["name"], "ins": list(n["ins"]), "outs": list(n["outs"]), "attrs": sorted(n["attrs"]),
                       "md": sorted(n["md"]), "subs": [norm_spec_proto(s) for s in n["subs"]]} for n in p["nodes"]],
            "outputs": [vi(x) for x in p["outputs"]], "vinfo": [vi(x) for x in p["vinfo"]], "md": sorted(p["md"])}


def proto_diff(a: dict, b: dict, path="") -> str:
    for k in a:
        if a[k] != b.get(k):
            if k == "nodes" and len(a[k]) == len(b[k]):
                for i, (x, y) in enumerate(zip(a[k], b[k])):
                    if x != y:
                        for f in x:
                            if x[f] != y[f]:
                                if f == "subs" and len(x[f]) == len(y[f]):
                                    for j, (s, t) in enumerate(zip(x[f], y[f])):
                                        if s != t:
                                            return proto_diff(s, t, f"{path}nodes[{i}].subs[{j}].")
                                return f"{path}nodes[{i}].{f}"
            return path + k
    return ""


# =====================================================================================================
# IR graph -> the specification's state shape (objects numbered in walk order)
# =====================================================================================================
def _subgraphs(node):
    out = []
    for a in node.attributes.values():
        if a.type == ir.AttributeType.GRAPH:
            out.append(a.value)
        elif a.type == ir.AttributeType.GRAPHS:
            out.extend(a.value)
    return out


class Projector:
    def __init__(self):
        self.values, self.nodes, self.graphs = [], [], []
        self._v, self._n, self._g = {}, {}, {}

    def vid(self, v):
        if v is None:
            return 0
        if id(v) not in self._v:
            self.values.append(v)
            self._v[id(v)] = len(self.values)
        return self._v[id(v)]

    def add_graph(self, g, depth=0) -> int:
        if id(g) in self._g:
            return self._g[id(g)]
        self.graphs.append(g)
        gid = self._g[id(g)] = len(self.graphs)
        if depth > 8:
            return gid
        for v in g.inputs:
            self.vid(v)
        for v in g.initializers.values():
            self.vid(v)
        for n in g:
            if id(n) not in self._n:
                self.nodes.append(n)
                self._n[id(n)] = len(self.nodes)
            for v in n.inputs:
                self.vid(v)
            for v in n.outputs:
                self.vid(v)
            for sg in _subgraphs(n):
                self.add_graph(sg, depth + 1)
        for v in g.outputs:
            self.vid(v)
        return gid

    def state(self) -> dict:
        vals, vid = self.values, self.vid
        gidx = self._g
        nidx = self._n
        return {
            "s": {
                "nIn": [[vid(x) for x in n.inputs] for n in self.nodes],
                "nOut": [[vid(x) for x in n.outputs] for n in self.nodes],
                "gNodes": [[nidx[id(n)] for n in g] for g in self.graphs],
                "gIn": [[vid(x) for x in g.inputs] for g in self.graphs],
                "gOut": [[vid(x) for x in g.outputs] for g in self.graphs],
                "gInit": [[[_sn(k), vid(x)] for k, x in g.initializers.items()] for g in self.graphs],
                "vName": [_sn(v.name) for v in vals],
                "vConst": [v.const_value is not None for v in vals],
                "vIsOut": [bool(v.is_graph_output()) for v in vals],
            },
            "nName": [_sn(n.name) for n in self.nodes],
            "sub": [[gidx[id(sg)] for sg in _subgraphs(n)] for n in self.nodes],
            "ty": [_dtype_name(v) for v in vals], "sh": [_shape_to_spec(v.shape) for v in vals],
            "md": [sorted(v.metadata_props) for v in vals],
            "nmd": [sorted(n.metadata_props) for n in self.nodes],
            "nat": [sorted(k for k, a in n.attributes.items() if a.type not in (ir.AttributeType.GRAPH, ir.AttributeType.GRAPHS)) for n in self.nodes],
            "gmd": [sorted(g.metadata_props) for g in self.graphs],
            "vdoc": [v.doc_string or "" for v in vals],
            "tn": [(NONAME if v.const_value is None else _sn(v.const_value.name)) for v in vals],
            "cty": [("" if v.const_value is None else v.const_value.dtype.name) for v in vals],
            "csh": [(NOSHAPE if v.const_value is None else [_dim_to_spec(d) for d in v.const_value.shape.dims]) for v in vals],
        }


def _ndc(n, vid) -> list:
    """A node's device configurations in the shape of SerdeIR!NodeDc."""
    out = []
    for dc in n.device_configurations:
        out.append({"cfg": NONAME if dc.configuration is None else dc.configuration.name,
                    "stage": -1 if dc.pipeline_stage is None else dc.pipeline_stage,
                    "specs": [{"v": vid(sp.value),
                               "axes": [[d.axis] + [sh.num_shards for sh in d.simple_shardings] for d in sp.sharded_dims],
                               "devs": list(sp.device)} for sp in dc.sharding_specs]})
    return out


def project_graph(g, with_dc=True) -> dict:
    p = Projector()
    root = p.add_graph(g)
    ndc = [(_ndc(n, p.vid) if with_dc else []) for n in list(p.nodes)]      # before state(): may number placeholder values
    st = p.state()
    st["ndc"] = ndc
    st["root"] = root
    return st


def universe_state(u: SerdeUniverse, with_dc=True) -> dict:
    """The original in the same shape (ids as in the specification), with node names and device configurations
    (with_dc False below IR version 11, where they are not serialized)."""
    st = u.project_s()
    st["ndc"] = [(_ndc(n, u.vid) if with_dc else []) for n in u.nodes]
    st["s"] = {k: v for k, v in st["s"].items() if k not in ("nGraph", "vProd")}
    st["nName"] = [_sn(n.name) for n in u.nodes]
    st.pop("mt", None)
    st["root"] = 1
    # "is a graph output" as the graphs' own output lists tell it: a flag that says yes while no graph lists the value
    # (possible only after a bookkeeping defect of the containers, the subject of C01) must not put the model outside
    # the quantifier of C03 - it was reached through the public API and is written out and read back like any other
    listed = {id(x) for g in u.graphs for x in g.outputs}
    st["s"]["vIsOut"] = [bool(f and id(v) in listed) for f, v in zip(st["s"]["vIsOut"], u.values)]
    return st


# =====================================================================================================
# payload comparison of two models found isomorphic
# =====================================================================================================
def _none(x):
    return x or ""


def _tensor_payload(t):
    if t is None:
        return None
    if t.dtype == ir.DataType.STRING:
        data = [bytes(x) for x in np.asarray(t.numpy()).ravel()]
    else:
        # the bytes the tensor reports AND the element values in logical (row-major) order, taken without tobytes():
        # a representation whose tobytes() is wrong must not vouch for itself
        data = (t.tobytes(), np.ascontiguousarray(np.asarray(t.numpy())).tobytes())
    return (t.dtype.name, [str(d) for d in t.shape.dims], data, _none(t.doc_string), dict(t.metadata_props))


def _attr_payload(a):
    if a.is_ref():
        return (a.name, a.type.name, "ref", a.ref_attr_name, _none(a.doc_string))
    v = a.value
    if a.type == ir.AttributeType.TENSOR:
        val = (_tensor_payload(v), _none(v.name))
    elif a.type == ir.AttributeType.TENSORS:
        val = [(_tensor_payload(t), _none(t.name)) for t in v]
    elif a.type in (ir.AttributeType.GRAPH, ir.AttributeType.GRAPHS):
        val = "graph"
    elif a.type == ir.AttributeType.TYPE_PROTO:
        val = (_type_snap(v.type), _shape_snap(v.shape))
    elif a.type == ir.AttributeType.TYPE_PROTOS:
        val = [(_type_snap(x.type), _shape_snap(x.shape)) for x in v]
    elif a.type in (ir.AttributeType.FLOAT,):
        val = float(np.float32(v))
    elif a.type in (ir.AttributeType.FLOATS,):
        val = [float(np.float32(x)) for x in v]
    elif a.type in (ir.AttributeType.INTS, ir.AttributeType.STRINGS):
        val = list(v)
    else:
        val = v
    return (a.name, a.type.name, val, _none(a.doc_string))


def _value_payload(v, as_init=False):
    if v.name == "":
        return {"name": ""}          # an absent optional output carries nothing
    d = {"name": v.name, "doc": _none(v.doc_string), "md": dict(v.metadata_props),
         "type": _type_snap(v.type), "shape": _shape_snap(v.shape)}
    if as_init:
        d["data"] = _tensor_payload(v.const_value)
        d["tensor_name"] = None if v.const_value is None else v.const_value.name
    return d


def _trim(outs):
    outs = list(outs)
    while outs and not outs[-1].name:
        outs.pop()
    return outs


def _devcfg_payload(n):
    out = []
    for dc in n.device_configurations:
        out.append((None if dc.configuration is None else dc.configuration.name, dc.pipeline_stage,
                    [(None if sp.value is None else sp.value.name, tuple(sp.device),
                      tuple((e.key, tuple(e.value)) for e in sp.index_to_device_group_map),
                      tuple((d.axis, tuple((repr(s.dim), s.num_shards) for s in d.simple_shardings)) for d in sp.sharded_dims))
                     for sp in dc.sharding_specs]))
    return out


def _cmp(diffs, what, a, b):
    if a != b and len(diffs) < 6:
        diffs.append({"what": what, "orig": repr(a)[:300], "deser": repr(b)[:300]})


def _graph_leaf_diff(diffs, path, g1, g2, devcfg, is_function=False, depth=0):
    if depth > 6:
        return
    if not is_function:
        _cmp(diffs, path + "graph.name", _none(g1.name), _none(g2.name))
    _cmp(diffs, path + "graph.doc_string", _none(g1.doc_string), _none(g2.doc_string))
    _cmp(diffs, path + "graph.metadata_props", dict(g1.metadata_props), dict(g2.metadata_props))
    inits1 = {id(v) for v in g1.initializers.values()}
    for kind, s1, s2 in (("input", g1.inputs, g2.inputs), ("output", g1.outputs, g2.outputs),
                         ("initializer", list(g1.initializers.values()), list(g2.initializers.values()))):
        _cmp(diffs, f"{path}{kind}s.count", len(s1), len(s2))
        for i, (a, b) in enumerate(zip(s1, s2)):
            pa, pb = _value_payload(a, kind == "initializer"), _value_payload(b, kind == "initializer")
            if id(a) in inits1 and a.type is None and a.shape is None and a.const_value is not None:
                # an initializer without type and shape comes back typed by its tensor (accepted, see Iso)
                pa.pop("type"), pa.pop("shape"), pb.pop("type", None), pb.pop("shape", None)
            if kind == "initializer":
                pa.pop("tensor_name"), pb.pop("tensor_name")   # aligned with the value name by serialization
            _cmp(diffs, f"{path}{kind}[{i}]", pa, pb)
    n1, n2 = list(g1), list(g2)
    _cmp(diffs, path + "nodes.count", len(n1), len(n2))
    for i, (a, b) in enumerate(zip(n1, n2)):
        p = f"{path}node[{i}]."
        _cmp(diffs, p + "ident", (_none(a.name), a.domain, a.op_type, _none(a.overload), _none(a.doc_string)),
             (_none(b.name), b.domain, b.op_type, _none(b.overload), _none(b.doc_string)))
        _cmp(diffs, p + "metadata_props", dict(a.metadata_props), dict(b.metadata_props))
        _cmp(diffs, p + "attributes", [_attr_payload(x) for x in a.attributes.values()], [_attr_payload(x) for x in b.attributes.values()])
        _cmp(diffs, p + "inputs", [None if x is None else x.name for x in a.inputs], [None if x is None else x.name for x in b.inputs])
        o1, o2 = _trim(a.outputs), _trim(b.outputs)
        _cmp(diffs, p + "outputs", [_value_payload(x) for x in o1], [_value_payload(x) for x in o2])
        if devcfg:
            _cmp(diffs, p + "device_configurations", _devcfg_payload(a), _devcfg_payload(b))
        s1, s2 = _subgraphs(a), _subgraphs(b)
        for j, (x, y) in enumerate(zip(s1, s2)):
            _graph_leaf_diff(diffs, f"{p}sub[{j}].", x, y, devcfg, depth=depth + 1)


def leaf_diff(m1: ir.Model, m2: ir.Model) -> list:
    diffs: list = []
    _cmp(diffs, "model.fields", (m1.ir_version, _none(m1.producer_name), _none(m1.producer_version), _none(m1.domain),
                                 m1.model_version or 0, _none(m1.doc_string), dict(m1.metadata_props), dict(m1.opset_imports)),
         (m2.ir_version, _none(m2.producer_name), _none(m2.producer_version), _none(m2.domain),
          m2.model_version or 0, _none(m2.doc_string), dict(m2.metadata_props), dict(m2.opset_imports)))
    devcfg = m1.ir_version >= 11
    if devcfg:
        _cmp(diffs, "model.device_configurations", [(c.name, c.num_devices, tuple(c.device_names)) for c in m1.device_configurations],
             [(c.name, c.num_devices, tuple(c.device_names)) for c in m2.device_configurations])
        # node annotations resolve to the registered configuration objects
        regs = {c.name: id(c) for c in m2.device_configurations}
        nodes2 = list(m2.graph.all_nodes())
        for f in m2.functions.values():
            nodes2.extend(f.all_nodes())
        for n in nodes2:
            for dc in n.device_configurations:
                if dc.configuration is not None and dc.configuration.name in regs and id(dc.configuration) != regs[dc.configuration.name]:
                    _cmp(diffs, "node.device_configuration.unresolved", dc.configuration.name, None)
    _cmp(diffs, "functions.keys", list(m1.functions), list(m2.functions))
    _graph_leaf_diff(diffs, "", m1.graph, m2.graph, devcfg)
    for fi, ((k, f1), f2) in enumerate(zip(m1.functions.items(), m2.functions.values())):
        p = f"function[{fi}]."
        fd: list = []        # each function has its own (capped) list, so that none hides another's differences
        _cmp(fd, p + "ident", (f1.domain, f1.name, f1.overload, dict(f1.opset_imports)), (f2.domain, f2.name, f2.overload, dict(f2.opset_imports)))
        _cmp(fd, p + "attributes", [_attr_payload(a) for a in f1.attributes.values()], [_attr_payload(a) for a in f2.attributes.values()])
        _graph_leaf_diff(fd, p, f1.graph, f2.graph, devcfg, is_function=True)
        diffs.extend(fd)
    return diffs


# =====================================================================================================
# one emitted state
# =====================================================================================================
def run_state(rec: dict, k: int) -> dict:
    """Execute one specification state on the implementation. rec: the record SerdeIRMC emitted (h, st, proto,
    tnPost, ser, why) or just {h} when re-executing a recorded violation.  Returns a result record;
    res['pairs'] are the (original, deserialized) projections TLC judges, res['findings'] what needs no oracle
    (side effects, serialize twice) or is a divergence between specification and code."""
    res = {"id": k, "findings": [], "pairs": [], "flags": {}, "leaf": []}
    fl = res["flags"]
    h = rec["h"]

    def finding(cls, sig, **kw):
        res["findings"].append(dict(cls=cls, signature=sig, history=h, k=k, **kw))

    u = build(h)
    if "st" in rec:
        real = u.project_s()
        exp = shown_of_spec(rec["st"])
        fl["pre_ok"] = real == exp
        if not fl["pre_ok"]:
            bad = [key for key in exp if (real.get(key) != exp[key])]
            finding("DIV", "DIV:pre-state:" + "+".join(bad), message="the replayed history does not reach the specification's state")
            # The property speaks about every IR model the public API can build: the state actually reached is
            # still written out, read back and judged by TLC on what was observed; only the comparison with the
            # specification's own serialization (Ser, tnPost) has nothing to compare with.
            rec = {"h": h}
    model = decorate(u, k)
    fl["ir_version"] = model.ir_version
    fl["nfunc"] = len(model.functions)
    orig = universe_state(u, with_dc=model.ir_version >= 11)
    snap0 = deep_snapshot(u, model)
    p1 = p2 = None
    try:
        p1 = ir.to_proto(model)
        fl["ser1"] = "ok"
    except Exception as e:  # noqa: BLE001
        fl["ser1"] = "raise:" + type(e).__name__
        fl["ser1_msg"] = str(e)[-200:]
    snap1 = deep_snapshot(u, model)
    # ---- (c) no side effect except tensor.name := value.name of initializers (checked in EVERY state) ----
    changed = snapshot_diff(snap0, snap1)
    inits = {i + 1 for i, v in enumerate(u.values) if v.is_initializer()}
    bad = [c for c in changed if not (c[0] == "v" and c[2] == "tensor_name" and c[1] in inits and snap1[c] == snap1[("v", c[1], "name")])]
    if bad:
        kinds = sorted({(c[0] + "." + str(c[-1])) for c in bad})
        finding("C03", "C03:side-effect:" + "+".join(kinds), cells=[list(map(str, c)) for c in bad[:6]],
                before=[repr(snap0.get(c))[:200] for c in bad[:3]], after=[repr(snap1.get(c))[:200] for c in bad[:3]],
                message=f"to_proto changed {kinds} of the IR model (only initializer tensor names may change)")
    if p1 is None:
        return res
    if "tnPost" in rec:
        tn_real = [(NONAME if v.const_value is None else _sn(v.const_value.name)) for v in u.values]
        if tn_real != list(rec["tnPost"]):
            finding("DIV", "DIV:tensor-names-after-serialization", got=tn_real, expected=list(rec["tnPost"]))
    try:
        p2 = ir.to_proto(model)
    except Exception as e:  # noqa: BLE001
        finding("C03", "C03:twice:second-serialization-raises:" + type(e).__name__, message="the second to_proto raised")
    snap2 = deep_snapshot(u, model)
    ch2 = snapshot_diff(snap1, snap2)
    if ch2:
        kinds = sorted({(c[0] + "." + str(c[-1])) for c in ch2})
        finding("C03", "C03:side-effect:second:" + "+".join(kinds), cells=[list(map(str, c)) for c in ch2[:6]],
                message=f"the second to_proto changed {kinds} of the IR model")
    # ---- (b) serialize twice ----------------------------------------------------------------------------
    if p2 is not None and p1.SerializeToString(deterministic=True) != p2.SerializeToString(deterministic=True):
        finding("C03", "C03:twice:protos-differ", message="two consecutive to_proto(model) results differ")
    # ---- (d) conformance with Ser -------------------------------------------------------------------------
    if "proto" in rec:
        got = abstract_graph_proto(p1.graph, skip_function_vi=model.ir_version < 10)
        want = norm_spec_proto(rec["proto"])
        fl["proto_ok"] = got == want
        if got != want:
            where = proto_diff(want, got)
            finding("DIV", "DIV:proto:" + where.split(".")[-1].split("[")[0], where=where,
                    message="the serialized proto differs from the specification's Ser at " + where)
    # ---- (e) round trip ---------------------------------------------------------------------------------------
    try:
        m2 = ir.from_proto(p1)
        fl["deser"] = "ok"
    except Exception as e:  # noqa: BLE001
        m2 = None
        fl["deser"] = "raise:" + type(e).__name__
        fl["deser_msg"] = str(e)[-200:]
    if m2 is not None:
        # below IR version 11 device configurations are outside the statement: left out on both sides (the
        # serializer drops them on top-level nodes but, having no IR version at hand there, writes them for nodes
        # of nested graphs - recorded as an observation)
        dc = model.ir_version >= 11
        if not dc and any(n.device_configurations for n in m2.graph.all_nodes()):
            fl["devcfg_written_below_ir11"] = True
        res["pairs"].append({"id": k, "kind": "model", "fn": 0, "orig": orig, "deser": project_graph(m2.graph, with_dc=dc)})
        try:
            res["leaf"] = leaf_diff(model, m2)
        except Exception as e:  # noqa: BLE001
            res["leaf"] = [{"what": "leaf-comparison-raised", "orig": type(e).__name__ + ": " + str(e)[:200], "deser": ""}]
        for fi, (f1, f2) in enumerate(zip(model.functions.values(), m2.functions.values())):
            res["pairs"].append({"id": k, "kind": "function", "fn": fi, "orig": project_graph(f1.graph, with_dc=model.ir_version >= 11),
                                     "deser": project_graph(f2.graph, with_dc=dc)})
    return res


def _work(args):
    lines, ids = args
    results, pairs = [], []
    for k, line in zip(ids, lines):
        try:
            rec = json.loads(json.loads(line))
        except ValueError:
            results.append({"id": k, "unparsed": True, "findings": [], "flags": {}, "h": []})
            continue
        try:
            r = run_state(rec, k)
        except Exception:  # noqa: BLE001
            import traceback
            r = {"id": k, "crash": traceback.format_exc()[-1500:], "findings": [], "flags": {}, "pairs": []}
        pairs.extend(r.pop("pairs", []))
        r["h"] = rec["h"]
        r["spec"] = {"ser": rec.get("ser"), "why": rec.get("why", ""), "loose": rec.get("loose")}
        results.append(r)
    return results, pairs


def _keys(lines):
    out = []
    for line in lines:
        try:
            rec = json.loads(json.loads(line))
            out.append((hashlib.sha1(json.dumps(shown_of_spec(rec["st"]), sort_keys=True).encode()).hexdigest(), len(rec["h"])))
        except (ValueError, KeyError):
            out.append(("", 0))
    return out


def replay_file(path, nproc=16, chunk=48, stride=1, offset=0, limit=None):
    """Execute the emitted states.  The records are first put in an order that depends only on the SET of emitted
    states (hash of the state, then history length), never on the order in which TLC's workers happened to print
    them; a state's id (which also selects its decoration) is its rank in that order, and the sample is every
    stride-th id starting at offset."""
    with open(path, "r", errors="replace") as f:
        raw = [x for x in f if x.startswith('"')]
    with mp.get_context("fork").Pool(nproc) as pool:
        keys = [k for ks in pool.imap(_keys, [raw[i:i + 512] for i in range(0, len(raw), 512)]) for k in ks]
        order = sorted(range(len(raw)), key=lambda i: (keys[i], raw[i]))
        lines, ids = [], []
        for rank, i in enumerate(order):
            if rank % stride == offset:
                lines.append(raw[i])
                ids.append(rank)
            if limit and len(lines) >= limit:
                break
        del raw
        jobs = [(lines[i:i + chunk], ids[i:i + chunk]) for i in range(0, len(lines), chunk)]
        results, pairs = [], []
        for rs, ps in pool.imap_unordered(_work, jobs):
            results.extend(rs)
            pairs.extend(ps)
    results.sort(key=lambda r: r["id"])
    pairs.sort(key=lambda p: (p["id"], p["kind"], p["fn"]))
    spec_by_id = {r["id"]: r.get("spec", {}) for r in results}
    return results, pairs, spec_by_id
