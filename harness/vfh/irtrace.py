"""Code -> specification direction for IRGraph: drive the real library with long random call
sequences over a larger universe than the bounded model, log one event per public call, and let
TLC validate the log against IRGraphTrace.tla."""

from __future__ import annotations

import json
import os
import random

from .irdrive import Universe, compact, mk

NAMES = ["a", "b", "c", "a", "<none>", "b"]
CONSTS = [True, True, False, True, True, False]
NAMEPOOL = ["a", "b", "c", "d", "", "<none>"]


def random_call(rng: random.Random, u: Universe, max_nodes: int, max_vals: int) -> dict:
    nv, nn, ng = len(u.values), len(u.nodes), len(u.graphs)
    V = lambda: rng.randint(1, nv)  # noqa: E731
    V0 = lambda: rng.randint(0, nv)  # noqa: E731
    G = lambda: rng.randint(1, ng) if rng.random() < 0.3 else 1  # noqa: E731
    K = lambda: rng.choice(["in", "out"])  # noqa: E731
    I = lambda: rng.randint(-3, 4)  # noqa: E731
    VS = lambda lo=0, hi=3: [V() for _ in range(rng.randint(lo, hi))]  # noqa: E731
    ops = [
        ("IOAppend", 10), ("IOExtend", 5), ("IOInsert", 5), ("IOPop", 5), ("IORemove", 4), ("IOClear", 1),
        ("IOSetItem", 5), ("IOSetSlice", 5), ("IODelItem", 4), ("IODelSlice", 3), ("IOImul", 1), ("IOIadd", 1),
        ("IOReverse", 1), ("InitSet", 5), ("InitIor", 2), ("InitDel", 2), ("InitPop", 2), ("InitPopitem", 1),
        ("InitClear", 1), ("InitAdd", 6), ("Register", 3), ("SetName", 6),
    ]
    if nn:
        ops += [("ReplaceInput", 8), ("ResizeInputs", 3), ("ResizeOutputs", 3), ("GAppend", 6), ("GExtend", 3),
                ("GInsertBefore", 4), ("GInsertAfter", 4), ("GRemove", 6), ("ReplaceAllUses", 6), ("ReplaceAllUsesSeq", 3),
                ("ReplaceNodes", 4)]
    if nn < max_nodes and nv < max_vals - 2:
        ops += [("NewNode", 12 if nn < 2 else 5)]
    names, weights = zip(*ops)
    op = rng.choices(names, weights)[0]
    N = lambda: rng.randint(1, nn)  # noqa: E731
    NS = lambda lo=1, hi=3: [N() for _ in range(rng.randint(lo, hi))]  # noqa: E731
    if op in ("IOAppend", "IORemove"):
        return mk(op, k=K(), g=G(), v=V())
    if op == "IOExtend":
        return mk(op, k=K(), g=G(), vs=VS(0, 3))
    if op in ("IOInsert", "IOSetItem"):
        return mk(op, k=K(), g=G(), i=I(), v=V())
    if op in ("IOPop", "IODelItem"):
        return mk(op, k=K(), g=G(), i=I())
    if op in ("IOClear", "IOReverse"):
        return mk(op, k=K(), g=G())
    if op == "IOSetSlice":
        return mk(op, k=K(), g=G(), i=I(), j=I(), vs=VS(0, 3))
    if op == "IODelSlice":
        return mk(op, k=K(), g=G(), i=I(), j=I())
    if op == "IOImul":
        return mk(op, k=K(), g=G(), i=rng.choice([0, 1, 2]))
    if op == "IOIadd":
        return mk(op, k=K(), g=G(), vs=VS(1, 2))
    if op in ("InitSet", "InitIor"):
        v = V()
        nm = rng.choice(NAMEPOOL[:5]) if rng.random() < 0.4 else u.values[v - 1].name
        if nm is None or (op == "InitIor" and nm in ("<none>",)):
            nm = "a"
        return mk(op, g=G(), name=nm, v=v)
    if op in ("InitDel", "InitPop"):
        return mk(op, g=G(), name=rng.choice(NAMEPOOL[:4]))
    if op in ("InitPopitem", "InitClear"):
        return mk(op, g=G())
    if op in ("InitAdd", "Register"):
        return mk(op, g=G(), v=V())
    if op == "SetName":
        return mk(op, v=V(), name=rng.choice(NAMEPOOL))
    if op == "ReplaceInput":
        return mk(op, n=N(), i=rng.randint(-1, 3), v=V0())
    if op == "ResizeInputs":
        return mk(op, n=N(), i=rng.randint(-1, 4))
    if op == "ResizeOutputs":
        return mk(op, n=N(), i=rng.randint(-2, 3) if nv < max_vals - 2 else rng.randint(-2, 1))
    if op == "GAppend":
        return mk(op, g=G(), n=N())
    if op == "GExtend":
        return mk(op, g=G(), vs=NS(0, 3))
    if op in ("GInsertBefore", "GInsertAfter"):
        return mk(op, g=G(), n=N(), vs=NS(1, 3), flag=rng.random() < 0.5)
    if op == "GRemove":
        return mk(op, g=G(), vs=NS(1, 2), flag=rng.random() < 0.5)
    if op == "ReplaceAllUses":
        return mk(op, v=V(), w=V(), flag=rng.random() < 0.6)
    if op == "ReplaceAllUsesSeq":
        k = rng.randint(1, 3)
        return mk(op, vs=[V() for _ in range(k)], ws=[V() for _ in range(k if rng.random() < 0.9 else k + 1)], flag=rng.random() < 0.6)
    if op == "ReplaceNodes":
        o = N()
        return mk(op, g=G(), n=(o if rng.random() < 0.7 else N()), vs=[o], ws=(NS(1, 1) if rng.random() < 0.7 else []),
                  v=V(), w=V())
    if op == "NewNode":
        ins = [V0() for _ in range(rng.randint(0, 3))]
        if rng.random() < 0.3:
            # known finding C01/NewNode/out-is-input (Node accepts a graph input or initializer as
            # supplied output): that pattern is exercised by the exhaustive replay, not here, because a
            # state corrupted by it would make every later event of the trace meaningless
            ws = [x for x in VS(1, 2) if not (u.values[x - 1].is_graph_input() or u.values[x - 1].is_initializer())]
            if ws:
                return mk(op, vs=ins, ws=ws, i=0, g=rng.choice([0, 1, 1, 2]))
        return mk(op, vs=ins, ws=[], i=rng.randint(0, 2), g=rng.choice([0, 1, 1, 2]))
    raise AssertionError(op)


def record_trace(seed: int, length: int, ng: int = 3, max_nodes: int = 6, max_vals: int = 14) -> list:
    rng = random.Random(seed)
    u = Universe(ng, NAMES, CONSTS)
    events = []
    for _ in range(length):
        c = random_call(rng, u, max_nodes, max_vals)
        out = u.apply(c)
        events.append({"c": compact(c), "out": out, "post": u.project()})
    return events


def write_trace_file(path: str, traces: list, ng: int = 3) -> None:
    with open(path, "w") as f:
        json.dump({"ng": ng, "names": NAMES, "consts": CONSTS, "traces": traces}, f)


def parse_reports(res) -> dict:
    acc, div, c01, c06 = set(), {}, [], []
    for r in res.records():
        if not isinstance(r, list) or not r:
            continue
        if r[0] == "acc":
            acc.add(r[1])
        elif r[0] == "div":
            div[r[1]] = r[2]
        elif r[0] == "c01":
            c01.append((r[1], r[2], r[3]))
        elif r[0] == "c06":
            c06.append((r[1], r[2]))
    return dict(acc=acc, div=div, c01=c01, c06=c06)
