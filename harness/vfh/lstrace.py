"""Code -> specification direction for C11: long random executions of the real DoublyLinkedSet /
ir.Graph / ir.Function (several live generator objects, multi-element inserts, moves, rejected
calls, Graph.sort on randomly wired nodes) and of RecursiveGraphIterator over a 2-level nesting are
logged, one event per public call with everything the public protocol shows, and validated by TLC
against LinkedSetTrace.tla / RecIterTrace.tla."""

from __future__ import annotations

import json
import random

from . import lsdrive
from .lsreplay import event_ls, event_rec, pad_dirs


def _pick_es(rng, nelem, lst, k=None):
    k = k or rng.choice([1, 1, 1, 2, 2, 3])
    return [rng.randint(1, nelem) for _ in range(k)]


def record_ls(seed: int, kind: str, nelem: int = 8, ncur: int = 3, length: int = 40, max_boxes: int = 250) -> dict:
    rng = random.Random(seed)
    n0 = rng.randint(0, nelem)
    init = rng.sample(range(1, nelem + 1), n0)
    dirs = [rng.choice("fb") for _ in range(ncur)]
    deps = {k: [d for d in range(1, k) if rng.random() < 0.35] for k in range(1, nelem + 1)}
    t = lsdrive.make_target(kind, nelem, init, dirs, deps)
    cur_list = list(init)
    ev = []
    boxes = len(init)
    for _ in range(length):
        r = rng.random()
        if boxes + nelem + 3 > max_boxes:       # stay inside the box universe of the trace specification
            r = r * 0.36 if r < 0.8 else 0.9
        a, es, c = 0, [], 0
        present = cur_list
        anyel = lambda: rng.randint(1, nelem)  # noqa: E731
        anchor = lambda: (rng.choice(present) if present and rng.random() < 0.92 else anyel())  # noqa: E731
        if r < 0.36:
            op, c = "ST", rng.randint(1, ncur)
        elif r < 0.46:
            op, a = "AP", anyel()
        elif r < 0.52:
            op, es = "EX", _pick_es(rng, nelem, present)
        elif r < 0.68:
            op, a, es = "IA", anchor(), _pick_es(rng, nelem, present)
        elif r < 0.84:
            op, a, es = "IB", anchor(), _pick_es(rng, nelem, present)
        elif r < 0.96:
            op, a = "RM", anchor()
        else:
            op = "SO"
            if kind == "dls":
                es = list(present)
                rng.shuffle(es)
        out, y = t.apply(op, a, es, c)
        obs = t.observe()
        if op == "SO" and kind != "dls":
            es = [x for x in obs[0] if isinstance(x, int)]     # the order sort() produced
        ev.append(event_ls(op, a, es, c, out, y, obs))
        boxes += 1 if op == "AP" else len(es)
        cur_list = [x for x in obs[0] if isinstance(x, int) and x > 0]
    return dict(k=kind, seed=seed, nelem=nelem, init=init, dirs=pad_dirs(dirs), deps=[deps[k] for k in range(1, nelem + 1)], ev=ev)


def record_rec(seed: int, nelem: int = 4, length: int = 30, max_boxes: int = 110) -> dict:
    rng = random.Random(seed)
    lo = rng.sample(range(1, nelem + 1), rng.randint(1, nelem))
    if 1 not in lo and rng.random() < 0.8:
        lo.insert(rng.randint(0, len(lo)), 1)
    li = rng.sample(range(1, nelem + 1), rng.randint(0, nelem))
    d = rng.choice("fb")
    variant = rng.random() < 0.3
    t = lsdrive.RecTarget(nelem, lo, li, d, via_all_nodes=variant)
    lists = [list(lo), list(li)]
    ev = []
    boxes = len(lo) + len(li)
    for _ in range(length):
        r = rng.random()
        if boxes + 2 * nelem + 3 > max_boxes:
            r = r * 0.45 if r < 0.8 else 0.9
        g, a, es = rng.choice([0, 1, 1]), 0, []
        present = lists[g]
        anyel = lambda: rng.randint(1, nelem)  # noqa: E731
        anchor = lambda: (rng.choice(present) if present and rng.random() < 0.92 else anyel())  # noqa: E731
        if r < 0.45:
            op, g = "ST", 0
        elif r < 0.55:
            op, a = "AP", anyel()
        elif r < 0.60:
            op, es = "EX", _pick_es(rng, nelem, present, rng.choice([1, 2]))
        elif r < 0.72:
            op, a, es = "IA", anchor(), _pick_es(rng, nelem, present, rng.choice([1, 1, 2]))
        elif r < 0.84:
            op, a, es = "IB", anchor(), _pick_es(rng, nelem, present, rng.choice([1, 1, 2]))
        elif r < 0.96:
            op, a = "RM", anchor()
        else:
            op, g = "SO", 0
        out, lvl, y = t.apply(op, g, a, es)
        obs2 = t.observe2()
        es2 = []
        if op == "SO":
            es = [x for x in obs2[0][0] if isinstance(x, int)]
            es2 = [x for x in obs2[1][0] if isinstance(x, int)]
        ev.append(event_rec(op, g, a, es, out, lvl, y, obs2, es2))
        boxes += 1 if op == "AP" else len(es) + len(es2)
        lists = [[x for x in obs2[i][0] if isinstance(x, int) and x > 0] for i in (0, 1)]
    return dict(k="rec1" if variant else "rec0", seed=seed, nelem=nelem, lo=lo, li=li, d=d, ev=ev)


def write_traces(path: str, traces: list) -> None:
    with open(path, "w") as f:
        json.dump({"traces": traces}, f)


def parse_reports(res) -> dict:
    acc, nc, inv, obs = set(), {}, [], []
    for r in res.records():
        if not isinstance(r, list) or not r:
            continue
        if r[0] == "acc":
            acc.add(r[1])
        elif r[0] == "nc":
            nc[r[1]] = (r[2], r[3])
        elif r[0] == "inv":
            inv.append((r[1], r[2], r[3]))
        elif r[0] == "obs":
            obs.append((r[1], r[2], r[3]))
    return dict(acc=acc, nc=nc, inv=inv, obs=obs)
