"""Binding between the IRGraph specification and the real onnx_ir objects.

* ``Universe``: real Values / Nodes / Graphs numbered in creation order (ids as in the spec).
* ``Universe.apply(call)``: performs one spec call through the *public* API, returns the outcome.
* ``Universe.project()``: the observable state, computed through public accessors only; same
  shape as the TLA+ operator ``Obs``.
* ``obs_of_spec(state)``: the same projection computed from a full spec state (as JSON).
* ``check_invariants(obs)``: Python mirror of the C01 invariants of IRGraph.tla (used to classify a
  divergence between model and code; the authoritative evaluation is TLC's, on the same records).
"""

from __future__ import annotations

import numpy as np
import onnx_ir as ir

NONAME = "<none>"
FIELDS = ("op", "g", "n", "v", "w", "i", "j", "vs", "ws", "k", "flag", "name")


def call_from_compact(t) -> dict:
    return dict(zip(FIELDS, t))


def compact(c: dict) -> list:
    return [c.get(f, d) for f, d in zip(FIELDS, ("", 0, 0, 0, 0, 0, 0, [], [], "", False, ""))]


def mk(op, **kw) -> dict:
    c = dict(zip(FIELDS, ("", 0, 0, 0, 0, 0, 0, [], [], "", False, "")))
    c["op"] = op
    c.update(kw)
    return c


BADNAME = "<bad>"     # IRGraph!BadName: a name the value's backing tensor refuses to take (here: not a string)


def _pyname(name):
    if name == BADNAME:
        return 7
    return None if name == NONAME else name


def _specname(name):
    return NONAME if name is None else name


class Universe:
    strict_consts = False     # True (C01/C06 replays): every second constant is backed by a proto tensor

    def __init__(self, ng: int, names, consts):
        self.values: list = []
        self.nodes: list = []
        self.graphs: list = []
        self._vid: dict = {}
        self._nid: dict = {}
        self._gid: dict = {}
        self._tid: dict = {}
        for i in range(ng):
            g = ir.Graph([], [], nodes=[], name=f"g{i + 1}")
            self.graphs.append(g)
            self._gid[id(g)] = i + 1
        for nm, c in zip(names, consts):
            v = ir.Value(name=_pyname(nm))
            if c:
                # every second constant is backed by a proto tensor (what a loaded model holds): its name setter
                # writes into the TensorProto and refuses anything that is not a string
                if self.strict_consts and len(self.values) % 2:
                    import onnx

                    v.const_value = ir.serde.TensorProtoTensor(onnx.numpy_helper.from_array(
                        np.array([1.0], dtype=np.float32), name=_pyname(nm)))
                else:
                    v.const_value = ir.Tensor(np.array([1.0], dtype=np.float32), name=_pyname(nm))
                self._tid[id(v.const_value)] = f"T{len(self.values) + 1}"
            self._add_value(v)

    # ---- object registry ------------------------------------------------------------------
    def _add_value(self, v) -> int:
        self.values.append(v)
        self._vid[id(v)] = len(self.values)
        return len(self.values)

    def _add_node(self, n) -> int:
        self.nodes.append(n)
        self._nid[id(n)] = len(self.nodes)
        return len(self.nodes)

    def V(self, i):
        if i == -1:
            return 5        # IRGraph!NotAValue: an argument that is not a Value at all
        return None if i == 0 else self.values[i - 1]

    def N(self, i):
        return self.nodes[i - 1]

    def G(self, i):
        return None if i == 0 else self.graphs[i - 1]

    via_function = False   # route node-list edits through an ir.Function wrapping the graph
    one_shot = False       # pass multi-element arguments as one-shot iterators instead of lists

    def _seq(self, items):
        return iter(list(items)) if self.one_shot else list(items)

    def GF(self, i):
        """The graph, or (when via_function) an ir.Function delegating to it."""
        g = self.G(i)
        if not self.via_function:
            return g
        if not hasattr(self, "_fwrap"):
            self._fwrap = {}
        if i not in self._fwrap:
            self._fwrap[i] = ir.Function("vf", f"f{i}", graph=g, attributes=())
        return self._fwrap[i]

    def vid(self, v) -> int:
        if v is None:
            return 0
        return self._vid.get(id(v), -1)

    def nid(self, n) -> int:
        if n is None:
            return 0
        return self._nid.get(id(n), -1)

    def gid(self, g) -> int:
        if g is None:
            return 0
        return self._gid.get(id(g), -1)

    def _adopt_fresh_outputs(self, node) -> None:
        """Number (and name, as the spec's FreshName does) values the call created."""
        for o in node.outputs:
            if id(o) not in self._vid:
                i = self._add_value(o)
                o.name = f"o{i}"

    def _io(self, c):
        g = self.G(c["g"])
        return g.inputs if c["k"] == "in" else g.outputs

    # ---- one spec call -> one public call ----------------------------------------------------
    def _ret(self, x) -> None:
        """Remember what the public call returned, as a token (objects by their harness number)."""
        self.last_ret = self._tok(x)

    def _tok(self, x):
        if x is None or isinstance(x, (bool, int, str)):
            return x
        if isinstance(x, ir.Value):
            return ["V", self.vid(x)]
        if isinstance(x, ir.Node):
            return ["N", self.nid(x)]
        if isinstance(x, (tuple, list)):
            return [self._tok(y) for y in x]
        return ["obj", type(x).__name__]

    def apply(self, c: dict) -> str:
        self.last_ret = None
        try:
            self._dispatch(c)
        except Exception as e:  # noqa: BLE001 - the outcome class is what is observed
            return "raise:" + type(e).__name__
        return "ok"

    def _dispatch(self, c: dict) -> None:
        op = c["op"]
        if op == "IOAppend":
            self._ret(self._io(c).append(self.V(c["v"])))
        elif op == "IOExtend":
            self._ret(self._io(c).extend(self._seq(self.V(x) for x in c["vs"])))
        elif op == "IOInsert":
            self._ret(self._io(c).insert(c["i"], self.V(c["v"])))
        elif op == "IOPop":
            self._ret(self._io(c).pop(c["i"]))
        elif op == "IORemove":
            self._ret(self._io(c).remove(self.V(c["v"])))
        elif op == "IOClear":
            self._ret(self._io(c).clear())
        elif op == "IOSetItem":
            self._io(c)[c["i"]] = self.V(c["v"])
        elif op == "IOSetSlice":
            self._io(c)[c["i"] : c["j"]] = [self.V(x) for x in c["vs"]]
        elif op == "IODelItem":
            del self._io(c)[c["i"]]
        elif op == "IODelSlice":
            del self._io(c)[c["i"] : c["j"]]
        elif op == "IOImul":
            lst = self._io(c)
            lst *= c["i"]
        elif op == "IOIadd":
            lst = self._io(c)
            lst += [self.V(x) for x in c["vs"]]
        elif op == "IOReverse":
            self._ret(self._io(c).reverse())
        elif op == "InitSet":
            self.G(c["g"]).initializers[_pyname(c["name"])] = self.V(c["v"])
        elif op == "InitIor":
            d = self.G(c["g"]).initializers
            d |= {_pyname(c["name"]): self.V(c["v"])}
        elif op == "InitDel":
            del self.G(c["g"]).initializers[c["name"]]
        elif op == "InitPop":
            self._ret(self.G(c["g"]).initializers.pop(c["name"]))
        elif op == "InitPopitem":
            self._ret(self.G(c["g"]).initializers.popitem())
        elif op == "InitClear":
            self._ret(self.G(c["g"]).initializers.clear())
        elif op == "InitAdd":
            self._ret(self.G(c["g"]).initializers.add(self.V(c["v"])))
        elif op == "Register":
            self._ret(self.G(c["g"]).register_initializer(self.V(c["v"])))
        elif op == "SetName":
            self.V(c["v"]).name = _pyname(c["name"])
        elif op == "ReplaceInput":
            self._ret(self.N(c["n"]).replace_input_with(c["i"], self.V(c["v"])))
        elif op == "ResizeInputs":
            self._ret(self.N(c["n"]).resize_inputs(c["i"]))
        elif op == "ResizeOutputs":
            n = self.N(c["n"])
            try:
                n.resize_outputs(c["i"])
            finally:
                self._adopt_fresh_outputs(n)
        elif op == "GAppend":
            self._ret(self.GF(c["g"]).append(self.N(c["n"])))
        elif op == "GExtend":
            self._ret(self.GF(c["g"]).extend(self._seq(self.N(x) for x in c["vs"])))
        elif op == "GInsertBefore":
            ns = [self.N(x) for x in c["vs"]]
            self._ret(self.GF(c["g"]).insert_before(self.N(c["n"]), ns[0] if len(ns) == 1 and c["flag"] else self._seq(ns)))
        elif op == "GInsertAfter":
            ns = [self.N(x) for x in c["vs"]]
            self._ret(self.GF(c["g"]).insert_after(self.N(c["n"]), ns[0] if len(ns) == 1 and c["flag"] else self._seq(ns)))
        elif op == "GRemove":
            ns = [self.N(x) for x in c["vs"]]
            self._ret(self.GF(c["g"]).remove(ns[0] if len(ns) == 1 else self._seq(ns), safe=bool(c["flag"])))
        elif op == "GSort":
            self._ret(self.GF(c["g"]).sort())
        elif op == "NodePrepend":
            ns = [self.N(x) for x in c["vs"]]
            self._ret(self.N(c["n"]).prepend(ns[0] if len(ns) == 1 and self.via_function else ns))
        elif op == "NodeAppend":
            ns = [self.N(x) for x in c["vs"]]
            self._ret(self.N(c["n"]).append(ns[0] if len(ns) == 1 and self.via_function else ns))
        elif op == "InitSetdefault":
            self._ret(self.G(c["g"]).initializers.setdefault(_pyname(c["name"]), self.V(c["v"])))
        elif op == "InitUpdateKeys":
            self._ret(self.G(c["g"]).initializers.update([(_pyname(c["name"]), self.V(c["v"])), (_pyname(c["k"]), self.V(c["w"]))]))
        elif op == "InitUpdate2":
            v, w = self.V(c["v"]), self.V(c["w"])
            self._ret(self.G(c["g"]).initializers.update([(v.name, v), (w.name, w)]))
        elif op == "NewNode":
            ins = [self.V(x) for x in c["vs"]]
            k = len(self.nodes) + 1
            kw = {}
            if c["ws"]:
                kw["outputs"] = [self.V(x) for x in c["ws"]]
            else:
                kw["num_outputs"] = c["i"]
            node = ir.Node("", "Op", ins, graph=self.G(c["g"]), name=f"n{k}", **kw)
            self._add_node(node)
            self._adopt_fresh_outputs(node)
        elif op == "ReplaceAllUsesSeq":
            self._ret(ir.convenience.replace_all_uses_with([self.V(x) for x in c["vs"]], [self.V(x) for x in c["ws"]],
                                                           replace_graph_outputs=bool(c["flag"])))
        elif op == "GExtendGen":
            def lazy_nodes():
                for _ in range(c["i"]):
                    node = ir.Node("", "Op", [self.V(c["v"])], num_outputs=1, name=f"n{len(self.nodes) + 1}")
                    self._add_node(node)
                    self._adopt_fresh_outputs(node)
                    yield node
                raise RuntimeError("vf: the iterable fails")

            self._ret(self.GF(c["g"]).extend(lazy_nodes()))
        elif op == "NewGraph":
            gi = c["g"]
            old = self.graphs[gi - 1]
            new = ir.Graph([self.V(x) for x in c["vs"]], [self.V(x) for x in c["ws"]],
                           nodes=self._seq([self.N(c["n"])] if c["n"] else []),
                           initializers=[self.V(c["v"])] if c["v"] else [], name=old.name)
            # the slot now holds the object just constructed (the old one was pristine: nothing refers to it)
            self._retired = getattr(self, "_retired", []) + [old]
            self._gid.pop(id(old), None)
            self.graphs[gi - 1] = new
            self._gid[id(new)] = gi
            if hasattr(self, "_fwrap"):
                self._fwrap.pop(gi, None)
        elif op == "ReplaceNodes":
            self._ret(ir.convenience.replace_nodes_and_values(
                self.GF(c["g"]), self.N(c["n"]), [self.N(x) for x in c["vs"]], [self.N(x) for x in c["ws"]],
                [self.V(c["v"])], [self.V(c["w"])]))
        elif op == "ReplaceAllUses":
            self._ret(self.V(c["v"]).replace_all_uses_with(self.V(c["w"]), replace_graph_outputs=bool(c["flag"])))
        else:
            raise AssertionError(f"unknown op {op}")

    # ---- observable projection ------------------------------------------------------------
    def project(self) -> dict:
        vid, nid, gid = self.vid, self.nid, self.gid
        o = {
            "nIn": [[vid(x) for x in n.inputs] for n in self.nodes],
            "nOut": [[vid(x) for x in n.outputs] for n in self.nodes],
            "nGraph": [gid(n.graph) for n in self.nodes],
            "gNodes": [[nid(n) for n in g] for g in self.graphs],
            "gIn": [[vid(x) for x in g.inputs] for g in self.graphs],
            "gOut": [[vid(x) for x in g.outputs] for g in self.graphs],
            "gInitK": [[_specname(k) for k in g.initializers.keys()] for g in self.graphs],
            "gInitV": [[vid(x) for x in g.initializers.values()] for g in self.graphs],
            "vProd": [nid(v.producer()) for v in self.values],
            "vIdx": [(-2 if v.index() is None else v.index()) for v in self.values],
            "vUses": [sorted(nid(u.node) * 16 + u.idx for u in v.uses()) for v in self.values],
            "vGraph": [gid(v.graph) for v in self.values],
            "vIsIn": [bool(v.is_graph_input()) for v in self.values],
            "vIsOut": [bool(v.is_graph_output()) for v in self.values],
            "vIsInit": [bool(v.is_initializer()) for v in self.values],
            "vName": [_specname(v.name) for v in self.values],
        }
        return o

    def extra_snapshot(self) -> tuple:
        """Observable properties beyond the projection (C06: *every* observable property)."""
        out = []
        for g in self.graphs:
            out.append((len(g), [nid for nid in map(self.nid, reversed(g))], g.name))
        for n in self.nodes:
            out.append((n.name, n.op_type, n.domain, tuple(n.attributes), len(n.inputs), len(n.outputs)))
        for v in self.values:
            cv = v.const_value
            out.append((None if cv is None else (self._tid.get(id(cv), "T?"), cv.name), v.type, None if v.shape is None else tuple(v.shape.dims)))
        return tuple(map(repr, out))


# ---- spec state (JSON) -> observable -----------------------------------------------------------
def obs_of_spec(s: dict) -> dict:
    nprod = s["vProd"]
    ngraph = s["nGraph"]
    vgraph = []
    for v, (own, prod) in enumerate(zip(s["vOwner"], nprod)):
        if own != 0:
            vgraph.append(own)
        elif prod != 0:
            vgraph.append(ngraph[prod - 1])
        else:
            vgraph.append(0)
    return {
        "nIn": [list(x) for x in s["nIn"]],
        "nOut": [list(x) for x in s["nOut"]],
        "nGraph": list(ngraph),
        "gNodes": [list(x) for x in s["gNodes"]],
        "gIn": [list(x) for x in s["gIn"]],
        "gOut": [list(x) for x in s["gOut"]],
        "gInitK": [[p[0] for p in g] for g in s["gInit"]],
        "gInitV": [[p[1] for p in g] for g in s["gInit"]],
        "vProd": list(nprod),
        "vIdx": list(s["vIdx"]),
        "vUses": [sorted(x) for x in s["vUses"]],
        "vGraph": vgraph,
        "vIsIn": list(s["vIsIn"]),
        "vIsOut": list(s["vIsOut"]),
        "vIsInit": list(s["vIsInit"]),
        "vName": list(s["vName"]),
    }


def diff_obs(a: dict, b: dict) -> list:
    return [k for k in a if a[k] != b.get(k)]


# ---- Python mirror of the invariants (names as in IRGraph.tla) -------------------------------------
def check_invariants(o: dict) -> list:
    bad = []
    nV, nN, nG = len(o["vProd"]), len(o["nIn"]), len(o["gNodes"])
    # UseDef
    ok = True
    for v in range(1, nV + 1):
        us = o["vUses"][v - 1]
        if len(set(us)) != len(us):
            ok = False
        for u in us:
            n, i = divmod(u, 16)
            if not (1 <= n <= nN and i < len(o["nIn"][n - 1]) and o["nIn"][n - 1][i] == v):
                ok = False
    for n in range(1, nN + 1):
        for i, v in enumerate(o["nIn"][n - 1]):
            if v > 0 and (n * 16 + i) not in o["vUses"][v - 1]:
                ok = False
            if v < 0:
                ok = False
    if not ok:
        bad.append("UseDef")
    # ProducerOK
    ok = True
    for n in range(1, nN + 1):
        for i, v in enumerate(o["nOut"][n - 1]):
            if v <= 0 or o["vProd"][v - 1] != n or o["vIdx"][v - 1] != i:
                ok = False
    for v in range(1, nV + 1):
        p = o["vProd"][v - 1]
        if p != 0 and (p < 0 or v not in o["nOut"][p - 1]):
            ok = False
    if not ok:
        bad.append("ProducerOK")
    # NodeGraphOK
    ok = True
    for n in range(1, nN + 1):
        for g in range(1, nG + 1):
            cnt = o["gNodes"][g - 1].count(n)
            if cnt > 1 or ((o["nGraph"][n - 1] == g) != (cnt == 1)):
                ok = False
        if o["nGraph"][n - 1] < 0:
            ok = False
    if not ok:
        bad.append("NodeGraphOK")
    # FlagsOK
    ok = True
    for v in range(1, nV + 1):
        inn = [g for g in range(1, nG + 1) if v in o["gIn"][g - 1]]
        out = [g for g in range(1, nG + 1) if v in o["gOut"][g - 1]]
        ini = [g for g in range(1, nG + 1) if v in o["gInitV"][g - 1]]
        if o["vIsIn"][v - 1] != bool(inn) or o["vIsOut"][v - 1] != bool(out) or o["vIsInit"][v - 1] != bool(ini):
            ok = False
        for g in set(inn + out + ini):
            if o["vGraph"][v - 1] != g:
                ok = False
    if not ok:
        bad.append("FlagsOK")
    # InitKeyOK
    ok = True
    for g in range(nG):
        ks, vs = o["gInitK"][g], o["gInitV"][g]
        if len(set(ks)) != len(ks):
            ok = False
        for k, v in zip(ks, vs):
            if v <= 0 or o["vName"][v - 1] != k:
                ok = False
    if not ok:
        bad.append("InitKeyOK")
    # NoProducer
    ok = True
    for g in range(nG):
        for v in list(o["gIn"][g]) + list(o["gInitV"][g]):
            if v > 0 and o["vProd"][v - 1] != 0:
                ok = False
    if not ok:
        bad.append("NoProducer")
    return bad
