"""Replay of TLC-emitted IRGraph states (spec -> code direction).

Each emitted record holds the first-found history of one distinct model state, the state, and for
every candidate call of that state the outcome predicted by the model and, for accepted calls,
the successor state.  The real objects are brought to the state along the history and every
candidate call is performed against it.

Verdict classes (a finding is a dict with 'cls'):
  C01  the observable state after a call breaks one of the use-def / ownership invariants
  C06  a call raised and some observable property changed
  DIV  model and code disagree but neither property is broken on the observed state (spec gap
       or behavioural change outside C01/C06) - reported as a note, never as a violation
"""

from __future__ import annotations

import json
import multiprocessing as mp
import random
from collections import Counter

from . import irdrive
from .irdrive import Universe, call_from_compact, check_invariants, diff_obs, obs_of_spec


def _short(c: dict) -> str:
    parts = [c["op"]]
    if c["k"]:
        parts.append(c["k"])
    return ":".join(parts)


class LineReplayer:
    def __init__(self, ng, names, consts, row_cap=None, seed=0):
        self.ng, self.names, self.consts = ng, names, consts
        self.row_cap = row_cap
        self.rng = random.Random(seed)
        self.findings: list = []
        self.stats = Counter()
        self.kinds = Counter()

    def build(self, h):
        u = Universe.__new__(Universe)
        u.strict_consts = True      # StrictTensor of IRGraph.tla
        u.__init__(self.ng, self.names, self.consts)
        for cc, _out in h:
            u.apply(call_from_compact(cc))
        return u

    def finding(self, cls, sig, rec, row, **kw):
        self.findings.append(
            dict(
                cls=cls,
                signature=sig,
                history=[[cc, out] for cc, out in rec["h"]],
                call=row["c"],
                expected_out=row["out"],
                **kw,
            )
        )

    def replay(self, rec: dict) -> None:
        h = rec["h"]
        pre_obs = obs_of_spec(rec["pre"])
        u = self.build(h)
        real_pre = u.project()
        self.stats["states"] += 1
        if real_pre != pre_obs:
            # reached only after an earlier divergence on the path; the divergence itself is
            # reported where it first occurs
            bad = check_invariants(real_pre)
            if bad:
                self.finding("C01", "C01:history:" + "+".join(bad), rec, dict(c=h[-1][0] if h else [], out="-"),
                             observed=real_pre, fields=diff_obs(pre_obs, real_pre), message=f"invariants {bad} broken after replaying the history")
            self.stats["pre_mismatch"] += 1
            return
        extra_pre = u.extra_snapshot()
        rows = rec["rows"]
        if self.row_cap is not None and len(rows) > self.row_cap:
            rej = [r for r in rows if r["out"] != "ok"]
            oks = [r for r in rows if r["out"] == "ok"]
            self.rng.shuffle(oks)
            rows = rej + oks[: max(0, self.row_cap - len(rej))]
        dirty = False
        for row in rows:
            if dirty:
                u = self.build(h)
                dirty = False
            c = call_from_compact(row["c"])
            exp = row["out"]
            u.via_function = (self.stats["calls"] % 2 == 1)
            got = u.apply(c)
            real = u.project()
            self.stats["calls"] += 1
            raised = got != "ok"
            kind = (c["op"], c["k"], exp, "raise" if raised else "ok")
            self.kinds[kind] += 1
            if raised:
                unchanged = real == pre_obs and u.extra_snapshot() == extra_pre
                if not unchanged:
                    fields = diff_obs(pre_obs, real) or ["extra"]
                    self.finding(
                        "C06", f"C06:{_short(c)}:{exp}:changed:" + "+".join(fields), rec, row,
                        got=got, observed=real, fields=fields,
                        message=f"{c['op']} raised {got} but changed {fields}",
                    )
                    bad = check_invariants(real)
                    if bad:
                        self.finding("C01", f"C01:{_short(c)}:raise:{exp}:" + "+".join(bad), rec, row, got=got,
                                     observed=real, fields=fields, message=f"after {c['op']} raised, invariants {bad} are broken")
                    dirty = True
                elif exp == "ok":
                    self.finding("DIV", f"DIV:{_short(c)}:code-rejects-what-model-accepts", rec, row, got=got)
                continue
            # the call returned normally
            exp_obs = obs_of_spec(row["post"]) if exp == "ok" else None
            if exp_obs is not None and real == exp_obs:
                # (a call may change only properties outside the projection: replace_nodes_and_values hands over
                # const_value / type / shape)
                dirty = real != pre_obs or u.extra_snapshot() != extra_pre
                continue
            bad = check_invariants(real)
            if bad:
                self.finding(
                    "C01", f"C01:{_short(c)}:{exp}:" + "+".join(bad), rec, row, got=got, observed=real,
                    fields=diff_obs(exp_obs if exp_obs is not None else pre_obs, real),
                    message=f"after {c['op']} (model outcome {exp}) invariants {bad} are broken",
                )
            else:
                tag = "post-differs" if exp == "ok" else "code-accepts-what-model-rejects"
                self.finding("DIV", f"DIV:{_short(c)}:{exp}:{tag}", rec, row, got=got,
                             fields=diff_obs(exp_obs if exp_obs is not None else pre_obs, real))
            dirty = True


def _work(args):
    lines, cfg = args
    lr = LineReplayer(cfg["ng"], cfg["names"], cfg["consts"], cfg.get("row_cap"), cfg.get("seed", 0))
    for line in lines:
        try:
            rec = json.loads(json.loads(line))
        except ValueError:
            lr.stats["unparsed"] += 1
            continue
        lr.replay(rec)
    # keep the first finding per signature only (plus a count)
    first = {}
    for f in lr.findings:
        s = f["signature"]
        if s not in first:
            first[s] = dict(f, count=0)
        first[s]["count"] += 1
    return list(first.values()), dict(lr.stats), {"|".join(map(str, k)): v for k, v in lr.kinds.items()}


def replay_file(out_path: str, cfg: dict, nproc: int = 16, chunk: int = 8, line_cap=None, seed=0):
    """Replay every emitted state of a TLC output file. Returns (findings, stats, kinds)."""

    def chunks():
        buf = []
        rng = random.Random(seed)
        with open(out_path, "r", errors="replace") as f:
            for line in f:
                if not line.startswith('"'):
                    continue
                if line_cap is not None and rng.random() > line_cap:
                    continue
                buf.append(line)
                if len(buf) >= chunk:
                    yield (buf, cfg)
                    buf = []
        if buf:
            yield (buf, cfg)

    findings: dict = {}
    stats = Counter()
    kinds = Counter()
    with mp.get_context("fork").Pool(nproc) as pool:
        for fs, st, kd in pool.imap_unordered(_work, chunks()):
            for f in fs:
                s = f["signature"]
                if s not in findings:
                    findings[s] = f
                else:
                    findings[s]["count"] += f["count"]
                    # keep the shortest history as the representative
                    if len(f["history"]) < len(findings[s]["history"]):
                        f["count"] = findings[s]["count"]
                        findings[s] = f
            stats.update(st)
            kinds.update(kd)
    return findings, stats, kinds
