"""Shared engine of C05 (passes preserve what the model computes) and C14 (pass contract)."""

from __future__ import annotations

import json
import os
import re

import numpy as np
import onnx
import onnx_ir as ir

from . import irobs, passrun
from .common import NCPU, SPECS, MachineryError

RW = os.path.join(SPECS, "rewrite")


def _gen_corpus(ctx, max_nodes: int):
    src = open(os.path.join(RW, "RewriteMC.cfg")).read()
    src = re.sub(r"MaxNodes = \d+", f"MaxNodes = {max_nodes}", src)
    cfg = os.path.join(ctx.scratch, f"RewriteMC_{max_nodes}.cfg")
    open(cfg, "w").write(src)
    res = ctx.tlc(os.path.join(RW, "RewriteMC.tla"), cfg, tag=f"gen{max_nodes}", timeout=3000, deadlock=False)
    if not res.ok:
        raise MachineryError(f"program generator failed: {res.violated} {res.errors[:2]}\n{res.tail(20)}")
    return res


def run_engine(ctx, want: str) -> None:
    thorough = ctx.tier == "thorough"
    res = _gen_corpus(ctx, 2)
    cap = 12000 if thorough else 1500
    programs = passrun.load_programs(res.out_path, cap, ctx.seed)
    ctx.extra["corpus_generated"] = res.distinct
    os.unlink(res.out_path)
    if thorough:
        # three-node programs over a reduced catalogue: TLC enumerates all of them, a checksum-selected
        # (seed-dependent, scheduling-independent) sample is emitted and run
        src3 = open(os.path.join(RW, "RewriteMC_n3.cfg")).read()
        mod3 = int(re.search(r"SampleMod = (\d+)", src3).group(1))
        src3 = re.sub(r"SampleRes = \d+", f"SampleRes = {ctx.seed % mod3}", src3)
        cfg3 = os.path.join(ctx.scratch, "RewriteMC_n3_v.cfg")
        open(cfg3, "w").write(src3)
        res3 = ctx.tlc(os.path.join(RW, "RewriteMC.tla"), cfg3, tag="gen3", timeout=3000, deadlock=False)
        if not res3.ok:
            raise MachineryError(f"3-node program generator failed: {res3.violated} {res3.errors[:2]}")
        extra3 = passrun.load_programs(res3.out_path, None, ctx.seed)
        base = max(i for i, _ in programs) + 1
        programs += [(base + i, P) for i, P in extra3]
        ctx.extra["corpus_generated_3nodes"] = res3.distinct
        ctx.extra["corpus_used_3nodes"] = len(extra3)
        os.unlink(res3.out_path)
    ctx.extra["corpus_used"] = len(programs)

    pairs, apps, obs, witness_src = [], [], [], {}
    raised, invalid_after, bad_corpus = {}, {}, 0
    protos = {}
    for pid, r in passrun.run_corpus(programs, ctx.seed, nproc=NCPU):
        if r["bad_corpus"]:
            bad_corpus += 1
            continue
        pairs += r["pairs"]
        apps += r["apps"]
        obs += r["obs"]
        protos[pid] = r["proto"]
        witness_src.update(r["witness"])
        for x in r["raised"]:
            k = x["id"].split(":", 1)[1] + " :: " + re.sub(r"'[^']*'", "'..'", x["error"])[:80]
            raised.setdefault(k, []).append(x["id"])
        for x in r["invalid_after"]:
            invalid_after.setdefault(x["id"], x["error"])
        ctx.evaluations += len(r["apps"])
    if bad_corpus:
        raise MachineryError(f"{bad_corpus} generated programs could not be bound to a checker-valid model")
    ctx.replayed += len(programs)

    # ---- TLC judges the observed applications -----------------------------------------------------
    pair_res, app_res = _judge(ctx, pairs, apps, "validate")
    if len(pair_res) != len(pairs) or len(app_res) != len(apps):
        raise MachineryError(f"RewriteTrace judged {len(pair_res)}/{len(pairs)} pairs, {len(app_res)}/{len(apps)} applications")
    ctx.validated += len(pair_res) + len(app_res)
    ctx.extra["pairs_judged_by_tlc"] = len(pair_res)
    ctx.extra["applications_judged_by_tlc"] = len(app_res)
    ctx.extra["passes_raising_on_valid_models"] = {k: len(v) for k, v in sorted(raised.items())}
    for k in raised:
        ctx.note(f"pass raised on a checker-valid model: {k} ({len(raised[k])} cases, e.g. {raised[k][0]})")

    pname = lambda key: key.split(":", 1)[1]  # noqa: E731
    by_id = {p["id"]: p for p in pairs}

    if want == "C05":
        gaps = 0
        for key, (same_if, den_eq) in pair_res.items():
            ctx._distinct.add("pair|" + pname(key))
            if same_if and den_eq:
                continue
            pid = int(key.split(":", 1)[0])
            w = passrun.concrete_witness(protos[pid], witness_src[key], ctx.seed)
            if not w:
                gaps += 1       # denotations differ syntactically but no concrete difference: spec gap, not a verdict
                continue
            kind = sorted(w)[0]
            cause = _attr_cause(by_id[key]["before"], by_id[key]["after"])
            ctx.violation(f"C05:{pname(key)}:{kind}" + (f":{cause}" if cause else ""),
                          dict(program=_prog_of(programs, pid), program_id=pid, passes=pname(key), witness=w,
                               before=by_id[key]["before"], after=by_id[key]["after"],
                               message=f"{pname(key)} changed what the model computes ({w})"))
        for key, err in invalid_after.items():
            pid = int(key.split(":", 1)[0])
            short = re.sub(r"'[^']*'", "'..'", err)[:60]
            ctx.violation(f"C05:{pname(key)}:checker-rejects-after:{short}",
                          dict(program=_prog_of(programs, pid), program_id=pid, passes=pname(key), error=err,
                               message=f"model accepted by the ONNX checker before {pname(key)} is rejected after it: {err}"))
        ctx.extra["denotation_gaps_without_witness"] = gaps
        ctx.rule = ("TLC (RewriteMC) generates every abstract program with <=2 main-graph nodes over the catalogue (unary/binary/multi-output ops, optional "
                    "inputs, Identity, Constant forms, If with capturing bodies, function calls with/without attribute parameter, duplicate initializers, "
                    "outputs aliasing inputs); a seeded sample is concretised to checker-valid ONNX models; every built-in pass and six pass sequences are run "
                    "on fresh copies; before/after are abstracted back and TLC (RewriteTrace) evaluates interface preservation and Herbrand-denotation "
                    "equality; a violation needs a concrete witness as well (changed outputs on seeded inputs, arity/input change, or checker rejection). "
                    "distinct_nontrivial = passes/sequences that changed at least one program.")
        ctx.samples = [{"pair": pairs[0]["id"], "before_main": pairs[0]["before"]["g"][0], "after_main": pairs[0]["after"]["g"][0]}] if pairs else []
        ctx.assumptions = ["operator semantics are uninterpreted (Herbrand); concrete witnesses use onnx ReferenceEvaluator / onnxruntime",
                           "shape inference is judged for 'does not change computation', not for the correctness of inferred shapes",
                           "corpus bounded to 2 main-graph nodes (+ bodies / functions)"]
    else:
        # C14: contract clauses evaluated by TLC + C01 invariants evaluated by TLC on every result
        uniq = {}
        for key, o in obs:
            uniq.setdefault(json.dumps(o, sort_keys=True), []).append(key)
        states = [(i, json.loads(k)) for i, k in enumerate(uniq)]
        broken = irobs.tlc_check_states(ctx, states, tag="obs-after-pass")
        keys_by_i = list(uniq.values())
        ctx.validated += len(states)
        for i, names in broken.items():
            key = keys_by_i[i][0]
            ctx.violation(f"C14:{pname(key)}:invariants:" + "+".join(names),
                          dict(program=_prog_of(programs, int(key.split(':', 1)[0])), passes=pname(key),
                               message=f"after {pname(key)} the IR breaks {names} (evaluated by TLC on the observed model)"))
        # the library's own check of the Identity clause (PassBase.__call__) raising on a valid model: the pass object
        # broke the clause (it returned the input object although declared functional, or the other way round)
        for k, ids in raised.items():
            if "declared not in-place" in k or "declared in-place" in k:
                key = ids[0].split(":round")[0]
                pid = int(key.split(":", 1)[0])
                ctx.violation(f"C14:{pname(key)}:Identity:reported-by-the-pass-infrastructure",
                              dict(program=_prog_of(programs, pid), program_id=pid, passes=pname(key), cases=len(ids),
                                   message=f"{pname(key)} was stopped by the pass infrastructure's own identity check: {k}"))
        for key, clauses in app_res.items():
            single = "+" not in pname(key)      # a single pass; the pass manager (PM...) is a pass in its own right
            ctx._distinct.add("app|" + pname(key))
            for cl in clauses:
                if cl == "Fixpoint" and not single:
                    continue        # convergence is stated for passes, not for arbitrary compositions
                pid = int(key.split(":", 1)[0])
                a = next(x["a"] for x in apps if x["id"] == key)
                ctx.violation(f"C14:{pname(key)}:{cl}", dict(program=_prog_of(programs, pid), program_id=pid, passes=pname(key), application=a,
                                                             message=f"{pname(key)} breaks the {cl} clause of the pass contract: {a}"))
        _boundary_faults(ctx)
        ctx.rule = ("same corpus and pass applications as C05; for every application the harness records object identity, modified flag, byte-level "
                    "serialization change, re-application rounds (bounded by model size + 1), sortedness and naming facts; TLC (RewriteTrace) evaluates "
                    "Identity / FlagSound / Fixpoint / NoDamage / AnalysisOnly on every record and (ObsCheck) the C01 invariants on every resulting model; "
                    "PassContract.tla is model-checked for the ONNX call boundary with faults at every step and PassManager.tla for the combinators; the fault "
                    "positions of the boundary are replayed on real CheckerPass / ShapeInferencePass for every entry model TLC enumerates.")
        ctx.samples = [apps[0]] if apps else []
        ctx.assumptions = ["convergence is required of single passes (the statement says 'every built-in pass'), sequences are exempt",
                           "modified=False is compared against deterministic proto bytes"]
    ctx.exhaustive = False


TRACE_CHUNK_BYTES = 60_000_000     # JSON text per TLC run (one JVM each): the thorough corpus is several hundred MB


def _judge(ctx, pairs: list, apps: list, tag: str):
    """TLC (RewriteTrace) on the observed pairs and application records, in chunks; identical (before, after)
    abstractions are judged once.  Returns ({pair id: (sameInterface, denEqual)}, {app id: broken clauses})."""
    import hashlib

    body_of, first_of, uniq = {}, {}, []
    for p in pairs:
        body = json.dumps({"before": p["before"], "after": p["after"]}, sort_keys=True)
        h = hashlib.sha1(body.encode()).hexdigest()
        body_of[p["id"]] = h
        if h not in first_of:
            first_of[h] = p["id"]
            uniq.append(json.dumps(p))
    items = [("pairs", x) for x in uniq] + [("apps", json.dumps(a)) for a in apps]
    chunks, cur, size = [], {"pairs": [], "apps": []}, 0
    for kind, text in items:
        if size + len(text) > TRACE_CHUNK_BYTES and size:
            chunks.append(cur)
            cur, size = {"pairs": [], "apps": []}, 0
        cur[kind].append(text)
        size += len(text) + 2
    chunks.append(cur)
    got_pairs, app_res = {}, {}
    for n, ch in enumerate(chunks):
        tf = os.path.join(ctx.scratch, f"rewrite_trace_{tag}_{n}.json")
        with open(tf, "w") as f:
            f.write('{"pairs": [' + ", ".join(ch["pairs"]) + '], "apps": [' + ", ".join(ch["apps"]) + "]}")
        tr = ctx.tlc(os.path.join(RW, "RewriteTrace.tla"), os.path.join(RW, "RewriteTrace.cfg"), tag=f"{tag}-{n}",
                     env={"TRACE_FILE": tf}, workers=1, deadlock=False, timeout=3000)
        if tr.errors or tr.returncode != 0:
            raise MachineryError(f"RewriteTrace failed: {tr.errors[:2]}\n{tr.tail(25)}")
        for rec in tr.records():
            if isinstance(rec, list) and rec and rec[0] == "pair":
                got_pairs[rec[1]] = (rec[2], rec[3])
            elif isinstance(rec, list) and rec and rec[0] == "app":
                app_res[rec[1]] = rec[2]
        os.unlink(tf)
    ctx.extra["rewrite_trace_chunks"] = ctx.extra.get("rewrite_trace_chunks", 0) + len(chunks)
    ctx.extra["distinct_pairs_judged_by_tlc"] = ctx.extra.get("distinct_pairs_judged_by_tlc", 0) + len(uniq)
    pair_res = {pid: got_pairs[first_of[h]] for pid, h in body_of.items() if first_of[h] in got_pairs}
    return pair_res, app_res


def functionalize_stage(ctx, cap: int) -> None:
    """C13, last clause ("a functionalized pass never alters its input model"): functionalize() around every kind of
    pass object over a sample of the TLC-generated corpus; the clause Functionalized of RewriteTrace.tla is evaluated by
    TLC on every recorded application."""
    res = _gen_corpus(ctx, 2)
    programs = passrun.load_programs(res.out_path, cap, ctx.seed)
    os.unlink(res.out_path)
    apps = []
    for pid, r in passrun.run_corpus(programs, ctx.seed, nproc=NCPU, func_only=True):
        if r["bad_corpus"]:
            raise MachineryError("a generated program could not be bound to a checker-valid model")
        apps += [a for a in r["apps"] if a["a"]["funcTried"]]
    if not apps:
        raise MachineryError("functionalize stage: no application recorded")
    _none, app_res = _judge(ctx, [], apps, "functionalize")
    judged = 0
    for key, broken in app_res.items():
        if True:
            judged += 1
            if "Functionalized" in broken:
                a = next(x["a"] for x in apps if x["id"] == key)
                pid = int(key.split(":", 1)[0])
                ctx.violation(f"C13:functionalize:{key.split(':', 1)[1]}:" + ("input-altered" if not a["funcInputSame"] else "same-object"),
                              dict(kind="functionalize", program=_prog_of(programs, pid), program_id=pid, passes=key.split(":", 1)[1],
                                   application=a, message=f"functionalize({key.split(':', 1)[1]}) altered its input model or returned it: {a}"))
    if judged != len(apps):
        raise MachineryError(f"RewriteTrace judged {judged}/{len(apps)} functionalized applications")
    ctx.validated += judged
    ctx.extra["functionalized_applications_judged_by_tlc"] = judged
    ctx._distinct.update("functionalize|" + a["id"].split(":", 1)[1] for a in apps)


def _attr_cause(before: dict, after: dict) -> str:
    """Structural classification of a reported difference (signature detail only, the verdict is TLC's + the witness):
    operators whose attribute lists differ between the two abstractions, e.g. 'BatchNormalization.training_mode-dropped'."""
    def attrs(P):
        d = {}
        for g in P["g"]:
            for n in g["nodes"]:
                if not n["fn"] and n["op"] not in ("Constant", "If"):
                    d.setdefault(n["op"], []).append(tuple(sorted((a[0], str(a[1])) for a in n["attr"])))
        return d
    b, a = attrs(before), attrs(after)
    out = set()
    for op in sorted(set(b) & set(a)):
        import collections
        cb, ca = collections.Counter(b[op]), collections.Counter(a[op])
        if cb == ca:
            continue
        lost, gained = cb - ca, ca - cb
        nb = {k for t in lost for k, _ in t}
        na = {k for t in gained for k, _ in t}
        vb = {kv for t in lost for kv in t}
        va = {kv for t in gained for kv in t}
        for k in sorted(nb - na):
            out.add(f"{op}.{k}-dropped")
        for k in sorted(na - nb):
            out.add(f"{op}.{k}-added")
        for k in sorted(nb & na):
            if {v for kk, v in vb if kk == k} != {v for kk, v in va if kk == k}:
                out.add(f"{op}.{k}-changed")
    return "+".join(sorted(out))


def _prog_of(programs, pid):
    for i, P in programs:
        if i == pid:
            return P
    return None


# ---- C14: the ONNX call boundary with injected faults -------------------------------------------------
def _boundary_faults(ctx) -> None:
    pc_tla = os.path.join(RW, "PassContract.tla")
    res = ctx.tlc(pc_tla, os.path.join(RW, "PassContractMC.cfg"), tag="boundary", timeout=900, deadlock=False)
    if not res.ok:
        raise MachineryError(f"PassContract design check failed: {res.violated} {res.errors[:2]}\n{res.tail(20)}")
    pm = ctx.tlc(os.path.join(RW, "PassManager.tla"), os.path.join(RW, "PassManager.cfg"), tag="passmanager", timeout=300, deadlock=False)
    if not pm.ok:
        raise MachineryError(f"PassManager design check failed: {pm.violated} {pm.errors[:2]}")
    # entry models: every sequence of <= 3 initializers over kind x isInput x typed (same space as PassContract's CInit)
    import itertools

    kinds = [(k, i, t) for k in ("small", "big", "nodata") for i in (False, True) for t in (False, True)]
    entries = [()] + [(a,) for a in kinds] + list(itertools.product(kinds, repeat=2))
    if ctx.tier == "thorough":
        entries += list(itertools.product(kinds, repeat=3))
    n = 0
    for entry in entries:
        for pass_name in ("Checker", "ShapeInference"):
            for fault in ("none", "serialize", "call"):
                n += 1
                diff = _one_boundary_case(entry, pass_name, fault)
                ctx._distinct.add(f"boundary|{pass_name}|{fault}|{len(entry)}")
                if diff:
                    kinds_s = "+".join(sorted({e[0] for e in entry})) or "empty"
                    ctx.violation(f"C14:{pass_name}:boundary:{fault}:" + "+".join(sorted(diff)),
                                  dict(entry=[list(e) for e in entry], passes=pass_name, fault=fault, changed=diff,
                                       message=f"{pass_name} with fault '{fault}' at the ONNX boundary left the model changed: {diff} (entry initializers {kinds_s})"))
    ctx.evaluations += n
    ctx.extra["boundary_cases"] = n


def _snapshot(model):
    g = model.graph
    return {
        "inputs": [id(v) for v in g.inputs],
        "init_order": list(g.initializers.keys()),
        "init_objs": [id(v) for v in g.initializers.values()],
        "tensors": [id(v.const_value) if v.const_value is not None else None for v in _all_inits],
        "shapes": [None if v.shape is None else tuple(v.shape.dims) for v in _all_inits],
        "types": [None if v.type is None else str(v.type) for v in _all_inits],
        "flags": [(v.is_initializer(), v.is_graph_input()) for v in _all_inits],
    }


_all_inits: list = []


def _one_boundary_case(entry, pass_name: str, fault: str) -> list:
    import onnx_ir.passes.common as cp

    global _all_inits
    x = ir.Value(name="x", type=ir.TensorType(ir.DataType.FLOAT), shape=ir.Shape([2]))
    inputs, inits = [x], []
    for k, (kind, is_input, typed) in enumerate(entry):
        v = ir.Value(name=f"w{k}")
        if kind == "small":
            v.const_value = ir.Tensor(np.zeros(2, dtype=np.float32), name=f"w{k}")
        elif kind == "big":
            v.const_value = ir.Tensor(np.zeros(600, dtype=np.float32), name=f"w{k}")
        if typed:
            v.type = ir.TensorType(ir.DataType.FLOAT)
            v.shape = ir.Shape([2 if kind != "big" else 600])
        if is_input:
            inputs.append(v)
        inits.append(v)
    if fault == "serialize":
        def boom():
            raise RuntimeError("lazy tensor cannot be materialised")
        lz = ir.Value(name="lz", type=ir.TensorType(ir.DataType.FLOAT), shape=ir.Shape([2]))
        lz.const_value = ir.LazyTensor(boom, dtype=ir.DataType.FLOAT, shape=ir.Shape([2]), name="lz")
        inits.append(lz)
    node = ir.Node("", "Relu", [x], name="n")
    node.outputs[0].name = "y"
    node.outputs[0].type = ir.TensorType(ir.DataType.FLOAT)
    node.outputs[0].shape = ir.Shape([2])
    g = ir.Graph(inputs, [node.outputs[0]], nodes=[node], initializers=inits, opset_imports={"": 20}, name="g")
    model = ir.Model(g, ir_version=10)
    _all_inits = list(inits)
    before = _snapshot(model)
    p = cp.CheckerPass() if pass_name == "Checker" else cp.ShapeInferencePass()
    real_check, real_infer = onnx.checker.check_model, onnx.shape_inference.infer_shapes
    if fault == "call":
        def raising(*a, **k):
            raise RuntimeError("injected failure of the ONNX call")
        onnx.checker.check_model = raising
        onnx.shape_inference.infer_shapes = raising
    try:
        try:
            p(model)
        except Exception:  # noqa: BLE001 - the outcome of the pass is irrelevant, the model must be unchanged
            pass
    finally:
        onnx.checker.check_model, onnx.shape_inference.infer_shapes = real_check, real_infer
    after = _snapshot(model)
    diff = [k for k in before if before[k] != after[k]]
    if pass_name == "ShapeInference" and fault == "none":
        # a successful inference may legitimately add shapes/types
        diff = [k for k in diff if k not in ("shapes", "types")]
    return diff


def replay_detail(ctx, detail: dict, want: str) -> bool:
    """Re-run one recorded case on the current tree. True if it still violates."""
    if "entry" in detail:
        diff = _one_boundary_case(tuple(tuple(e) for e in detail["entry"]), detail["passes"], detail["fault"])
        print("changed after the pass:", diff)
        return bool(diff)
    P = detail["program"]
    names = detail["passes"].split("+")
    r = passrun.run_program(P, detail.get("program_id", 0), ctx.seed, pass_names=None, with_sequences=False) if False else None
    proto = passrun.rewrite.concretize(P, variant=passrun.variant_for(P, detail.get("program_id", 0)))
    model = ir.from_proto(onnx.load_from_string(proto.SerializeToString()))
    before = passrun.ser(model)
    passes = [passrun.PASSES[n]() for n in names]
    res = (passes[0] if len(passes) == 1 else ir.passes.Sequential(*passes))(model)
    after = passrun.ser(res.model)
    print("modified flag:", res.modified, "bytes changed:", after != before)
    if want == "C05":
        w = passrun.concrete_witness(proto.SerializeToString(), after, ctx.seed)
        print("witness:", w)
        return bool(w)
    bad = irobs.tlc_check_states(ctx, [(0, irobs.project_model(res.model))], tag="replay-obs")
    print("broken invariants:", bad)
    return bool(bad) or (not res.modified and after != before)
