"""Engine of check C11 (graph iteration stays well defined while the graph is edited).

  1. design level: LinkedSetMC.tla with the ghosts in the fingerprint and all invariants / action
     properties, exhaustively, partitioned by (initial situation, direction assignment) - one
     single-worker TLC per partition so that the depth bound is exact and the numbers reproducible;
     RecIterMC.tla the same way.
  2. specification -> code: every transition TLC explored (LinkedSetMC/RecIterMC, emit configuration)
     is replayed as a behaviour from the initial state into a real DoublyLinkedSet, a real ir.Graph
     and a real ir.Function (RecIter: real graphs under RecursiveGraphIterator) - see lsreplay.
  3. code -> specification: long random executions of the real structures validated by TLC against
     LinkedSetTrace.tla / RecIterTrace.tla, all invariants evaluated on the observed states.
  Every disagreement found in 2 is re-recorded as an observed trace and classified by TLC in 3:
  only a named clause of C11 is a violation; "div" is reported as a divergence note.
"""

from __future__ import annotations

import concurrent.futures as cf
import os
import re
import time

from . import lsdrive, lsreplay, lstrace, tlc
from .common import NCPU, SPECS, MachineryError

LS = os.path.join(SPECS, "list")

# clauses of C11 as named by the trace specifications -> text
CLAUSES = {
    "error": "iteration raised an error",
    "member": "a yielded node does not belong to the graph at the moment it is yielded",
    "twice": "a node was yielded twice although it was not touched in between (exactly once)",
    "before": "a node inserted before the current position was yielded",
    "order": "a node behind the current position was yielded (graph order)",
    "untouched-skipped": "a node present at the start and never touched was skipped",
    "after-skipped": "a node inserted after the current position was skipped",
    "seq": "the sequence after an edit is not the one the edit denotes (indexing/length/membership describe another sequence)",
}
NOT_VIOLATION = {"div", "edit-error"}
TRKEYS = ("k", "kind", "init", "dirs", "deps", "lo", "li", "d", "nelem", "seed")


def _cfg(scratch: str, template: str, name: str, **subst) -> str:
    src = open(os.path.join(LS, template)).read()
    for k, v in subst.items():
        src, n = re.subn(rf"^(\s*{k}\s*=\s*).*$", lambda m: m.group(1) + str(v), src, flags=re.M)
        if n != 1:
            raise MachineryError(f"{template}: cannot set {k}")
    path = os.path.join(scratch, name)
    with open(path, "w") as f:
        f.write(src)
    return path


def _set(xs) -> str:
    return "{" + ", ".join(str(x) if not isinstance(x, str) else f'"{x}"' for x in xs) + "}"


class Part:
    def __init__(self, tag, tla, template, consts, emit_family=None, nelem=3):
        self.tag, self.tla, self.template, self.consts = tag, tla, template, consts
        self.emit_family, self.nelem = emit_family, nelem
        self.res = None


def run_parts(ctx, parts, par, timeout):
    """Run the partitions, `par` single-worker TLCs at a time; account them in ctx."""

    def one(p: Part):
        cfg = _cfg(ctx.scratch, p.template, f"{p.tag}.cfg", **p.consts)
        for attempt in (1, 2, 3):
            r = tlc.run(os.path.join(LS, p.tla), cfg, ctx.scratch, tag=p.tag, workers=1, timeout=timeout,
                        deadlock=False, heap="3g")
            # a JVM terminated from outside (SIGTERM/SIGKILL, no TLC error, no timeout) is simply run again
            if r.returncode in (143, 137, -15, -9) and not r.timed_out and not r.errors and not r.violated:
                continue
            break
        return r

    with cf.ThreadPoolExecutor(par) as ex:
        futs = {ex.submit(one, p): p for p in parts}
        for fu in cf.as_completed(futs):
            futs[fu].res = fu.result()
    for p in parts:
        r = p.res
        ctx.states += r.distinct
        ctx.transitions += r.generated
        ctx.tlc_runs.append(dict(spec=f"specs/list/{p.tla}", cfg=p.template, tag=p.tag, consts=p.consts, distinct=r.distinct,
                                 generated=r.generated, depth=r.depth, wall_s=round(r.wall_s, 2), rc=r.returncode,
                                 violated=r.violated))
        if r.violated or r.errors or r.returncode != 0:
            # the DESIGN breaks its own properties: a specification bug, never a verdict on the code
            raise MachineryError(f"design check failed in partition {p.tag}: rc={r.returncode} violated={r.violated} errors={r.errors[:2]}\n"
                                 f"{r.error_trace()[:3000] or r.tail(25)}")


def plan(tier: str):
    """(prop partitions, emit partitions) for the tier.  One TLC process per direction assignment (and
    per family); every process is single-worker, so its breadth-first levels are exact depths."""
    prop, emit = [], []

    def ls(kind, tagp, nelem, ncur, inits, dirs, depth, pair, rej, maxbox, split_inits=False):
        groups = [[i] for i in inits] if split_inits else [list(inits)]
        for grp in groups:
            for d in dirs:
                consts = dict(NElem=nelem, MaxBox=maxbox, NCur=ncur, InitIds=_set(grp), DirIds=_set([d]), MaxDepth=depth,
                              PairMode=pair, WithRej="TRUE" if rej else "FALSE")
                tag = f"{tagp}-i{'_'.join(map(str, grp))}-d{d}"
                if kind == "prop":
                    prop.append(Part("p-" + tag, "LinkedSetMC.tla", "LinkedSetMC_prop.cfg", consts))
                elif kind == "both":
                    emit.append(Part("b-" + tag, "LinkedSetMC.tla", "LinkedSetMC_both.cfg", consts, "ls", nelem))
                else:
                    emit.append(Part("e-" + tag, "LinkedSetMC.tla", "LinkedSetMC_emit.cfg", consts, "ls", nelem))

    def rec(tagp, inits, depth, nelem=2, maxbox=10, split_inits=False):
        groups = [[i] for i in inits] if split_inits else [list(inits)]
        for grp in groups:
            for d in ("f", "b"):
                consts = dict(NElem=nelem, MaxBox=maxbox, InitIds=_set(grp), Dirs=_set([d]), MaxDepth=depth)
                emit.append(Part(f"r-{tagp}-i{'_'.join(map(str, grp))}-{d}", "RecIterMC.tla", "RecIterMC.cfg", consts, "rec", nelem))

    # "both" = all invariants and action properties with the ghosts in the fingerprint AND every explored
    # transition printed for the replay; "prop" = properties only (too many behaviours to replay them all)
    if tier == "quick":
        ls("both", "full1", 3, 1, [0, 1, 3], [0, 1], 3, 1, True, 9)       # whole alphabet incl. pairs and rejected calls
        ls("both", "core1", 3, 1, [3], [0, 1], 4, 0, False, 8)            # deeper around a cursor parked in the middle
        ls("prop", "core1", 3, 1, [2, 4], [0, 1], 4, 0, False, 8)         #   ... parked on the first / last node
        ls("both", "core2", 3, 2, [5, 6, 7], [0, 2], 3, 0, False, 8)      # two cursors, same / opposite directions
        ls("both", "full2", 3, 2, [5, 6, 7], [0, 2, 3], 2, 1, True, 8)
        rec("d3", [0, 1, 2, 3, 4], 3)
    else:
        ls("both", "full1", 3, 1, [1, 3], [0, 1], 4, 1, True, 10, split_inits=True)
        ls("both", "full1s", 3, 1, [0, 2, 4], [0, 1], 3, 1, True, 10)
        ls("both", "core1", 3, 1, [2, 3, 4], [0, 1], 5, 0, False, 10, split_inits=True)
        ls("both", "core2", 3, 2, [5, 6, 7], [0, 2, 3], 4, 0, False, 9, split_inits=True)
        ls("both", "full2", 3, 2, [5, 6, 7], [0, 2, 3], 3, 1, True, 10, split_inits=True)
        ls("both", "four1", 4, 1, [9], [0, 1], 3, 1, True, 12)
        ls("both", "four3", 4, 3, [10, 11], [0, 2, 3], 3, 0, False, 10, split_inits=True)
        rec("d4", [0, 1, 2, 3, 4], 4, split_inits=True)
        rec("n3", [2, 5], 3, nelem=3, maxbox=10, split_inits=True)
    return prop, emit


def _count_records(path: str) -> int:
    n = 0
    with open(path, "rb") as f:
        for line in f:
            if line.startswith(b'"{'):
                n += 1
    return n


def _validate(ctx, family, traces, tag):
    """Run the trace specification over `traces`; returns the parsed reports."""
    if not traces:
        return dict(acc=set(), nc={}, inv=[], obs=[])
    tf = os.path.join(ctx.scratch, f"{tag}.json")
    lstrace.write_traces(tf, traces)
    name = "LinkedSetTrace" if family == "ls" else "RecIterTrace"
    res = ctx.tlc(os.path.join(LS, name + ".tla"), os.path.join(LS, name + ".cfg"), tag=tag, env={"TRACE_FILE": tf},
                  deadlock=False, timeout=3000)
    if res.errors or res.returncode != 0 or res.violated:
        raise MachineryError(f"trace validation run {tag} failed: {res.violated} {res.errors[:2]}\n{res.tail(25)}")
    rep = lstrace.parse_reports(res)
    missing = set(range(1, len(traces) + 1)) - rep["acc"] - set(rep["nc"])
    if missing:
        raise MachineryError(f"trace validation {tag}: {len(missing)} traces neither accepted nor rejected")
    return rep


def _act_str(ev):
    return f"{ev[0]}({','.join(str(x) for x in ev[1:4])})"


def _report(ctx, rep, traces, source, div_total):
    """Turn the TLC reports over `traces` into violations / divergences."""
    for tid, (l, clause) in sorted(rep["nc"].items()):
        tr = traces[tid - 1]
        ev = tr["ev"][l - 1]
        kind = tr.get("k") or tr.get("kind")
        if clause in NOT_VIOLATION:
            sig = f"DIV:{kind}:{ev[0]}:{clause}"
            div_total[sig] = div_total.get(sig, 0) + 1
            if len(ctx.notes) < 20:
                ctx.note(f"divergence ({source}, {kind}): event {l} {ev[:7]} differs from the model without breaking a clause of C11")
            continue
        sig = f"C11:{clause}:{ev[0]}:{kind}"
        ctx.violation(sig, dict(cls="C11", source=source, family=tr.get("family", "rec" if "lo" in tr else "ls"), kind=kind,
                                clause=clause, trace={k: v for k, v in tr.items() if k in TRKEYS},
                                actions=[e[:4] for e in tr["ev"][:l]], observed=[e[4:9] for e in tr["ev"][:l]], event=l,
                                message=f"{kind}: after {[_act_str(e) for e in tr['ev'][:l - 1]]} the call {_act_str(ev)} gave {ev[4:7]}: "
                                        f"{CLAUSES.get(clause, clause)} (clause decided by TLC on the observed trace)"))
    first_obs: dict = {}
    for tid, l, names in rep["obs"]:         # a sequence that is described wrongly stays so: first event per trace
        if tid not in first_obs or l < first_obs[tid][0]:
            first_obs[tid] = (l, names)
    for tid, (l, names) in sorted(first_obs.items(), key=lambda kv: kv[1][0]):
        tr = traces[tid - 1]
        ev = tr["ev"][l - 1]
        if any(str(e[4]).startswith("err:StepTimeout") for e in tr["ev"][:l]):
            continue      # the object was abandoned after a call that never returned (reported as clause "error")
        kind = tr.get("k") or tr.get("kind")
        ctx.violation(f"C11:obs-{names[0]}:{kind}",
                      dict(cls="C11", source=source, kind=kind, clause="obs:" + "+".join(names),
                           trace={k: v for k, v in tr.items() if k in TRKEYS},
                           actions=[e[:4] for e in tr["ev"][:l]], observed=[e[4:] for e in tr["ev"][l - 1:l]], event=l,
                           message=f"{kind}: after event {l} {_act_str(ev)} len/indexing/membership do not describe the iterated sequence: {names} {ev[6:]}"))
    for tid, l, names in rep["inv"]:
        tr = traces[tid - 1]
        kind = tr.get("k") or tr.get("kind")
        ctx.violation(f"C11:inv-{'+'.join(names)}:{kind}",
                      dict(cls="C11", source=source, kind=kind, clause="inv:" + "+".join(names),
                           trace={k: v for k, v in tr.items() if k in TRKEYS},
                           actions=[e[:4] for e in tr["ev"][:l]], event=l,
                           message=f"{kind}: the observed state after event {l} (conforming so far) breaks {names} (evaluated by TLC)"))


def run(ctx) -> None:
    thorough = ctx.tier == "thorough"
    div_total: dict = {}
    prop, emit = plan(ctx.tier)
    par = max(2, min(NCPU, 16))

    # ---- 1. design level ----------------------------------------------------------------------
    t0 = time.time()
    # termination once edits stop, as a liveness property under weakly fair cursor steps (no depth bound:
    # a bounded number of edits, any number of steps); runs alongside the partitions
    live = [Part(f"live-d{d}", "LinkedSetLive.tla", "LinkedSetLive.cfg",
                 dict(NElem=3, MaxBox=3 + (3 if thorough else 2), NCur=2, MaxEdits=3 if thorough else 2, DirId=d))
            for d in ((0, 1, 2) if thorough else (2,))]
    run_parts(ctx, live + prop + emit, par, timeout=6000 if thorough else 900)
    ctx.extra["tlc_partitions"] = len(prop) + len(emit) + len(live)
    ctx.extra["tlc_wall_s"] = round(time.time() - t0, 1)

    # ---- 2. behaviours -> real code -------------------------------------------------------------
    t0 = time.time()
    keys_total, nontriv = {}, set()
    bad_ls, bad_rec = [], []
    nbeh = 0
    complete = True
    groups: dict = {}
    for p in emit:
        groups.setdefault((p.emit_family, p.nelem), []).append(p.res.out_path)
    cap_total = 1_500_000 if thorough else 700_000
    nlines = sum(_count_records(p.res.out_path) for p in emit)
    ctx.extra["behaviours_emitted"] = nlines
    cap = None
    if nlines > cap_total:                       # more behaviours than the tier replays: seeded sample of all files
        cap = cap_total / nlines
        complete = False
        ctx.note(f"{nlines} behaviours emitted by TLC, a seeded sample of about {cap_total} of them is replayed")
    for (family, nelem), paths in sorted(groups.items()):
        kinds = (lsdrive.KINDS if thorough else ("dls", "alt")) if family == "ls" else (0, 1)
        r = lsreplay.replay_files(paths, family, nelem, kinds, nproc=par, seed=ctx.seed, cap=cap)
        st = r["stats"]
        nbeh += st["behaviours"]
        ctx.replayed += st["behaviours"]
        ctx.evaluations += st["steps"]
        for k, v in r["keys"].items():
            keys_total[(family,) + tuple(k)] = keys_total.get((family,) + tuple(k), 0) + v
        nontriv |= {(family,) + tuple(k) for k in r["nontrivial"]}
        (bad_ls if family == "ls" else bad_rec).extend(r["bad"])
        if r["nbad"] > len(r["bad"]):
            ctx.note(f"{family}/{nelem}: {r['nbad']} behaviours disagree, the first {len(r['bad'])} are classified")
        for h in r["samples"]:
            if len(ctx.samples) < 3:
                ctx.samples.append({"kind": f"TLC behaviour ({family}, {nelem} elements) replayed into " + "/".join(map(str, kinds)),
                                    "history": h})
    ctx.extra["replay_wall_s"] = round(time.time() - t0, 1)
    ctx.extra["behaviours_replayed"] = nbeh
    for p in emit:
        try:
            os.unlink(p.res.out_path)
        except OSError:
            pass

    # ---- 3. real executions -> TLC -----------------------------------------------------------------
    t0 = time.time()
    nls = 900 if thorough else 210
    nrec = 300 if thorough else 60
    length = 60 if thorough else 40
    traces, rtraces = [], []
    for i in range(nls):
        if lsdrive._Lib.timeouts >= 5:        # calls that never return: enough recorded to report it
            ctx.note("trace recording stopped early: 5 public calls did not return")
            break
        with lsreplay.watchdog(2):
            traces.append(lstrace.record_ls(ctx.seed * 100003 + i, lsdrive.KINDS[i % 3], nelem=8, ncur=3, length=length))
    for i in range(nrec):
        if lsdrive._Lib.timeouts >= 5:
            break
        with lsreplay.watchdog(2):
            rtraces.append(lstrace.record_rec(ctx.seed * 100019 + i, nelem=4, length=30 if not thorough else 45))
    ctx.extra["trace_record_s"] = round(time.time() - t0, 1)
    # observed traces of the behaviours that disagreed in 2 are classified by the same specification
    obs_ls = [dict(k=b["kind"], family="ls", nelem=b["nelem"], init=b["init"], dirs=lsreplay.pad_dirs(b["dirs"]), ev=b["ev"]) for b in bad_ls]
    obs_rec = [dict(k=b["kind"], family="rec", nelem=b["nelem"], lo=b["lo"], li=b["li"], d=b["d"], ev=b["ev"]) for b in bad_rec]

    # (the short behaviours first: the first case of a signature is the one that is kept and printed)
    obs_ls.sort(key=lambda tr: len(tr["ev"]))
    obs_rec.sort(key=lambda tr: len(tr["ev"]))
    if obs_ls:
        _report(ctx, _validate(ctx, "ls", obs_ls, "classify-ls"), obs_ls, "replay", div_total)
    if obs_rec:
        _report(ctx, _validate(ctx, "rec", obs_rec, "classify-rec"), obs_rec, "replay", div_total)
    rep = _validate(ctx, "ls", traces, "trace-ls")
    ctx.validated += len(rep["acc"])
    _report(ctx, rep, traces, "recorded-trace", div_total)
    rrep = _validate(ctx, "rec", rtraces, "trace-rec")
    ctx.validated += len(rrep["acc"])
    _report(ctx, rrep, rtraces, "recorded-trace", div_total)
    ctx.evaluations += sum(len(t["ev"]) for t in traces) + sum(len(t["ev"]) for t in rtraces)
    ctx.extra["trace_wall_s"] = round(time.time() - t0, 1)

    # anti-vacuity: TLC's -coverage cannot be used on this specification (its cost-model construction does not
    # terminate on the operator-argument structure of LinkedSet.tla); instead every behaviour replayed is counted
    # by its last action and outcome (coverage.last_action_by_outcome) and must cover the whole alphabet
    # ---- accounting ---------------------------------------------------------------------------------
    for k in nontriv:
        ctx._distinct.add("|".join(map(str, k)))
    ctx.extra["action_classes_replayed"] = len(keys_total)
    ops: dict = {}
    for k, v in keys_total.items():          # (family, op, ..., outcome, ...): every action of the model, by outcome
        out = next((x for x in k[2:] if x in ("ok", "rej", "yield", "stop")), "?")
        ops[f"{k[0]}:{k[1]}:{out}"] = ops.get(f"{k[0]}:{k[1]}:{out}", 0) + v
    ctx.extra["last_action_by_outcome"] = dict(sorted(ops.items()))
    want = {f"ls:{op}:ok" for op in ("AP", "EX", "IA", "IB", "RM", "SO")} | {"ls:IA:rej", "ls:IB:rej", "ls:RM:rej", "ls:ST:yield", "ls:ST:stop",
            "rec:ST:yield", "rec:ST:stop", "rec:IA:ok", "rec:IB:ok", "rec:RM:ok", "rec:AP:ok", "rec:SO:ok"}
    if not ctx.violations and want - set(ops):
        raise MachineryError(f"replay did not exercise {sorted(want - set(ops))}")
    ctx.extra["divergences"] = div_total
    ctx.extra["traces_recorded"] = len(traces) + len(rtraces)
    ctx.extra["trace_events"] = sum(len(t["ev"]) for t in traces) + sum(len(t["ev"]) for t in rtraces)
    ctx.extra["replay_disagreements"] = len(bad_ls) + len(bad_rec)
    if len(ctx.samples) < 3 and traces:
        ctx.samples.append({"kind": f"recorded trace prefix ({traces[1]['k']}), validated by LinkedSetTrace.tla",
                            "init": traces[1]["init"], "dirs": traces[1]["dirs"], "events": [e[:7] for e in traces[1]["ev"][:10]]})
    ctx.rule = (
        "states/transitions: TLC totals over all partitions of LinkedSetMC/RecIterMC (prop + emit) and the trace runs. "
        "replayed = behaviours (one per transition TLC explored, run from the initial state) executed on real objects, each on "
        "DoublyLinkedSet + ir.Graph + ir.Function (RecIter: RecursiveGraphIterator and Graph.all_nodes); evaluations = real public "
        "calls compared or logged. distinct_nontrivial = distinct classes (last action, #new nodes, position of anchor/new node "
        "relative to the parked cursor: current/earlier/later/absent/cur-removed, outcome, cursors parked) among behaviours with an "
        "edit under a parked cursor or a step after such an edit."
    )
    ctx.exhaustive = complete and not div_total
    ctx.assumptions = [
        "small scope in the exhaustive part: <=4 elements, <=3 cursors, <=6 actions after the initial situation, <=12 boxes",
        "one list per LinkedSet state: moving a node between two graphs is remove + append (each covered), not a single action",
        "nodes are wired so that ascending ids is the only topological order in the exhaustive part (random wiring in the traces)",
        "an insertion into the gap left by a removed current node is not judged (C11 does not say on which side it lies)",
    ]


def replay_detail(ctx, detail: dict) -> bool:
    """Re-execute one recorded violation on the current tree and let TLC classify it again."""
    tr = dict(detail["trace"])
    acts = detail["actions"]
    if "lo" in tr:
        t = lsdrive.RecTarget(tr.get("nelem", 4), tr["lo"], tr["li"], tr["d"], via_all_nodes=str(tr.get("k")) == "rec1")
        ev = []
        for op, g, a, es in acts:
            o, lvl, y = t.apply(op, g, a, es)
            obs2 = t.observe2()
            es2 = obs2[1][0] if op == "SO" else []
            ev.append(lsreplay.event_rec(op, g, a, es, o, lvl, y, obs2, es2))
        traces = [dict(k=tr.get("k", "rec0"), lo=tr["lo"], li=tr["li"], d=tr["d"], ev=ev)]
        fam = "rec"
    else:
        kind = tr.get("k") or tr.get("kind")
        dirs = tr["dirs"]
        nelem = tr.get("nelem", 8)
        deps = {i + 1: ds for i, ds in enumerate(tr["deps"])} if tr.get("deps") else None
        t = lsdrive.make_target(kind, nelem, tr["init"], dirs, deps)
        ev = []
        for op, a, es, c in acts:
            o, y = t.apply(op, a, es, c)
            obs = t.observe()
            if op == "SO" and kind != "dls":
                es = [x for x in obs[0] if isinstance(x, int)]
            ev.append(lsreplay.event_ls(op, a, es, c, o, y, obs))
        traces = [dict(k=kind, init=tr["init"], dirs=lsreplay.pad_dirs(dirs), ev=ev)]
        fam = "ls"
    for e in traces[0]["ev"]:
        print(e[:7])
    rep = _validate(ctx, fam, traces, "replay")
    print("TLC:", {k: (sorted(v) if isinstance(v, set) else v) for k, v in rep.items()})
    bad = [c for (_l, c) in rep["nc"].values() if c not in NOT_VIOLATION]
    return bool(bad or rep["obs"] or rep["inv"])
