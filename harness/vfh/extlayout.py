"""C07 binding: configurations enumerated by TLC (specs/extdata/ExtLayoutMC) -> real models ->
ir.save / ir.save_safetensors -> ir.load -> observations that TLC evaluates (ExtLayoutTrace).

Nothing in this module decides a verdict: it builds the model a configuration describes, runs the
public API, and reports what it sees (location/offset/length of every loaded initializer, the data
files and their sizes, byte/metadata equality against the bytes the harness generated itself,
identity of ``value.const_value`` after save).  The formulas of the property are evaluated by TLC.
"""

from __future__ import annotations

import json
import logging
import os
import random
import shutil
import struct
import traceback

import numpy as np

SRC_FILE = "pre_ext.bin"  # the data file already-external initializers live in before the save
INJECTED = "c07-injected-failure"

# ---- kinds ------------------------------------------------------------------------------------------
# cycled (seeded) per initializer; "st" uses a 1-byte storage dtype throughout so that the
# safetensors serializer's canonical order (dtype, then name) coincides with the declaration order.
KINDS_RAW = ["array", "array-wide", "array-noname", "lazy", "lazy-cache", "packed4", "packed2", "sub4", "sub2",
             "proto", "proto-int32", "proto4", "external", "dup"]
KINDS_ST = ["array", "array-noname", "lazy", "lazy-cache", "packed4", "packed2", "sub4", "sub2",
            "proto", "proto-int32", "proto4", "external", "dup"]
WORKERS = [None, 1, 2, 3]


def _ir():
    import onnx_ir as ir

    return ir


def pack_bits(patterns: np.ndarray, bits: int) -> bytes:
    """Pack 2- or 4-bit patterns little-end first with zero padding (independent of onnx_ir)."""
    per = 8 // bits
    n = len(patterns)
    pad = (-n) % per
    p = np.concatenate([patterns.astype(np.uint8), np.zeros(pad, dtype=np.uint8)])
    out = np.zeros(len(p) // per, dtype=np.uint8)
    for k in range(per):
        out |= (p[k::per] & ((1 << bits) - 1)) << (bits * k)
    return out.tobytes()


def plan_case(case_id: int, c: dict, seed: int, names: dict, probe: dict | None = None) -> dict:
    """Everything that is not part of the configuration, chosen deterministically from (seed, id)."""
    rng = random.Random((seed * 1000003 + case_id * 7919 + 17) & 0xFFFFFFFF)
    n = len(c["sizes"])
    be = c["be"]
    kinds_all = KINDS_RAW if be == "raw" else KINDS_ST
    start = rng.randrange(len(kinds_all))
    step = rng.choice([1, 3, 5])
    kinds = []
    for i in range(n):
        k = kinds_all[(start + i * step) % len(kinds_all)]
        if k == "dup":
            js = [j for j in range(i) if c["sizes"][j] == c["sizes"][i] and kinds[j] not in ("dup",)]
            k = "dup:%d" % (rng.choice(js) + 1) if js else "array"
        kinds.append(k)
    # placement: main graph | then_branch | else_branch of an If node | then_branch of an If nested inside the
    # then_branch (two levels deep), contiguous (keeps declaration order)
    a = rng.randint(0, n)
    b = rng.randint(a, n)
    if rng.random() < 0.3:
        a = b = n
    e = rng.randint(b, n) if rng.random() < 0.5 else b
    # (graphs are visited depth first: the nested If of the then_branch comes before the else_branch)
    place = ["main"] * a + ["then"] * (b - a) + ["deep"] * (e - b) + ["else"] * (n - e)
    plan = {
        "id": case_id,
        "c": c,
        "kinds": kinds,
        "place": place,
        "model_nm": rng.randrange(1, len(names["st"]) + 1),
        "data_nm": rng.randrange(1, len(names["raw"]) + 1),
        "workers": rng.choice(WORKERS),
        "fail": 0,
        "vseed": rng.randrange(1 << 30),
        "names_desc": False,
    }
    # failure injection on ~1 case in 8: a LazyTensor whose function raises, or an unwritable model path
    if rng.random() < 0.125:
        cands = [i + 1 for i in range(n) if not kinds[i].startswith(("external", "dup"))
                 and not any(k == "dup:%d" % (i + 1) for k in kinds)]
        pick = rng.choice(cands + [n + 1])
        plan["fail"] = pick
        if pick <= n:
            kinds[pick - 1] = "lazy-fail"
    if probe:
        plan.update(probe)
    return plan


def _dtype_for(ir, kind: str, s: int, rng: random.Random, f4: bool = True):
    """(ir dtype, numpy dtype or None, shape, bits)"""
    DT = ir.DataType
    if kind in ("packed4", "sub4", "proto4"):
        # (safetensors stores FLOAT4E2M1 as F4, which the serializer sorts after the U8 tensors: only in a probe)
        dt = rng.choice([DT.UINT4, DT.INT4, DT.FLOAT4E2M1]) if kind != "proto4" and f4 else rng.choice([DT.UINT4, DT.INT4])
        nel = 0 if s == 0 else rng.choice([2 * s, 2 * s - 1])
        return dt, None, [nel], 4
    if kind in ("packed2", "sub2"):
        dt = rng.choice([DT.UINT2, DT.INT2])
        nel = 0 if s == 0 else rng.choice([4 * s, 4 * s - 1, 4 * s - 2, 4 * s - 3])
        return dt, None, [nel], 2
    if kind == "array-wide":
        import ml_dtypes

        cands = [(DT.INT8, np.int8), (DT.BOOL, np.bool_), (DT.FLOAT8E4M3FN, ml_dtypes.float8_e4m3fn)]
        if s % 2 == 0:
            cands += [(DT.FLOAT16, np.float16), (DT.BFLOAT16, ml_dtypes.bfloat16), (DT.UINT16, np.uint16)]
        if s % 4 == 0:
            cands += [(DT.FLOAT, np.float32), (DT.INT32, np.int32)]
        if s % 8 == 0:
            cands += [(DT.INT64, np.int64), (DT.DOUBLE, np.float64)]
        dt, npdt = rng.choice(cands)
        nel = s // np.dtype(npdt).itemsize
        shape = [nel]
        if nel % 2 == 0 and nel > 0 and rng.random() < 0.5:
            shape = [2, nel // 2]
        return dt, npdt, shape, 8 * np.dtype(npdt).itemsize
    shape = [s]
    if s == 0:
        shape = rng.choice([[0], [0, 3], [2, 0]])
    elif s % 3 == 0 and rng.random() < 0.3:
        shape = [3, s // 3]
    return DT.UINT8, np.uint8, shape, 8


class Built:
    """A real model for one plan + what the harness knows about each initializer."""

    def __init__(self):
        self.model = None
        self.values = []      # ir.Value per initializer (declaration order)
        self.objs = []        # the tensor object each value holds when save is called
        self.desc = []        # dicts: name, kind, dtype, shape, bytes, bits
        self.model_path = ""
        self.base_dir = ""
        self.data_rel = ""


def build(plan: dict, casedir: str, names: dict) -> Built:
    ir = _ir()
    import onnx

    c = plan["c"]
    be = c["be"]
    rng = random.Random(plan["vseed"])
    out = Built()
    model_rel = names["st"][plan["model_nm"]]["given"]
    out.model_path = os.path.join(casedir, model_rel)
    out.base_dir = os.path.dirname(out.model_path)
    os.makedirs(out.base_dir, exist_ok=True)
    out.data_rel = names["raw"][plan["data_nm"]]["given"]
    if be == "raw":
        os.makedirs(os.path.dirname(os.path.join(out.base_dir, out.data_rel)), exist_ok=True)

    n = len(c["sizes"])
    width = 2
    # where the already-external initializers live before the save: the model directory, or another one
    src_dir = os.path.join(casedir, "elsewhere") if plan.get("src_elsewhere") else out.base_dir
    src = bytearray(b"\xEE" * 7)  # the source file of already-external tensors: non-zero offsets, not page aligned
    ext_specs = []
    for i in range(n):
        s = c["sizes"][i]
        kind = plan["kinds"][i]
        rank = (n - 1 - i) if plan.get("names_desc") else i
        name = "t%0*d_%s" % (width, rank, kind.split(":")[0].replace("-", "_"))
        if kind.startswith("dup:"):
            j = int(kind[4:]) - 1
            d = dict(out.desc[j], name=name, kind="dup", dup_of=j)
            out.desc.append(d)
            out.objs.append(out.objs[j])
            continue
        dt, npdt, shape, bits = _dtype_for(ir, kind, s, rng, f4=(be == "raw" or bool(plan.get("force_f4"))))
        if plan.get("force_f4") and bits == 4:
            dt = ir.DataType.FLOAT4E2M1
        raw = rng.randbytes(s) if s else b""
        if bits < 8:
            nel = shape[0]
            pat = np.frombuffer(rng.randbytes(nel), dtype=np.uint8) & ((1 << bits) - 1) if nel else np.zeros(0, np.uint8)
            data = pack_bits(pat, bits)
            assert len(data) == s, (len(data), s, shape, bits)
        else:
            pat = None
            if npdt is np.bool_:
                raw = bytes(b & 1 for b in raw)
            data = raw
        d = {"name": name, "kind": kind, "dtype": dt.name, "shape": list(shape), "bytes": data, "bits": bits,
             "size": s}
        tname = None if kind == "array-noname" else name
        if kind in ("array", "array-wide", "array-noname"):
            arr = np.frombuffer(data, dtype=npdt).reshape(shape).copy()
            t = ir.Tensor(arr, dtype=dt, name=tname)
        elif kind in ("sub4", "sub2"):
            t = ir.Tensor(pat.copy(), dtype=dt, name=tname)
        elif kind in ("packed4", "packed2"):
            t = ir.PackedTensor(np.frombuffer(data, dtype=np.uint8).copy(), dt, shape=shape, name=tname)
        elif kind in ("lazy", "lazy-cache"):
            arr = np.frombuffer(data, dtype=np.uint8).reshape(shape).copy()

            def fn(arr=arr, nm=name):
                return ir.Tensor(arr, name=nm)

            t = ir.LazyTensor(fn, dtype=dt, shape=ir.Shape(shape), cache=(kind == "lazy-cache"), name=tname)
        elif kind == "lazy-fail":
            def bad():
                raise RuntimeError(INJECTED)

            t = ir.LazyTensor(bad, dtype=dt, shape=ir.Shape(shape), name=tname)
        elif kind in ("proto", "proto4"):
            tp = onnx.TensorProto(name=name, data_type=int(dt.value), dims=shape, raw_data=data)
            t = ir.serde.TensorProtoTensor(tp)
        elif kind == "proto-int32":
            tp = onnx.TensorProto(name=name, data_type=int(dt.value), dims=shape, int32_data=list(data))
            t = ir.serde.TensorProtoTensor(tp)
        elif kind == "external":
            off = len(src)
            src += data + b"\xEE" * 3
            t = ir.ExternalTensor(SRC_FILE, off, s, dt, shape=ir.Shape(shape), name=name, base_dir=src_dir)
            ext_specs.append(i)
        else:
            raise ValueError(kind)
        out.desc.append(d)
        out.objs.append(t)
    if ext_specs:
        os.makedirs(src_dir, exist_ok=True)
        with open(os.path.join(src_dir, SRC_FILE), "wb") as f:
            f.write(bytes(src) + b"\xEE" * 64)

    for i in range(n):
        d = out.desc[i]
        t = out.objs[i]
        v = ir.Value(name=d["name"], const_value=t, shape=ir.Shape(d["shape"]),
                     type=ir.TensorType(ir.DataType[d["dtype"]]))
        out.values.append(v)

    def branch(gname, vals, extra_nodes=()):
        o = ir.Value(name=gname + "_out", shape=ir.Shape([]), type=ir.TensorType(ir.DataType.FLOAT))
        node = ir.Node("", "Constant", [], attributes=[ir.AttrFloat32("value_float", 1.0)], outputs=[o], name=gname + "_c")
        return ir.Graph(inputs=[], outputs=[o], nodes=[node, *extra_nodes], initializers=vals, name=gname)

    # sibling scopes may repeat a name: the first initializer of the else / deep body takes the name of the first one
    # of the then body (raw backend only: safetensors entries are keyed by name)
    place = plan["place"]
    if plan["c"]["be"] == "raw" and plan["vseed"] % 3 == 0 and "then" in place:
        i_then = place.index("then")
        for other in ("else", "deep"):
            if other in place:
                j = place.index(other)
                if out.desc[j]["kind"].split(":")[0] in ("dup",) or out.desc[i_then]["kind"].split(":")[0] in ("dup",):
                    continue
                if any(dd.get("dup_of") in (i_then, j) for dd in out.desc):
                    continue
                try:
                    out.objs[j].name = out.desc[i_then]["name"]
                except Exception:  # noqa: BLE001 - a tensor kind whose name cannot be set
                    continue
                out.values[j].name = out.desc[i_then]["name"]
                out.desc[j]["name"] = out.desc[i_then]["name"]
    by = {"main": [], "then": [], "else": [], "deep": []}
    for i in range(n):
        by[plan["place"][i]].append(out.values[i])
    cond = ir.Value(name="cond", shape=ir.Shape([]), type=ir.TensorType(ir.DataType.BOOL))
    y = ir.Value(name="y", shape=ir.Shape([]), type=ir.TensorType(ir.DataType.FLOAT))
    inner = []
    if by["deep"]:
        # an If inside the then_branch (it captures cond from the main graph); its then_branch holds the deep initializers
        y2 = ir.Value(name="deep_y", shape=ir.Shape([]), type=ir.TensorType(ir.DataType.FLOAT))
        inner = [ir.Node("", "If", [cond], attributes=[ir.AttrGraph("then_branch", branch("deep_then_g", by["deep"])),
                                                      ir.AttrGraph("else_branch", branch("deep_else_g", []))],
                         outputs=[y2], name="if_deep")]
    ifn = ir.Node("", "If", [cond], attributes=[ir.AttrGraph("then_branch", branch("then_g", by["then"], inner)),
                                               ir.AttrGraph("else_branch", branch("else_g", by["else"]))],
                  outputs=[y], name="if0")
    g = ir.Graph(inputs=[cond], outputs=[y], nodes=[ifn], initializers=by["main"], name="main_g",
                 opset_imports={"": 20})
    out.model = ir.Model(g, ir_version=10)
    return out


class _ByPos(dict):
    """Initializers of a loaded model: by position in traversal order when the count matches the descriptions (names may
    repeat in sibling scopes), else by name."""

    def __init__(self, model, desc):
        super().__init__()
        seq = [v for g in model.graphs() for v in g.initializers.values()]
        self.pos = seq if len(seq) == len(desc) and [v.name for v in seq] == [d["name"] for d in desc] else None
        for v in seq:
            self.setdefault(v.name, v)

    def of(self, i, d):
        return self.pos[i] if self.pos is not None else self.get(d["name"])


def _innermost(exc: BaseException) -> str:
    """exception class @ innermost onnx_ir function (structural, stable part of a signature)."""
    fn = "?"
    for fr in traceback.extract_tb(exc.__traceback__):
        if os.sep + "onnx_ir" + os.sep in fr.filename:
            fn = fr.name
    return "%s@%s" % (type(exc).__name__, fn)


def _data_start(path: str) -> int:
    with open(path, "rb") as f:
        h = f.read(8)
    if len(h) < 8:
        return 0
    return 8 + struct.unpack("<Q", h)[0]


def _new_obs(case_id: int, c: dict, nmid: int, fail: int, mode: str = "", pre=None) -> dict:
    n = len(c["sizes"])
    return {"id": case_id, "c": c, "nmid": nmid, "fail": fail, "out": "returned", "refused": False, "same": [],
            "loaded": True, "ord": list(range(1, n + 1)), "files": [], "t": [], "index": False, "iname": "",
            "beq": [], "meta": [], "pre": list(pre or []), "mode": mode}


def _new_info(kinds) -> dict:
    return {"kinds": kinds, "exc": None, "berr": {}, "merr": {}, "lexc": None, "aux": []}


def _save(ir, model, model_path: str, c: dict, data_rel: str, workers) -> None:
    if c["be"] == "raw":
        kw = dict(external_data=data_rel, size_threshold_bytes=c["thr"], max_workers=workers)
        if c["lim"]:
            kw["max_shard_size_bytes"] = c["lim"]
        if c["al"]:
            kw["alignment"] = c["al"]
            kw["align_threshold"] = c["athr"]
        ir.save(model, model_path, **kw)
    else:
        kw = dict(size_threshold_bytes=c["thr"])
        if c["lim"]:
            kw["max_shard_size_bytes"] = c["lim"]
        ir.save_safetensors(model, model_path, **kw)


def _record_exc(obs: dict, info: dict, e: BaseException, fail: int, n: int) -> None:
    obs["out"] = "raised"
    obs["refused"] = isinstance(e, FileExistsError)
    info["exc"] = _innermost(e)
    info["exc_msg"] = str(e)[:200]
    chain, x = [], e
    while x is not None and len(chain) < 8:
        chain.append(x)
        x = x.__cause__ or x.__context__
    info["injected"] = any(INJECTED in str(x) for x in chain) or (
        fail == n + 1 and any(isinstance(x, OSError) for x in chain))


def _snapshot(base_dir: str) -> dict:
    """relative name -> (inode, mtime_ns, size) of every file below base_dir"""
    snap = {}
    for root, _dirs, fns in os.walk(base_dir):
        for fn in fns:
            p = os.path.join(root, fn)
            try:
                st = os.stat(p)
            except OSError:
                continue
            snap[os.path.relpath(p, base_dir).replace(os.sep, "/")] = (st.st_ino, st.st_mtime_ns, st.st_size)
    return snap


def _observe(ir, obs: dict, info: dict, model_path: str, desc: list, be: str, before: dict | None,
             not_data: set) -> None:
    """Load the saved model and fill in what is observed: files, per-initializer location/offset/length,
    byte and metadata equality against the ORIGINAL descriptions.  `before` (re-save): snapshot of the
    destination directory taken before the save - files that were neither written by this save nor are
    referenced by the loaded model are left-overs of earlier saves and are not reported."""
    n = len(desc)
    base_dir = os.path.dirname(model_path)
    try:
        lm = ir.load(model_path)
        loaded = _ByPos(lm, desc)
    except Exception as e:  # noqa: BLE001
        obs["loaded"] = False
        info["lexc"] = _innermost(e)
        return
    after = _snapshot(base_dir)
    referenced = set()
    for i0, d in enumerate(desc):
        lv = loaded.of(i0, d)
        lt = lv.const_value if lv is not None else None
        if isinstance(lt, ir.ExternalTensor):
            referenced.add(str(lt.location).replace(os.sep, "/"))
    files = []
    for rel in sorted(after):
        if rel in not_data or os.path.basename(rel) == SRC_FILE:
            continue
        fresh = before is None or rel not in before or before[rel] != after[rel]
        if rel.endswith(".index.json"):
            if fresh:
                obs["index"] = True
                obs["iname"] = rel
            continue
        if fresh or rel in referenced:
            files.append(rel)
    starts = {}
    for rel in files:
        p = os.path.join(base_dir, rel)
        st = _data_start(p) if be == "st" else 0
        starts[rel] = st
        obs["files"].append({"name": rel, "size": os.path.getsize(p) - st})
    if be == "st":
        # the serializer's canonical order: dtype (F4 sorts after U8, the only two storage dtypes used), then name
        order = sorted(range(n), key=lambda i: (1 if desc[i]["dtype"] == "FLOAT4E2M1" else 0, desc[i]["name"]))
        for r, i in enumerate(order):
            obs["ord"][i] = r + 1

    for i in range(n):
        d = desc[i]
        lv = loaded.of(i, d)
        lt = lv.const_value if lv is not None else None
        if lt is None:
            obs["t"].append({"loc": "", "o": 0, "l": 0})
            obs["beq"].append(False)
            obs["meta"].append(False)
            info["merr"][i] = "missing"
            continue
        if isinstance(lt, ir.ExternalTensor):
            loc = str(lt.location).replace(os.sep, "/")
            o = lt.offset or 0
            obs["t"].append({"loc": loc, "o": o - starts.get(loc, 0), "l": lt.length if lt.length is not None else -1})
        else:
            obs["t"].append({"loc": "", "o": 0, "l": 0})
        bad = []
        if lv.name != d["name"] or lt.name != d["name"]:
            bad.append("name")
        if lt.dtype.name != d["dtype"]:
            bad.append("dtype")
        try:
            shp = [int(x) for x in lt.shape.numpy()]
        except Exception:  # noqa: BLE001
            shp = None
        if shp != d["shape"]:
            bad.append("shape")
        obs["meta"].append(not bad)
        if bad:
            info["merr"][i] = "+".join(bad)
        try:
            b = lt.tobytes()
            ok = bytes(b) == d["bytes"]
            if not ok:
                info["berr"][i] = "mismatch"
        except Exception as e:  # noqa: BLE001
            ok = False
            info["berr"][i] = _innermost(e)
        obs["beq"].append(ok)
        # auxiliary: the numpy view agrees too (not part of the verdict)
        if ok:
            try:
                arr = np.asarray(lt.numpy())
                if d["bits"] >= 8:
                    same = arr.tobytes() == d["bytes"]
                else:
                    mask = (1 << d["bits"]) - 1
                    same = pack_bits(arr.reshape(-1).view(np.uint8) & mask, d["bits"]) == d["bytes"]
                if not same:
                    info["aux"].append("numpy-mismatch:%s:%s" % (d["kind"], d["dtype"]))
            except Exception as e:  # noqa: BLE001
                info["aux"].append("numpy-raised:%s:%s" % (d["dtype"], _innermost(e)))


def run_case(plan: dict, workdir: str, names: dict) -> list:
    """Execute one plan on the real library.  Returns [(observation for TLC, info for messages), ...]:
    one entry for the save+load of the plan, and one per step of its re-save chain (plan["chain"])."""
    ir = _ir()
    c = plan["c"]
    be = c["be"]
    n = len(c["sizes"])
    casedir = os.path.join(workdir, "c%d" % plan["id"])
    os.makedirs(casedir)
    obs = _new_obs(plan["id"], c, plan["data_nm"] if be == "raw" else plan["model_nm"], plan["fail"])
    info = _new_info(plan["kinds"])
    out = [(obs, info)]
    try:
        bm = build(plan, casedir, names)
        if plan["fail"] == n + 1:
            os.makedirs(bm.model_path)  # the model file cannot be written: onnx.save raises
        try:
            _save(ir, bm.model, bm.model_path, c, bm.data_rel, plan["workers"])
        except Exception as e:  # noqa: BLE001
            _record_exc(obs, info, e, plan["fail"], n)
        obs["same"] = [bm.values[i].const_value is bm.objs[i] for i in range(n)]
        if obs["out"] == "raised":
            return out
        model_files = {os.path.relpath(bm.model_path, bm.base_dir).replace(os.sep, "/")}
        _observe(ir, obs, info, bm.model_path, bm.desc, be, None, model_files)
        if plan.get("chain") and obs["loaded"]:
            out.extend(_run_chain(ir, plan, bm, casedir, names))
        return out
    finally:
        shutil.rmtree(casedir, ignore_errors=True)


def _run_chain(ir, plan: dict, bm: Built, casedir: str, names: dict) -> list:
    """Re-save scenarios: load what the previous step saved and save it again (in place / under other names in the
    same directory / into another directory) with another threshold; judged exactly like a first save, bytes
    compared with the ORIGINAL bytes."""
    c0 = plan["c"]
    be = c0["be"]
    n = len(c0["sizes"])
    res = []
    prev_model, prev_data_nm, prev_model_nm = bm.model_path, plan["data_nm"], plan["model_nm"]
    model_paths = {os.path.abspath(bm.model_path)}
    for k, stp in enumerate(plan["chain"], start=1):
        c = dict(c0, thr=stp["thr"], lim=stp["lim"])
        mode = stp["mode"]
        if mode == "inplace":
            model_path, data_nm, model_nm = prev_model, prev_data_nm, prev_model_nm
        else:
            model_nm, data_nm = stp["model_nm"], stp["data_nm"]
            rel = names["st"][model_nm]["given"]
            top = os.path.join(casedir, "moved%d" % k) if mode == "otherdir" else casedir
            model_path = os.path.join(top, rel)
            if mode == "samedir":
                # same directory as the previous model: keep its directory part, change the file name
                model_path = os.path.join(os.path.dirname(prev_model), os.path.basename(rel))
        base_dir = os.path.dirname(model_path)
        data_rel = names["raw"][data_nm]["given"]
        os.makedirs(base_dir, exist_ok=True)
        if be == "raw":
            os.makedirs(os.path.dirname(os.path.join(base_dir, data_rel)), exist_ok=True)
        model_paths.add(os.path.abspath(model_path))
        before = _snapshot(base_dir)
        not_data = {os.path.relpath(p, base_dir).replace(os.sep, "/") for p in model_paths
                    if os.path.abspath(p).startswith(os.path.abspath(base_dir) + os.sep)}
        obs = _new_obs(plan["id"] + k, c, data_nm if be == "raw" else model_nm, 0, mode=mode,
                       pre=sorted(x for x in before if x not in not_data))
        info = _new_info(["loaded"] * n)
        info["step"] = k
        res.append((obs, info))
        try:
            m = ir.load(prev_model)
            vals = _ByPos(m, bm.desc)
            held = [vals.of(i0, d) for i0, d in enumerate(bm.desc)]
            objs = [v.const_value for v in held]
        except Exception as e:  # noqa: BLE001
            obs["loaded"] = False
            info["lexc"] = _innermost(e)
            break
        info["kinds"] = ["loaded-external" if isinstance(t, ir.ExternalTensor) else "loaded-inline" for t in objs]
        try:
            _save(ir, m, model_path, c, data_rel, stp["workers"])
        except Exception as e:  # noqa: BLE001
            _record_exc(obs, info, e, 0, n)
        obs["same"] = [held[i].const_value is objs[i] for i in range(n)]
        if obs["out"] == "raised":
            if obs["refused"]:
                continue          # nothing was touched: the chain goes on from the same files
            break
        _observe(ir, obs, info, model_path, bm.desc, be, before, not_data)
        if not obs["loaded"] or not all(obs["beq"]):
            break             # later steps would only repeat the damage
        # auxiliary (not part of the verdict): the tensor objects the model holds again after an in-place save
        if mode == "inplace" and be == "raw":
            for i, t in enumerate(objs):
                if isinstance(t, ir.ExternalTensor) and t.valid():
                    try:
                        if bytes(t.tobytes()) != bm.desc[i]["bytes"]:
                            info["aux"].append("restored-external-tensor-still-valid-but-reads-other-bytes-after-inplace-save")
                            break
                    except Exception:  # noqa: BLE001
                        pass
        prev_model, prev_data_nm, prev_model_nm = model_path, data_nm, model_nm
    return res


def run_batch(task: dict) -> dict:
    """Worker entry point (multiprocessing): a list of plans -> observations."""
    logging.disable(logging.WARNING)
    names = task["names"]
    os.makedirs(task["workdir"], exist_ok=True)
    obs_l, info_l = [], {}
    err = None
    for plan in task["plans"]:
        try:
            results = run_case(plan, task["workdir"], names)
        except Exception:  # noqa: BLE001  (the harness itself failed: machinery, not a verdict)
            err = "case %s: %s" % (plan["id"], traceback.format_exc()[-1500:])
            break
        for obs, info in results:
            obs_l.append(obs)
            if (info["exc"] and not info.get("injected")) or info["berr"] or info["merr"] or info["lexc"] or info["aux"] \
                    or (obs["out"] == "raised") or not all(obs["same"]) or obs["mode"]:
                info_l[obs["id"]] = info
    return {"obs": obs_l, "info": info_l, "error": err}


# ---- reading the TLC enumeration --------------------------------------------------------------------
CKEYS = ("be", "sizes", "thr", "al", "athr", "lim")


def ckey(c: dict) -> tuple:
    return (c["be"], tuple(c["sizes"]), c["thr"], c["al"], c["athr"], c["lim"])


def cdict(k: tuple) -> dict:
    return {"be": k[0], "sizes": list(k[1]), "thr": k[2], "al": k[3], "athr": k[4], "lim": k[5]}


def parse_mc(out_path: str) -> tuple[list, dict]:
    """Stream the TLC output: -> (sorted list of (configuration key, layout as compact JSON), name table).
    The case id of a configuration is its rank in this list + 1 (TLC prints in no fixed order)."""
    cfgs, names = {}, {"raw": {}, "st": {}}
    with open(out_path, "r", errors="replace") as f:
        for line in f:
            if not line.startswith('"'):
                continue
            try:
                inner = json.loads(line)
                r = json.loads(inner)
            except ValueError:
                continue
            if "nm" in r:
                nm = r["nm"]
                e = names[nm["k"]].setdefault(nm["id"], {"given": nm["given"], "index": nm["index"], "by_n": {}})
                e["by_n"][nm["n"]] = nm["names"]
            elif "c" in r:
                cfgs[ckey(r["c"])] = json.dumps(r["L"], separators=(",", ":"), sort_keys=True)
    items = sorted(cfgs.items(), key=lambda kv: (len(kv[0][1]), kv[0]))
    return items, names


def expected_equal(obs: dict, L: dict, names: dict) -> bool:
    """Plain data equality between an observation and the layout TLC printed (no re-computation)."""
    if obs["out"] != "returned" or not obs["loaded"]:
        return False
    be = obs["c"]["be"]
    nf = L["nf"]
    if len(obs["files"]) != nf or [f["size"] for f in obs["files"]] != list(L["fsize"]):
        return False
    exp_names = names[be][obs["nmid"]]["by_n"].get(nf) if nf else []
    if exp_names is None or [f["name"] for f in obs["files"]] != list(exp_names):
        return False
    if bool(obs["index"]) != bool(L["index"]):
        return False
    for t, e in zip(obs["t"], L["t"]):
        if e["f"] == 0:
            if t["loc"] != "":
                return False
        else:
            if t["loc"] != exp_names[e["f"] - 1] or t["o"] != e["o"] or t["l"] != e["l"]:
                return False
    return len(obs["t"]) == len(L["t"])
