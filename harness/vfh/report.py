"""Check context: accumulates coverage, classifies violations against known findings,
writes evidence and replay files, and turns the outcome into the interface's exit code."""

from __future__ import annotations

import fnmatch
import hashlib
import json
import os
import time

from . import tlc as _tlc
from .common import EVIDENCE, KNOWN_FINDINGS, REPLAYS, MachineryError, jdump


def load_known(pid: str) -> list:
    if not os.path.exists(KNOWN_FINDINGS):
        return []
    with open(KNOWN_FINDINGS) as f:
        data = json.load(f)
    return [e for e in data.get("findings", []) if e.get("property") == pid and e.get("status") == "known"]


class Ctx:
    def __init__(self, pid: str, tier: str, seed: int, scratch: str, level: str = "model_checking"):
        self.pid, self.tier, self.seed, self.scratch, self.level = pid, tier, seed, scratch, level
        self.t0 = time.time()
        self.states = 0
        self.transitions = 0
        self.tlc_runs: list = []
        self.replayed = 0          # spec behaviours replayed into the implementation
        self.validated = 0         # implementation traces accepted by the trace spec
        self.evaluations = 0
        self._distinct: set = set()
        self.samples: list = []
        self.violations: dict = {}   # signature -> detail (new)
        self.known_hits: dict = {}   # signature -> entry
        self.known = load_known(pid)
        self.extra: dict = {}
        self.assumptions: list = []
        self.rule = ""
        self.exhaustive = False
        self.notes: list = []

    # ---- TLC ---------------------------------------------------------------------------
    def tlc(self, tla, cfg, *, tag, count=True, **kw):
        res = _tlc.run(tla, cfg, self.scratch, tag=tag, **kw)
        if count:
            self.states += res.distinct
            self.transitions += res.generated
        self.tlc_runs.append(
            {
                "spec": os.path.relpath(tla, os.path.dirname(os.path.dirname(EVIDENCE))),
                "cfg": os.path.basename(cfg),
                "tag": tag,
                "distinct": res.distinct,
                "generated": res.generated,
                "depth": res.depth,
                "wall_s": round(res.wall_s, 2),
                "rc": res.returncode,
                "violated": res.violated,
            }
        )
        return res

    # ---- coverage ----------------------------------------------------------------------
    def case(self, key=None, nontrivial: bool = False, sample=None, n: int = 1) -> None:
        self.evaluations += n
        if nontrivial and key is not None:
            self._distinct.add(key if isinstance(key, (str, int, tuple)) else jdump(key))
        if sample is not None and len(self.samples) < 3:
            self.samples.append(sample)

    # ---- verdicts ----------------------------------------------------------------------
    def violation(self, signature: str, detail: dict) -> bool:
        """Record a violation. Returns True if it is new (not a listed known finding)."""
        for e in self.known:
            if fnmatch.fnmatchcase(signature, e["signature"]):
                if e["signature"] not in self.known_hits:
                    self.known_hits[e["signature"]] = dict(e, first_case=detail)
                return False
        if signature not in self.violations:
            self.violations[signature] = detail
        return True

    def note(self, msg: str) -> None:
        self.notes.append(msg)

    # ---- finish ------------------------------------------------------------------------
    def finish(self) -> int:
        os.makedirs(EVIDENCE, exist_ok=True)
        wall = time.time() - self.t0
        cov = {
            "states": int(self.states),
            "transitions": int(self.transitions),
            "traces_validated_against_impl": int(self.replayed + self.validated),
            "spec_behaviours_replayed_into_impl": int(self.replayed),
            "impl_traces_accepted_by_trace_spec": int(self.validated),
            "evaluations": int(self.evaluations),
            "distinct_nontrivial": len(self._distinct),
            "rule": self.rule,
            "samples": self.samples if self.samples else ["(no sample recorded)"],
            "exhaustive": bool(self.exhaustive),
            "tlc_runs": self.tlc_runs,
            "known_findings_hit": sorted(self.known_hits),
            "notes": self.notes,
        }
        cov.update(self.extra)
        ev = {
            "property_id": self.pid,
            "tier": self.tier,
            "seed": int(self.seed),
            "level": self.level,
            "coverage": cov,
            "assumptions": self.assumptions,
            "wall_s": round(wall, 2),
            "violations": len(self.violations),
        }
        with open(os.path.join(EVIDENCE, f"{self.pid}.json"), "w") as f:
            json.dump(ev, f, indent=1, sort_keys=True, default=str)
            f.write("\n")
        for sig, e in sorted(self.known_hits.items()):
            print(f"KNOWN-FINDING: property={self.pid} {e.get('what', sig)} [signature={sig}]", flush=True)
        rc = 0
        for sig, detail in sorted(self.violations.items()):
            path = write_replay(self.pid, sig, detail, self.tier, self.seed)
            print(f"  violation signature: {sig}", flush=True)
            msg = detail.get("message") if isinstance(detail, dict) else None
            if msg:
                print(f"  {msg}", flush=True)
            print(f"VIOLATION property={self.pid} replay={path}", flush=True)
            rc = 1
        print(
            f"[{self.pid}] tier={self.tier} seed={self.seed} states={self.states} transitions={self.transitions} "
            f"replayed={self.replayed} validated={self.validated} evaluations={self.evaluations} "
            f"distinct_nontrivial={len(self._distinct)} violations={len(self.violations)} "
            f"known={len(self.known_hits)} wall={wall:.1f}s",
            flush=True,
        )
        return rc


def write_replay(pid: str, sig: str, detail, tier: str, seed: int) -> str:
    d = os.path.join(REPLAYS, pid)
    os.makedirs(d, exist_ok=True)
    h = hashlib.sha1(sig.encode()).hexdigest()[:12]
    path = os.path.join(d, f"{h}.json")
    with open(path, "w") as f:
        json.dump(
            {"property": pid, "signature": sig, "tier": tier, "seed": seed, "detail": detail},
            f,
            indent=1,
            default=str,
        )
        f.write("\n")
    return path


__all__ = ["Ctx", "MachineryError", "write_replay"]
