"""C12 engine: TLC enumerates / randomly generates TopoSort instances together with the result the
specification prescribes; every instance is rebuilt with real onnx_ir objects and sorted through
Graph.sort / Function.sort / TopologicalSortPass; observed results go back to TLC (TopoSortTrace),
which evaluates the clauses of the property on them.  The verdict is TLC's."""

from __future__ import annotations

import concurrent.futures
import itertools
import json
import multiprocessing
import os
import random
import subprocess
import sys

from . import topobuild as tb
from .common import NCPU, SPECS, MachineryError

SORT = os.path.join(SPECS, "sort")
MC = os.path.join(SORT, "TopoSortMC.tla")
STEPS = os.path.join(SORT, "TopoSortSteps.tla")
TRACE = os.path.join(SORT, "TopoSortTrace.tla")

MAX_JUDGED_THOROUGH = 30000
MAX_JUDGED_QUICK = 3000        # observations sent to one trace-validation campaign
OBS_PER_TLC = 15000       # observations per TLC start


def _cfg(name):
    return os.path.join(SORT, name)


def _require(res, what):
    if res.ok:
        return
    if res.violated:
        raise MachineryError(
            f"the specification itself fails {res.violated} in {what} (a theorem about SortedAt does not hold): "
            f"\n{res.error_trace()[:3000]}"
        )
    raise MachineryError(f"TLC failed for {what}: rc={res.returncode} errors={res.errors[:3]}\n{res.tail(25)}")


def _emitted_lines(res):
    with open(res.out_path, "r", errors="replace") as f:
        for line in f:
            if line.startswith('"['):
                yield line


def _chunks(lines, size, start=0):
    it = enumerate(lines, start)
    while True:
        chunk = list(itertools.islice(it, size))
        if not chunk:
            return
        yield chunk


class Campaign:
    """Accumulates what the replay workers return."""

    def __init__(self, ctx):
        self.ctx = ctx
        self.cap = MAX_JUDGED_QUICK if ctx.tier == 'quick' else MAX_JUDGED_THOROUGH
        self.instances = 0
        self.runs = 0
        self.mismatch = []      # [inst, r, runs, origin]
        self.sample = []
        self.history = []       # sort -> rewire -> sort again on the same objects: [inst2, r, runs, origin]
        self.keys = set()
        self.nontrivial = 0
        self.c14 = {"changed": 0, "flag_false_but_changed": 0, "flag_true_unchanged": 0, "sub_only_false": 0, "example": None}
        self.per_source = {}

    def absorb(self, out, source, shuffle_inputs):
        self.instances += out["instances"]
        self.runs += out["runs"]
        self.keys |= out["keys"]
        self.nontrivial += out["nontrivial"]
        for m in out["mismatch"]:
            if len(self.mismatch) < self.cap:
                self.mismatch.append(m + [{"source": source, "shuffle_inputs": shuffle_inputs}])
        for m in out["sample"]:
            self.sample.append(m + [{"source": source, "shuffle_inputs": shuffle_inputs}])
        for m in out.get("history", []):
            self.history.append(m[:3] + [{"source": source, "shuffle_inputs": shuffle_inputs, "history_of": m[3]["history_of"]}])
        for k in ("changed", "flag_false_but_changed", "flag_true_unchanged", "sub_only_false"):
            self.c14[k] += out["c14"][k]
        ex = out["c14"]["example"]
        if ex is not None and (self.c14["example"] is None or len(ex["inst"][0]) < len(self.c14["example"]["inst"][0])):
            self.c14["example"] = ex
        if out["errors"]:
            raise MachineryError("binding failed: " + out["errors"][0])
        s = self.per_source.setdefault(source, {"instances": 0, "runs": 0})
        s["instances"] += out["instances"]
        s["runs"] += out["runs"]


def _replay_emitted(ctx, camp, res, source, pool, mode, shuffle_inputs, sample_every, keep_lines=None):
    jobs = (
        (chunk, ctx.seed, mode, shuffle_inputs, sample_every, 40)
        for chunk in _chunks(_emitted_lines(res), 300)
    )
    n0 = camp.instances
    for out in pool.imap_unordered(tb.process_lines, jobs):
        camp.absorb(out, source, shuffle_inputs)
    if keep_lines is not None:
        for i, line in enumerate(_emitted_lines(res)):
            if i % keep_lines[0] == 0:
                keep_lines[1].append(line)
    return camp.instances - n0


# ---------------------------------------------------------------------------------------------
def judge(ctx, observations, tag):
    """observations: list of [inst, r, runs] ; returns list of verdict dicts (same order)."""
    verdicts = [None] * len(observations)
    for b0 in range(0, len(observations), OBS_PER_TLC):
        batch = observations[b0 : b0 + OBS_PER_TLC]
        path = os.path.join(ctx.scratch, f"obs-{tag}-{b0}.json")
        with open(path, "w") as f:
            json.dump({"obs": [o[0] + [o[1], o[2]] for o in batch]}, f, separators=(",", ":"))
        res = ctx.tlc(TRACE, _cfg("TopoSortTrace.cfg"), tag=f"trace-{tag}-{b0}", env={"OBS_FILE": path},
                      deadlock=False, timeout=1800)
        if not res.ok:
            raise MachineryError(f"trace validation run failed: {res.errors[:3]}\n{res.tail(25)}")
        got = 0
        for rec in res.records():
            if not (isinstance(rec, list) and rec and rec[0] == "v"):
                continue
            _, oid, wf, determ, failed, conf = rec
            verdicts[b0 + oid - 1] = {"wf": wf, "determ": determ, "failed": failed, "conf": conf}
            got += 1
        if got != len(batch):
            raise MachineryError(f"trace validation judged {got} of {len(batch)} observations\n{res.tail(25)}")
    return verdicts


def _shape_class(inst):
    gOf, owner = inst[0], inst[1]
    if len(owner) == 1:
        return "flat"
    if any(owner[g] and gOf[owner[g] - 1] != 1 for g in range(1, len(owner))):
        return "nested2"
    return "nested1"


def report(ctx, observations, verdicts, origin_default="replay"):
    """Turn TLC's verdicts into violations / divergences.  Smallest instances first so that the
    detail kept for a signature is a minimal one."""
    order = sorted(range(len(observations)), key=lambda i: (len(observations[i][0][0]), len(observations[i][0][1]), i))
    accepted = 0
    div = 0
    for i in order:
        inst, r, runs = observations[i][:3]
        meta = observations[i][3] if len(observations[i]) > 3 else {}
        v = verdicts[i]
        if not v["wf"]:
            raise MachineryError(f"TLC says the replayed instance is not well formed: {inst}")
        any_fail = False
        for j, run in enumerate(runs):
            api, runidx, out, after = run
            clauses = list(v["failed"][j])
            if len(clauses) > 1 and "ExceptionType" in clauses:
                clauses.remove("ExceptionType")      # already reported through the clause it breaks
            if clauses and out not in ("ok", "ValueError"):
                # one signature for "sort raised something that is not ValueError"; clauses in the detail
                clauses = ["+".join(clauses)]
            for clause in clauses:
                any_fail = True
                outc = out if out in ("ok", "ValueError") else out.replace("other:", "raise-")
                feat = meta.get("feature")
                who = f"feature-{feat}" if feat else ("sorted-again-after-rewiring" if meta.get("history_of") else api.split("@")[0])
                if out not in ("ok", "ValueError"):
                    sig = f"C12:{who}:{outc}" + ("" if feat else f":{_shape_class(inst)}")
                elif feat:
                    sig = f"C12:{clause}:{who}:{outc}"
                else:
                    sig = f"C12:{clause}:{who}:{outc}:{_shape_class(inst)}"
                ctx.violation(sig, {
                    "message": f"{clause} violated by {api} on instance gOf={inst[0]} owner={inst[1]} order={inst[2]} ins={inst[3]} "
                               f"start graph {r}: outcome {out}, orders after {after}",
                    "inst": inst, "r": r, "api": api, "run": runidx, "observed": [out, after], "failed": v["failed"][j],
                    "seed": ctx.seed, "meta": meta,
                })
        if not v["determ"]:
            any_fail = True
            ctx.violation(f"C12:Determ:{_shape_class(inst)}", {
                "message": f"two executions on the same structure and order gave different results: {runs} for instance {inst} start graph {r}",
                "inst": inst, "r": r, "runs": runs, "seed": ctx.seed, "meta": meta, "api": "determ",
            })
        if not any_fail:
            accepted += 1
            if not all(v["conf"]):
                div += 1
                if div <= 5:
                    ctx.note(f"divergence (property holds, result differs from SortedAt): inst={inst} r={r} runs={runs}")
    return accepted, div


# ---------------------------------------------------------------------------------------------
def _hashseed_runs(ctx, lines, n_items, shuffle_inputs=False):
    """Re-execute a sample in fresh interpreters with other PYTHONHASHSEEDs; returns observations whose
    result differs from the specification's (to be judged), and the number of executions."""
    rng = random.Random(ctx.seed ^ 0x5EED)
    picks = lines if len(lines) <= n_items else rng.sample(lines, n_items)
    items, expect = [], []
    for line in picks:
        rec = json.loads(json.loads(line))
        inst, res = rec[:4], rec[4]
        for r in range(1, len(res) + 1):
            api = "graph" if r > 1 else rng.choice(tb.APIS_ROOT)
            items.append([inst, r, api, tb.variant_of(ctx.seed, inst, 7), shuffle_inputs])
            expect.append(tb.expected_of(inst, res[r - 1]))
    total = 0
    procs = []
    for hs in ("1", "31337"):
        jin = os.path.join(ctx.scratch, f"hs-{hs}-in.json")
        jout = os.path.join(ctx.scratch, f"hs-{hs}-out.json")
        with open(jin, "w") as f:
            json.dump({"items": items}, f)
        env = dict(os.environ, PYTHONHASHSEED=hs)
        procs.append((hs, jout, subprocess.Popen([sys.executable, "-m", "vfh.topobuild", jin, jout], env=env)))
    results = {}
    for hs, jout, p in procs:
        if p.wait(timeout=900) != 0:
            raise MachineryError(f"hash-seed child (PYTHONHASHSEED={hs}) failed")
        with open(jout) as f:
            data = json.load(f)
        if str(data["hashseed"]) != hs:
            raise MachineryError("hash-seed child did not run under the requested PYTHONHASHSEED")
        results[hs] = data["results"]
        total += len(data["results"])
    bad = []
    for k, (item, exp) in enumerate(zip(items, expect)):
        runs = [[f"{item[2]}@hashseed={hs}", 7, results[hs][k][0], results[hs][k][1]] for hs in results]
        if any((run[2], run[3]) != exp for run in runs):
            out, after, _ = tb.observe(item[0], item[1], item[2], item[3], shuffle_inputs)   # this interpreter
            runs.append([f"{item[2]}@hashseed={os.environ.get('PYTHONHASHSEED', 'unset')}", 7, out, after])
            bad.append([item[0], item[1], runs, {"source": "hashseed", "shuffle_inputs": shuffle_inputs}])
    return bad, total


def _feature_runs(ctx, lines):
    """Concretisation features that are not part of the enumerated structure: reference attributes of
    type GRAPH / GRAPHS (no nested nodes) on a node of an otherwise ordinary instance."""
    obs = []
    rng = random.Random(ctx.seed ^ 0xFEA7)
    recs = [json.loads(json.loads(line)) for line in lines]
    acyclic = [rec for rec in recs if len(rec[0]) >= 1 and rec[4][0] != 0]
    changed = [rec for rec in acyclic if [list(o) for o in rec[4][0]] != [list(o) for o in rec[2]]]
    smallest = sorted(acyclic, key=lambda rec: (len(rec[0]), len(rec[1])))[:2]
    for rec in smallest + rng.sample(changed, min(4, len(changed))):
        inst = rec[:4]
        for feat in ("refattr", "refattrs"):
            runs = []
            for k, api in enumerate(tb.APIS_ROOT):
                out, after, _ = tb.observe(inst, 1, api, tb.variant_of(ctx.seed, inst, k), False, feat)
                runs.append([api, k, out, after])
            obs.append([inst, 1, runs, {"source": "feature", "feature": feat}])
    return obs


# ---------------------------------------------------------------------------------------------
def run_engine(ctx):
    quick = ctx.tier == "quick"
    workers = min(NCPU, 16)
    ctx.rule = (
        "key = (nodes, graphs, depth-2 nesting, cross-scope use, repeated input, outcome class cycle/changed/same, "
        "only-a-subgraph-changed); counted as non-trivial when the instance has >= 2 nodes and is cyclic, or is "
        "reordered by the sort, or has a use that crosses a graph boundary"
    )
    ctx.assumptions = [
        "instances are well scoped (a node uses values of its own graph or of an enclosing graph), <= 3 graphs, nesting depth <= 2, <= 2 produced inputs per node",
        "heapq is abstracted to 'pop the entry with the largest original index' (indices are distinct)",
        "TLC, the JVM and CPython are trusted",
    ]

    camp = Campaign(ctx)
    kept = []          # some emitted lines for the hash-seed sample and the feature scenarios
    exhaustive_cfgs = [("TopoSortMC_q3.cfg", "exh<=3(canonical)", "all", False, 25)]
    if not quick:
        exhaustive_cfgs += [
            ("TopoSortMC_p3.cfg", "exh<=3(all permutations)", "rot", False, 200),
            ("TopoSortMC_n4.cfg", "exh=4(canonical, input multisets)", "rot", True, 1500),
        ]
    sims = [("TopoSortMC_simA.cfg", "sim5-7(acyclic)", 1600 if quick else 48000),
            ("TopoSortMC_simB.cfg", "sim5-7(uniform, <=1 input)", 640 if quick else 16000)]
    ctx.extra["constants"] = {
        "exhaustive": [c[0] for c in exhaustive_cfgs], "simulation": [s[0] for s in sims],
        "MaxG": 3, "MaxDepth": 2, "MaxIn": 2,
    }
    # quick tier: the small TLC runs overlap (4 workers each) with the enumeration; thorough: one
    # after the other on all cores
    side_workers = 4 if quick else workers

    def tlc_steps():
        return ctx.tlc(STEPS, _cfg("TopoSortSteps_q.cfg" if quick else "TopoSortSteps.cfg"), tag="steps",
                       coverage=True, workers=side_workers, timeout=1500, count=False)

    def tlc_sim(cfg, total):
        return ctx.tlc(MC, _cfg(cfg), tag="sim-" + cfg[11:-4], deadlock=False, workers=side_workers,
                       simulate=f"num={max(1, total // side_workers)}", depth=40, seed=ctx.seed, timeout=3000,
                       count=False)

    def account(res):
        ctx.states += res.distinct
        ctx.transitions += res.generated

    # the replay pool is forked before any thread exists
    with multiprocessing.get_context("fork").Pool(workers) as pool, \
            concurrent.futures.ThreadPoolExecutor(max_workers=3 if quick else 1) as tp:
        f_steps = tp.submit(tlc_steps)
        f_sims = [tp.submit(tlc_sim, cfg, total) for cfg, _, total in sims] if quick else None

        # 1. the step-wise action system reaches exactly SortedAt (small scope), every action taken
        if not quick:
            res = f_steps.result()
        # 2. exhaustive enumeration by TLC, replay of every emitted instance
        for cfg, source, mode, shuffle_inputs, sample_every in exhaustive_cfgs:
            res = ctx.tlc(MC, _cfg(cfg), tag="mc-" + cfg[11:-4], deadlock=False,
                          workers=(workers - 4 if quick and workers > 8 else workers), timeout=7200, heap="12g")
            _require(res, cfg)
            keep = (7, kept) if cfg == "TopoSortMC_q3.cfg" else None   # every 7th emitted instance
            n = _replay_emitted(ctx, camp, res, source, pool, mode, shuffle_inputs, sample_every, keep)
            if n == 0:
                raise MachineryError(f"{cfg}: TLC emitted no instance")
            os.remove(res.out_path)
        exhaustive_instances = camp.instances

        res = f_steps.result()
        _require(res, "TopoSortSteps")
        account(res)
        acts = {k.split("!")[1]: v[0] for k, v in res.coverage.items() if k.startswith("TopoSortSteps!")}
        need = ["Gen", "Call", "Collect", "AddPreds", "Heapify", "Pop", "Check", "Relink", "Return"]
        missing = [a for a in need if acts.get(a, 0) == 0]
        if missing:
            raise MachineryError(f"actions never taken in TopoSortSteps: {missing} (coverage {acts})")
        ctx.extra["steps_action_coverage"] = {a: acts.get(a, 0) for a in need}

        # 3. random larger instances generated by TLC in simulation mode
        sim_obs_every = 1 if quick else 4
        for k, (cfg, source, total) in enumerate(sims):
            res = f_sims[k].result() if quick else tlc_sim(cfg, total)
            _require(res, cfg)
            account(res)
            n = _replay_emitted(ctx, camp, res, source, pool, "all", False, sim_obs_every)
            if n == 0:
                raise MachineryError(f"{cfg}: TLC emitted no instance")
            os.remove(res.out_path)

    ctx.replayed += camp.instances
    ctx.evaluations += camp.runs
    for key in sorted(camp.keys):
        nontrivial = key[0] >= 2 and (key[5] != "same" or key[3])
        ctx.case(key=str(key), nontrivial=nontrivial, n=0)
    ctx.exhaustive = True
    ctx.extra["instances"] = dict(camp.per_source)
    ctx.extra["exhaustive_instances_replayed"] = exhaustive_instances
    ctx.extra["nontrivial_instances"] = camp.nontrivial

    # 4. other hash seeds (fresh interpreters), 5. concretisation features
    hs_bad, hs_total = _hashseed_runs(ctx, kept, 400 if quick else 3000)
    ctx.evaluations += hs_total
    ctx.extra["hashseed_executions"] = hs_total
    feature_obs = _feature_runs(ctx, kept)
    ctx.evaluations += sum(len(o[2]) for o in feature_obs)

    # 6. TLC judges: every result that differs from SortedAt, the feature scenarios, and a sample of
    #    the conforming observations (all of the simulated ones in the quick tier)
    rng = random.Random(ctx.seed)
    sample = camp.sample
    room = camp.cap - len(camp.mismatch) - len(hs_bad) - len(feature_obs)
    if len(sample) > max(room, 0):
        sample = rng.sample(sample, max(room, 0))
    hist = camp.history
    hcap = max(200, camp.cap // 4)
    if len(hist) > hcap:
        hist = rng.sample(hist, hcap)
    observations = camp.mismatch + hs_bad + feature_obs + sample + hist
    ctx.extra["observations_judged_by_tlc"] = {
        "sorted_again_after_rewiring": len(hist),
        "differing_from_spec": len(camp.mismatch), "hashseed_differing": len(hs_bad),
        "feature_scenarios": len(feature_obs), "conforming_sample": len(sample),
    }
    if observations:
        verdicts = judge(ctx, observations, "main")
        accepted, div = report(ctx, observations, verdicts)
        ctx.validated += accepted
        ctx.extra["divergences"] = div
    def interest(o):
        inst = o[0]
        changed = any(run[2] == "ok" and run[3] != [list(x) for x in inst[2]] for run in o[2])
        cyc = any(run[2] == "ValueError" for run in o[2])
        return (2 * changed + (len(inst[1]) > 1) + 0.5 * cyc, -abs(len(inst[0]) - 4))

    picks = sorted(camp.sample, key=interest, reverse=True)
    chosen = picks[:1] + [o for o in picks if any(run[2] == "ValueError" for run in o[2]) and len(o[0][1]) > 1][:1]
    for o in (chosen + picks[1:3] + camp.mismatch[:1])[:3]:
        ctx.case(sample={"instance[gOf,owner,order,ins]": o[0], "start_graph": o[1], "runs[api,run,outcome,after]": o[2]}, n=0)

    # C14 note: does the pass report modified correctly?
    ctx.extra["c14_pass_modified_flag"] = camp.c14
    if camp.c14["sub_only_false"]:
        ctx.note(
            f"C14 (not C12): TopologicalSortPass returned modified=False on {camp.c14['sub_only_false']} executions where only "
            f"nested graphs were reordered; smallest: {camp.c14['example']}"
        )


def replay_detail(ctx, detail) -> bool:
    inst, r = detail["inst"], detail["r"]
    meta = detail.get("meta", {})
    if meta.get("history_of"):
        base = meta["history_of"]
        h = tb.observe_history(base, tb.variant_of(detail["seed"], base, 9), meta.get("shuffle_inputs", False))
        if h is None:
            return False
        v = judge(ctx, [[h[0], 1, h[1]]], "replay")[0]
        print(f"replay (sorted again after rewiring): inst={h[0]} runs={h[1]} failed={v['failed']}")
        return any(v["failed"]) or not v["determ"]
    if detail.get("api") == "determ":
        runs = []
        for api, runidx, _, _ in detail["runs"]:
            base = api.split("@")[0]
            out, after, _ = tb.observe(inst, r, base, tb.variant_of(detail["seed"], inst, runidx),
                                       meta.get("shuffle_inputs", False), meta.get("feature"))
            runs.append([api, runidx, out, after])
    else:
        api = detail["api"].split("@")[0]
        out, after, _ = tb.observe(inst, r, api, tb.variant_of(detail["seed"], inst, detail["run"]),
                                   meta.get("shuffle_inputs", False), meta.get("feature"))
        runs = [[api, detail["run"], out, after]]
    v = judge(ctx, [[inst, r, runs]], "replay")[0]
    print(f"replay: runs={runs} failed={v['failed']} determ={v['determ']}")
    return any(v["failed"]) or not v["determ"]
