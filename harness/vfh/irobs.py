"""Generic observable projection of an arbitrary ir.Model (all graphs incl. nested ones and
function bodies) in the shape of IRGraph.tla's Obs record, for evaluation of the C01 invariants
by TLC (specs/ir/ObsCheck.tla)."""

from __future__ import annotations

import json
import os

import onnx_ir as ir

from .common import SPECS, MachineryError


def project_model(model: ir.Model) -> dict:
    graphs, nodes, values = [], [], []
    gid, nid, vid = {}, {}, {}

    def reg_v(v):
        if v is not None and id(v) not in vid:
            values.append(v)
            vid[id(v)] = len(values)

    def walk(g):
        if id(g) in gid:
            return
        graphs.append(g)
        gid[id(g)] = len(graphs)
        for v in g.inputs:
            reg_v(v)
        for v in getattr(g, "initializers", {}).values():
            reg_v(v)
        for n in g:
            nodes.append(n)
            nid[id(n)] = len(nodes)
            for v in n.inputs:
                reg_v(v)
            for v in n.outputs:
                reg_v(v)
        for v in g.outputs:
            reg_v(v)
        for n in g:
            for a in n.attributes.values():
                if a.type == ir.AttributeType.GRAPH:
                    walk(a.value)
                elif a.type == ir.AttributeType.GRAPHS:
                    for sg in a.value:
                        walk(sg)

    walk(model.graph)
    for fn in model.functions.values():
        walk(fn.graph if hasattr(fn, "graph") else fn)
    # objects outside the model that are still linked to it (e.g. the nodes of a removed control-flow
    # body that keep using outer values): they join the universe, so that the invariants are
    # evaluated on both directions of every link that touches the model
    changed = True
    while changed:
        changed = False
        for v in list(values):
            if v.graph is not None and id(v.graph) not in gid:
                walk(v.graph)
                changed = True
            for u in v.uses():
                if id(u.node) not in nid and u.node.graph is not None and id(u.node.graph) not in gid:
                    walk(u.node.graph)
                    changed = True
                if id(u.node) not in nid:
                    nodes.append(u.node)
                    nid[id(u.node)] = len(nodes)
                    for x in list(u.node.inputs) + list(u.node.outputs):
                        reg_v(x)
                    changed = True
            p = v.producer()
            if p is not None and id(p) not in nid:
                nodes.append(p)
                nid[id(p)] = len(nodes)
                for x in list(p.inputs) + list(p.outputs):
                    reg_v(x)
                changed = True
    G = lambda g: 0 if g is None else gid.get(id(g), -1)  # noqa: E731
    N = lambda n: 0 if n is None else nid.get(id(n), -1)  # noqa: E731
    V = lambda v: 0 if v is None else vid.get(id(v), -1)  # noqa: E731
    return {
        "nIn": [[V(x) for x in n.inputs] for n in nodes],
        "nOut": [[V(x) for x in n.outputs] for n in nodes],
        "nGraph": [G(n.graph) for n in nodes],
        "gNodes": [[N(n) for n in g] for g in graphs],
        "gIn": [[V(x) for x in g.inputs] for g in graphs],
        "gOut": [[V(x) for x in g.outputs] for g in graphs],
        "gInitK": [[("<none>" if k is None else k) for k in g.initializers.keys()] for g in graphs],
        "gInitV": [[V(x) for x in g.initializers.values()] for g in graphs],
        "vProd": [N(v.producer()) for v in values],
        "vIdx": [(-2 if v.index() is None else v.index()) for v in values],
        "vUses": [sorted(N(u.node) * 16 + u.idx for u in v.uses()) for v in values],
        "vGraph": [G(v.graph) for v in values],
        "vIsIn": [bool(v.is_graph_input()) for v in values],
        "vIsOut": [bool(v.is_graph_output()) for v in values],
        "vIsInit": [bool(v.is_initializer()) for v in values],
        "vName": [("<none>" if v.name is None else v.name) for v in values],
    }


def tlc_check_states(ctx, states: list, tag: str = "obs") -> dict:
    """states: list of (id, obs). Returns {id: [broken invariant names]} as evaluated by TLC."""
    if not states:
        return {}
    path = os.path.join(ctx.scratch, f"{tag}_states.json")
    with open(path, "w") as f:
        json.dump({"states": [{"id": i, "o": o} for i, o in states]}, f)
    res = ctx.tlc(os.path.join(SPECS, "ir", "ObsCheck.tla"), os.path.join(SPECS, "ir", "ObsCheck.cfg"), tag=tag,
                  env={"TRACE_FILE": path}, workers=1, deadlock=False, timeout=1800)
    broken, checked = {}, None
    for r in res.records():
        if isinstance(r, list) and r and r[0] == "broken":
            broken[r[1]] = r[2]
        elif isinstance(r, list) and r and r[0] == "checked":
            checked = r[1]
    if res.errors or res.returncode != 0 or checked != len(states):
        raise MachineryError(f"ObsCheck failed: rc={res.returncode} checked={checked}/{len(states)} {res.errors[:2]}\n{res.tail(20)}")
    return broken
