"""Specification -> code direction for C11: replay of the behaviours TLC emitted from LinkedSetMC /
RecIterMC into the real structures (see lsdrive), comparing after EVERY action the outcome, the
yielded element and list / len / x[i] (all i, both signs) / membership with what TLC computed.

A behaviour that disagrees anywhere is re-recorded as an *observed trace* (what the real code did)
and handed to the trace specification, where TLC names the clause of C11 it breaks (or "div").
"""

from __future__ import annotations

import json
import multiprocessing as mp
import signal
from collections import Counter

from . import lsdrive

PAD = 3  # cursors of the trace specification


StepTimeout = lsdrive.StepTimeout
_on_alarm = lsdrive.on_alarm


class watchdog:
    """Bounds the time one behaviour may take on the real code: a call that loops forever is turned into
    the outcome err:StepTimeout of that call instead of hanging the check."""

    def __init__(self, seconds: float = 3.0):
        self.seconds = seconds          # CPU seconds of this process (robust against a loaded machine)

    def __enter__(self):
        self.old = signal.signal(signal.SIGVTALRM, _on_alarm)
        signal.setitimer(signal.ITIMER_VIRTUAL, self.seconds, 0.5)   # keeps firing: later calls may loop too
        return self

    def __exit__(self, *a):
        signal.setitimer(signal.ITIMER_VIRTUAL, 0)
        signal.signal(signal.SIGVTALRM, self.old)
        return False


def parse_line(line: str):
    if not line.startswith('"{'):
        return None
    try:
        return json.loads(json.loads(line))
    except ValueError:
        return None


def _san(lst):
    return [x if isinstance(x, int) else -9 for x in lst]


def event_ls(op, a, es, c, out, y, obs):
    if obs is None:
        return None
    lst, n, it, ni, m, oob = obs
    return [op, a, list(es), c, out, y, _san(lst), n, _san(it), _san(ni), m, oob]


# ------------------------------------------------------------------------------------- LinkedSet
def run_ls(kind, nelem, h, full=False):
    """Execute history h on a fresh target; returns (first mismatch index or None, observed events)."""
    init, dirs = h[0][2], h[0][7]
    t = lsdrive.make_target(kind, nelem, init, dirs)
    evs = []
    bad = None
    last = len(h) - 2
    for idx, ent in enumerate(h[1:]):
        op, a, es, c, out, y, lst = ent[:7]
        o, yy = t.apply(op, a, es, c)
        if full or idx >= last - 1 or op != "ST":
            obs = t.observe()
            ok = tuple(map(_plain, obs)) == tuple(map(_plain, lsdrive.expected_obs(lst, nelem)))
        else:   # a cursor step deep inside the prefix: the list alone (every prefix is a behaviour of its own)
            obs = None
            ok = [t.ident(x) for x in t.x] == list(lst)
        evs.append((op, a, es, c, o, yy, obs))
        if (o, yy) != (out, y) or not ok:
            bad = idx
            break
    if bad is not None and any(e[6] is None for e in evs):
        return run_ls(kind, nelem, h, full=True)      # re-record with the full observation of every step
    return bad, [event_ls(*e) for e in evs]


def _plain(x):
    return list(x) if isinstance(x, (list, tuple)) else x


def ls_key(h):
    """Coverage class of the LAST action of a behaviour: (op, #new, position of the anchor / element and
    of the first new element relative to cursor 1, outcome, cursor situation).  Non-trivial = an edit
    performed while a cursor is parked, or a step taken after such an edit."""
    dirs = h[0][7]
    parked = {}
    edited_under = False
    pre = list(h[0][6])
    for ent in h[1:-1]:
        op, a, es, c, out, y, lst = ent[:7]
        if op == "ST":
            if out == "yield":
                parked[c] = y
            else:
                parked.pop(c, None)
        elif out == "ok" and parked:
            edited_under = True
        pre = lst
    op, a, es, c, out, y, lst = h[-1][:7]

    def rel(e):
        if not parked:
            return "nocursor"
        c0 = min(parked)
        p = parked[c0]
        if e == 0:
            return "-"
        if e == p:
            return "current"
        if e not in pre:
            return "absent"
        if p not in pre:
            return "cur-removed"
        d = pre.index(e) - pre.index(p)
        if dirs[c0 - 1] == "b":
            d = -d
        return "later" if d > 0 else "earlier"

    if op == "ST":
        key = ("ST", dirs[c - 1], out, "cur-removed" if (c in parked and parked[c] not in pre) else ("parked" if c in parked else "new"),
               "after-edit" if edited_under else "quiet")
        return key, edited_under
    key = (op, len(es), rel(a), rel(es[0]) if es else "-", out, len(parked))
    return key, bool(parked)


# ------------------------------------------------------------------------------------- RecIter
def event_rec(op, g, a, es, out, lvl, y, obs2, es2):
    (lo, no, ito, nio, mo, oo), (li, ni_, iti, nii, mi, oi) = obs2
    return [op, g, a, list(es), out, lvl, y, _san(lo), _san(li), [no, _san(ito), _san(nio), mo, oo],
            [ni_, _san(iti), _san(nii), mi, oi], list(es2)]


def run_rec(nelem, h, variant=0):
    lo, li, d = h[0][3], h[0][8], h[0][9]
    t = lsdrive.RecTarget(nelem, lo, li, d, via_all_nodes=bool(variant))
    evs = []
    bad = None
    for idx, ent in enumerate(h[1:]):
        op, g, a, es, out, lvl, y, elo, eli = ent[:9]
        o, l2, yy = t.apply(op, g, a, es)
        obs2 = t.observe2()
        es2 = obs2[1][0] if op == "SO" else []
        evs.append(event_rec(op, g, a, es, o, l2, yy, obs2, es2))
        exp = (lsdrive.expected_obs(elo, nelem), lsdrive.expected_obs(eli, nelem))
        if (o, l2, yy) != (out, lvl, y) or [list(map(_plain, x)) for x in obs2] != [list(map(_plain, x)) for x in exp]:
            bad = idx
            break
    return bad, evs


def rec_key(h):
    edited = False
    ph = "new"
    for ent in h[1:-1]:
        if ent[0] == "ST":
            ph = ("inner" if ent[5] == 1 else "outer") if ent[4] == "yield" else "done"
        elif ent[4] == "ok":
            edited = edited or ph in ("inner", "outer")
    ent = h[-1]
    if ent[0] == "ST":
        return ("ST", h[0][9], ph, ent[4], ent[5], "after-edit" if edited else "quiet"), edited
    return (ent[0], ent[1], ph, ent[4]), ph in ("inner", "outer")


# ------------------------------------------------------------------------------------- workers
def _work(args):
    family, nelem, kinds, lines = args
    st = Counter()
    keys = Counter()
    nontriv = set()
    bad = []
    sample = None
    for line in lines:
        if len(bad) >= 25:        # this chunk has shown enough disagreements (bounds the time spent on a broken tree)
            st["skipped_after_disagreements"] += 1
            continue
        rec = parse_line(line)
        if rec is None:
            continue
        h = rec["h"]
        st["behaviours"] += 1
        if family == "ls":
            key, nt = ls_key(h)
            for kind in kinds:
                if kind == "alt":     # quick tier: Graph and Function take turns
                    kind = ("graph", "func")[st["behaviours"] % 2]
                with watchdog():
                    b, evs = run_ls(kind, nelem, h)
                st["runs"] += 1
                st["steps"] += len(evs)
                if b is not None:
                    bad.append(dict(family="ls", kind=kind, nelem=nelem, init=h[0][2], dirs=h[0][7], ev=evs, h=h, at=b))
        else:
            key, nt = rec_key(h)
            for variant in kinds:
                with watchdog():
                    b, evs = run_rec(nelem, h, variant)
                st["runs"] += 1
                st["steps"] += len(evs)
                if b is not None:
                    bad.append(dict(family="rec", kind=f"rec{variant}", nelem=nelem, lo=h[0][3], li=h[0][8], d=h[0][9], ev=evs, h=h, at=b))
        keys[key] += 1
        if nt:
            nontriv.add(key)
        if sample is None and nt and len(h) > 3:
            sample = h
    return st, keys, nontriv, bad[:50], len(bad), sample


def replay_files(paths, family, nelem, kinds, nproc=8, chunk=1500, cap=None, seed=0):
    """Replay every emitted behaviour of the given TLC output files. Returns aggregated results."""
    import random

    rng = random.Random(seed)

    def chunks():
        for p in paths:
            buf = []
            with open(p, "r", errors="replace") as f:
                for line in f:
                    if not line.startswith('"{'):
                        continue
                    if cap is not None and rng.random() > cap:
                        continue
                    buf.append(line)
                    if len(buf) >= chunk:
                        yield (family, nelem, kinds, buf)
                        buf = []
            if buf:
                yield (family, nelem, kinds, buf)

    st, keys, nontriv, bad, nbad, samples = Counter(), Counter(), set(), [], 0, []
    with mp.get_context("fork").Pool(nproc) as pool:
        for s, k, nt, b, nb, sm in pool.imap_unordered(_work, chunks()):
            st.update(s)
            keys.update(k)
            nontriv |= nt
            nbad += nb
            if len(bad) < 200:
                bad.extend(b)
            if sm is not None and len(samples) < 3:
                samples.append(sm)
            if nbad >= 300:       # plenty to classify; do not grind through the rest on a broken tree
                st["stopped_early"] = 1
                pool.terminate()
                break
    return dict(stats=st, keys=keys, nontrivial=nontriv, bad=bad, nbad=nbad, samples=samples)


def pad_dirs(dirs):
    return list(dirs) + ["f"] * (PAD - len(dirs))
