"""C09 harness: run the real concurrent external-data save of onnx_ir under a chosen schedule
(gated world), under the OS scheduler (real world) or serially (reference), and produce traces in the
format of specs/extdata/ParallelWriterTrace.tla.

A *configuration* (``raw``) is what the specification calls one too:
``{"size": [...], "obj": [...], "fail": [...], "cap": c, "mw": w, "maxShard": m}`` - tensor i has
``size[i]`` bytes and is the tensor OBJECT ``obj[i]`` (two initializers may share one object); objects in
``fail`` raise in ``tofile``; ``cap`` = max_in_flight_bytes; ``mw`` = max_workers; ``maxShard`` =
max_shard_size_bytes (0: one file, written through the public ``convert_tensors_to_external``; otherwise
through the public ``unload_from_model`` on a real ``ir.Model``).
"""

from __future__ import annotations

import collections
import logging
import os
import shutil
import threading

import numpy as np

from . import sched
from .common import MachineryError

_ENV = None   # the active world (one execution at a time per process)
logging.getLogger("onnx_ir.external_data").setLevel(logging.ERROR)   # "tensor exceeds max_shard_size_bytes" noise


class InjectedWriteError(OSError):
    pass


def _tensor_class():
    import onnx_ir as ir

    class SchedTensor(ir.Tensor):
        """An ordinary in-memory tensor whose ``tofile`` is a synchronisation point of the harness."""

        def tofile(self, file) -> None:
            env = _ENV
            if env is None:
                if self.vf_fail:
                    raise InjectedWriteError(f"injected failure writing object {self.vf_obj}")
                return super().tofile(file)
            ent = [env.tid(), self.vf_obj]
            if env.gated:
                env.mon.eval.append(ent)
            else:
                with env.log:
                    env.mon.eval.append(ent)
            try:
                env.park(None, label=f"tofile object {self.vf_obj}")
                if self.vf_fail:
                    env.emit("Write", 0, failed=True)
                    raise InjectedWriteError(f"injected failure writing object {self.vf_obj}")
                file.write(self.tobytes())
                env.emit("Write", 0)
            finally:
                if env.gated:
                    env.mon.eval.remove(ent)
                else:
                    with env.log:
                        env.mon.eval.remove(ent)

    return SchedTensor


_TCLS = None


def make_tensors(raw: dict) -> list:
    global _TCLS
    if _TCLS is None:
        _TCLS = _tensor_class()
    objs = {}
    for sz, o in zip(raw["size"], raw["obj"]):
        if o not in objs:
            t = _TCLS(np.full((sz,), o, dtype=np.uint8), name=f"obj{o}")
            t.vf_obj = o
            t.vf_fail = o in raw["fail"]
            objs[o] = t
        elif objs[o].nbytes != sz:
            raise MachineryError(f"configuration gives object {o} two sizes")
    return [objs[o] for o in raw["obj"]]


def spec_sharded(raw: dict) -> bool:
    """Mirror of MkBase.sharded (used only to NAME threads; the spec decides conformance)."""
    if not raw["maxShard"] or raw["mw"] <= 1:
        return False
    ns, sz, cnt = 1, 0, 0
    for nb in raw["size"]:
        if sz + nb > raw["maxShard"] and cnt > 0:
            ns, sz, cnt = ns + 1, 0, 0
        sz, cnt = sz + nb, cnt + 1
    return ns > 1


def _call(raw: dict, tensors: list, base_dir: str, callback):
    """The public call under test."""
    import onnx_ir as ir
    import onnx_ir.external_data as ed

    if not raw["maxShard"]:
        return ed.convert_tensors_to_external(
            tensors, base_dir, "m.data", callback=callback, max_workers=raw["mw"], max_in_flight_bytes=raw["cap"])
    values = [ir.Value(name=f"w{i}", const_value=t) for i, t in enumerate(tensors)]
    graph = ir.Graph(inputs=[], outputs=[], nodes=[], initializers=values, name="g", opset_imports={"": 20})
    model = ir.Model(graph, ir_version=10)
    ed.unload_from_model(model, base_dir, "m.data", max_shard_size_bytes=raw["maxShard"], callback=callback,
                         max_workers=raw["mw"], max_in_flight_bytes=raw["cap"])
    return [v.const_value for v in values]


def _read_files(base_dir: str):
    names = sorted(n for n in os.listdir(base_dir) if not n.startswith("."))
    out = []
    for n in names:
        with open(os.path.join(base_dir, n), "rb") as f:
            out.append(list(f.read()))
    leftovers = sorted(n for n in os.listdir(base_dir) if n.startswith("."))
    return names, out, leftovers


def _fresh(dirpath: str) -> str:
    shutil.rmtree(dirpath, ignore_errors=True)
    os.makedirs(dirpath)
    return dirpath


Result = collections.namedtuple(
    "Result", "raw mode events choices runnable outcome error files names deadlock cb cb_log layout")


def run_serial(raw: dict, dirpath: str) -> Result:
    """Reference: the same public call with max_workers=None and no shims."""
    global _ENV
    _ENV = None
    _fresh(dirpath)
    tensors = make_tensors(raw)
    cb = [0] * len(tensors)
    log = []

    def callback(tensor, info):
        cb[info.index] += 1
        log.append((0, info.index, info.filename, info.offset))

    sraw = dict(raw, mw=None)
    outcome, err, ext = "returned", None, None
    try:
        ext = _call(dict(sraw, mw=None), tensors, dirpath, callback)
    except InjectedWriteError as e:
        outcome, err = "raised", repr(e)
    names, files, _ = _read_files(dirpath)
    layout = [[getattr(x, "location", None), getattr(x, "offset", None), getattr(x, "length", None)] for x in ext] if ext else []
    return Result(raw, "serial", [], [], [], outcome, err, files if outcome == "returned" else [], names, None, cb, log, layout)


def _main_body(env, raw, tensors, dirpath, box):
    def callback(tensor, info):
        t = env.tid()
        if env.gated:
            env.mon.incb.append(t)
        else:
            with env.log:
                env.mon.incb.append(t)
        try:
            env.park(None, label="progress callback")

            def count():
                if 0 <= info.index < len(env.mon.cb):
                    env.mon.cb[info.index] += 1
                env.mon.cb_log.append((t, info.index, info.filename, info.offset))

            if env.gated:
                count()
                env.emit("CbRun", info.index + 1)
            else:
                env.emit("CbRun", info.index + 1, mutate=count)
        finally:
            if env.gated:
                env.mon.incb.remove(t)
            else:
                with env.log:
                    env.mon.incb.remove(t)

    def body(_st=None):
        outcome, err, ext = "returned", None, None
        try:
            ext = _call(raw, tensors, dirpath, callback)
        except sched.SchedAbort:
            box["outcome"] = "aborted"
            raise
        except MachineryError as e:
            env.error = env.error or e
            raise
        except InjectedWriteError as e:
            outcome, err = "raised", repr(e)
        except sched.RealWaitTimeout as e:
            outcome, err = "timeout", repr(e)
        except BaseException as e:  # noqa: BLE001 - an unexpected exception type is reported, not swallowed
            outcome, err = "raised", repr(e)
            box["unexpected"] = repr(e)
        box["outcome"], box["error"], box["ext"] = outcome, err, ext
        if outcome == "timeout":
            return
        env.park(None, label="return to the caller")
        names, files, leftovers = _read_files(dirpath)
        box["names"], box["files"], box["leftovers"] = names, files, leftovers
        layout = []
        if ext is not None:
            rank = {n: k + 1 for k, n in enumerate(names)}
            layout = [[rank.get(os.path.basename(str(getattr(x, "location", "?"))), 0), int(getattr(x, "offset", 0) or 0)]
                      for x in ext]
        box["layout"] = layout

        def fin():
            env.mon.caller = outcome

        if env.gated:
            fin()
            env.emit("Return", 0, files=files if outcome == "returned" else [], lay=layout)
        else:
            env.emit("Return", 0, mutate=fin, files=files if outcome == "returned" else [], lay=layout)

    return body


def _result(env, raw, mode, box, choices, runnable) -> Result:
    return Result(raw, mode, env.events, choices, runnable, box.get("outcome", "none"), box.get("error"),
                  box.get("files", []), box.get("names", []), env.deadlock, list(env.mon.cb), list(env.mon.cb_log),
                  box.get("layout", []))


def run_gated(raw: dict, chooser, dirpath: str) -> Result:
    """One execution of the real code under the deterministic scheduler."""
    global _ENV
    _fresh(dirpath)
    tensors = make_tensors(raw)
    env = sched.GatedEnv(len(tensors), spec_sharded(raw), chooser)
    box: dict = {}
    with sched.installed(env):
        _ENV = env
        try:
            body = _main_body(env, raw, tensors, dirpath, box)
            env.run(body)
        finally:
            _ENV = None
    if box.get("unexpected"):
        box["error"] = box["unexpected"]
    return _result(env, raw, "gated", box, list(env.choices), list(env.runnable_log))


def run_real(raw: dict, dirpath: str, timeout: float = 45.0) -> Result:
    """One execution with real threads; wrappers only log."""
    global _ENV
    _fresh(dirpath)
    tensors = make_tensors(raw)
    box: dict = {}
    env = sched.RealEnv(len(tensors), spec_sharded(raw))
    with sched.installed(env):
        _ENV = env
        try:
            body = _main_body(env, raw, tensors, dirpath, box)

            def runner():
                env.tls.tid = 0
                env.tls.job_base = 0
                env.tls.lockn = 0
                body()

            th = threading.Thread(target=runner, daemon=True, name="vf-c09-real")
            th.start()
            # a deadlock is declared only when NO event at all has been logged for `timeout` seconds
            # (robust against a heavily loaded machine); a live execution is never cut short
            seen, quiet = -1, 0.0
            while th.is_alive():
                th.join(0.5)
                n = len(env.events)
                quiet = quiet + 0.5 if n == seen else 0.0
                seen = n
                if quiet >= timeout:
                    break
            if th.is_alive() or box.get("outcome") == "timeout":
                env.deadlock = {"blocked": [["?", "real threads did not finish"]], "idle": [], "obs": env._snapshot()}
                with env.log:
                    env.events.append({"t": 0, "op": "Deadlock", "i": 0, "cmp": 0, "post": env._snapshot()})
                    nev = len(env.events)
                env.abort()
                th.join(10)
                del env.events[nev:]
        finally:
            _ENV = None
    if env.error is not None:
        raise MachineryError(f"real-thread run: {env.error}")
    return _result(env, raw, "real", box, [], [])


# ---------------------------------------------------------------------------------------------------
def trace_of(res: Result) -> dict:
    return {"cfg": {k: res.raw[k] for k in ("size", "obj", "fail", "cap", "mw", "maxShard")},
            "mode": res.mode, "ev": res.events}


def schedule_key(res: Result):
    return (tuple(res.raw["size"]), tuple(res.raw["obj"]), tuple(res.raw["fail"]), res.raw["cap"], res.raw["mw"],
            res.raw["maxShard"], tuple((e["t"], e["op"], e["i"]) for e in res.events))


def explore_dfs(raw: dict, dirpath: str, bound: int, limit: int):
    """Systematic exploration: breadth-first over the number of preemptions (<= bound), at most `limit` runs.
    A preemption = switching away from the thread that ran last although it is still runnable."""
    work = collections.deque([([], 0)])
    n = 0
    while work and n < limit:
        prefix, npre = work.popleft()
        res = run_gated(raw, sched.ScriptChooser(prefix), dirpath)
        n += 1
        yield res
        ch, rl = res.choices, res.runnable
        for k in range(len(prefix), len(ch)):
            prev = ch[k - 1] if k > 0 else None
            for alt in rl[k]:
                if alt == ch[k]:
                    continue
                cost = 1 if (prev in rl[k]) else 0
                if npre + cost <= bound:
                    work.append((ch[:k] + [alt], npre + cost))
