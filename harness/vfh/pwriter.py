"""C09 harness: run the real concurrent external-data save of onnx_ir under a chosen schedule
(gated world), under the OS scheduler (real world) or serially (reference), and produce traces in the
format of specs/extdata/ParallelWriterTrace.tla.

A *configuration* (``raw``) is what the specification calls one too:
``{"size": [...], "obj": [...], "fail": [...], "cbfail": [...], "fkind": k, "cap": c, "mw": w, "maxShard": m}``
- tensor i has ``size[i]`` bytes and is the tensor OBJECT ``obj[i]`` (two initializers may share one object);
objects in ``fail`` raise when they are evaluated; the progress callback raises for the (1-based) tensor
indices in ``cbfail``; ``fkind`` is the KIND of exception both raise (``KINDS``: RuntimeError, OSError, Abort
- a BaseException that is not an Exception -, KeyboardInterrupt, SystemExit); ``cap`` = max_in_flight_bytes;
``mw`` = max_workers; ``maxShard`` = max_shard_size_bytes (0: one file, written through the public
``convert_tensors_to_external``; otherwise through the public ``unload_from_model`` on a real ``ir.Model``).
One more key is harness-only (the specification has one atomic Write step): ``fmeth`` in ``METHODS`` says
through which method of the tensor the bytes are produced / the failure is raised - ``tofile``, ``tobytes``
(a tensor class WITHOUT ``tofile``: the code falls back to ``file.write(tensor.tobytes())``) or ``numpy``
(``tofile`` of ir.Tensor calls ``numpy()``, which raises).

The injected exceptions never leave the harness: pool threads store them in the future like the real
``ThreadPoolExecutor`` does (``except BaseException``), the caller body and the serial reference catch
``BaseException`` and recognise them by the ``vf_injected`` mark.
"""

from __future__ import annotations

import collections
import logging
import os
import shutil
import threading

import numpy as np

from . import sched
from .common import MachineryError

_ENV = None   # the active world (one execution at a time per process)
logging.getLogger("onnx_ir.external_data").setLevel(logging.ERROR)   # "tensor exceeds max_shard_size_bytes" noise


class InjectedWriteError(OSError):
    pass


class InjectedRuntimeError(RuntimeError):
    pass


class AbortSignal(BaseException):
    """A cancellation signal of an application: a BaseException that is NOT an Exception."""


KINDS = {"OSError": InjectedWriteError, "RuntimeError": InjectedRuntimeError, "Abort": AbortSignal,
         "KeyboardInterrupt": KeyboardInterrupt, "SystemExit": SystemExit}
METHODS = ("tofile", "tobytes", "numpy")


def make_exc(kind: str, what: str) -> BaseException:
    try:
        e = KINDS[kind](f"vf-injected {kind}: {what}")
    except KeyError:
        raise MachineryError(f"unknown failure kind {kind!r}") from None
    e.vf_injected = True
    return e


def is_injected(e: BaseException) -> bool:
    return bool(getattr(e, "vf_injected", False))


def norm_raw(raw: dict) -> dict:
    """Fill in the defaults of the optional keys (old recorded details have none of them)."""
    out = dict(raw)
    out.setdefault("cbfail", [])
    out.setdefault("fkind", "OSError")
    out.setdefault("fmeth", "tofile")
    if out["fmeth"] not in METHODS:
        raise MachineryError(f"unknown failure method {out['fmeth']!r}")
    if out["fkind"] not in KINDS:
        raise MachineryError(f"unknown failure kind {out['fkind']!r}")
    return out


def _tensor_class():
    import onnx_ir as ir

    class SchedTensor(ir.Tensor):
        """An ordinary in-memory tensor whose evaluation (``tofile``, or ``tobytes`` for the class without
        ``tofile``) is a synchronisation point of the harness."""

        def _vf_evaluate(self, produce):
            """The monitored evaluation: [tid, obj] is in mon.eval while it lasts; one Write event."""
            env = _ENV
            ent = [env.tid(), self.vf_obj]
            if env.gated:
                env.mon.eval.append(ent)
            else:
                with env.log:
                    env.mon.eval.append(ent)
            try:
                env.park(None, label=f"evaluate object {self.vf_obj} ({self.vf_meth})")
                if self.vf_fail:
                    env.emit("Write", 0, failed=True)
                    if self.vf_meth == "numpy":
                        self.numpy()        # raises (below)
                        raise MachineryError("numpy() of a failing tensor did not raise")
                    raise make_exc(self.vf_kind, f"{self.vf_meth} of object {self.vf_obj}")
                out = produce()
                env.emit("Write", 0)
                return out
            finally:
                if env.gated:
                    env.mon.eval.remove(ent)
                else:
                    with env.log:
                        env.mon.eval.remove(ent)

        def numpy(self):
            if self.vf_fail and self.vf_meth == "numpy":
                raise make_exc(self.vf_kind, f"numpy of object {self.vf_obj}")
            return super().numpy()

        def tofile(self, file) -> None:
            if _ENV is None:   # the serial reference
                if self.vf_fail:
                    if self.vf_meth == "numpy":
                        self.numpy()
                    raise make_exc(self.vf_kind, f"{self.vf_meth} of object {self.vf_obj}")
                return super().tofile(file)
            self._vf_evaluate(lambda: file.write(ir.Tensor.tobytes(self)))

    class SchedTensorNoToFile(SchedTensor):
        """A TensorProtocol implementation from before ``tofile`` existed: the writer falls back to
        ``file.write(tensor.tobytes())``."""

        @property
        def tofile(self):
            raise AttributeError("tofile")

        def tobytes(self) -> bytes:
            if _ENV is None:
                if self.vf_fail:
                    raise make_exc(self.vf_kind, f"tobytes of object {self.vf_obj}")
                return super().tobytes()
            return self._vf_evaluate(lambda: ir.Tensor.tobytes(self))

    return SchedTensor, SchedTensorNoToFile


_TCLS = None


def make_tensors(raw: dict) -> list:
    global _TCLS
    if _TCLS is None:
        _TCLS = _tensor_class()
    raw = norm_raw(raw)
    cls = _TCLS[1] if raw["fmeth"] == "tobytes" else _TCLS[0]
    if raw["fmeth"] == "tobytes" and hasattr(cls(np.zeros((1,), dtype=np.uint8)), "tofile"):
        raise MachineryError("the tensor class without tofile has one")
    objs = {}
    for sz, o in zip(raw["size"], raw["obj"]):
        if o not in objs:
            t = cls(np.full((sz,), o, dtype=np.uint8), name=f"obj{o}")
            t.vf_obj = o
            t.vf_fail = o in raw["fail"]
            t.vf_kind = raw["fkind"]
            t.vf_meth = raw["fmeth"]
            objs[o] = t
        elif objs[o].nbytes != sz:
            raise MachineryError(f"configuration gives object {o} two sizes")
    return [objs[o] for o in raw["obj"]]


def spec_sharded(raw: dict) -> bool:
    """Mirror of MkBase.sharded (used only to NAME threads; the spec decides conformance)."""
    if not raw["maxShard"] or raw["mw"] <= 1:
        return False
    ns, sz, cnt = 1, 0, 0
    for nb in raw["size"]:
        if sz + nb > raw["maxShard"] and cnt > 0:
            ns, sz, cnt = ns + 1, 0, 0
        sz, cnt = sz + nb, cnt + 1
    return ns > 1


def writer_kinds(raw: dict) -> dict:
    """Mirror of MkBase/MkCfg (used only to LABEL configurations; the spec decides conformance):
    shard of every tensor, which shards get a parallel inner writer, and whether one tensor OBJECT is shared
    between a serial shard and a parallel shard (MixedShared of the specification)."""
    sharded = spec_sharded(raw)
    shard_of, s, sz, cnt = [], 1, 0, 0
    for nb in raw["size"]:
        if raw["maxShard"] and sz + nb > raw["maxShard"] and cnt > 0:
            s, sz, cnt = s + 1, 0, 0
        sz, cnt = sz + nb, cnt + 1
        shard_of.append(s)
    ns = s
    if not sharded:
        return {"sharded": False, "par": [raw["mw"] > 1 and len(raw["size"]) > 1], "serial_shards": 0,
                "parallel_shards": 1, "mixed": False, "mixed_shared": False}
    nd = min(raw["mw"], ns)
    ni = max(1, (raw["mw"] - nd) // nd)
    par = [ni > 1 and shard_of.count(k) > 1 for k in range(1, ns + 1)]
    mixed_shared = any(raw["obj"][i] == raw["obj"][j] and par[shard_of[i] - 1] and not par[shard_of[j] - 1]
                       for i in range(len(shard_of)) for j in range(len(shard_of)))
    return {"sharded": True, "par": par, "serial_shards": par.count(False), "parallel_shards": par.count(True),
            "mixed": any(par) and not all(par), "mixed_shared": mixed_shared}


def _call(raw: dict, tensors: list, base_dir: str, callback):
    """The public call under test."""
    import onnx_ir as ir
    import onnx_ir.external_data as ed

    if not raw["maxShard"]:
        return ed.convert_tensors_to_external(
            tensors, base_dir, "m.data", callback=callback, max_workers=raw["mw"], max_in_flight_bytes=raw["cap"])
    values = [ir.Value(name=f"w{i}", const_value=t) for i, t in enumerate(tensors)]
    graph = ir.Graph(inputs=[], outputs=[], nodes=[], initializers=values, name="g", opset_imports={"": 20})
    model = ir.Model(graph, ir_version=10)
    ed.unload_from_model(model, base_dir, "m.data", max_shard_size_bytes=raw["maxShard"], callback=callback,
                         max_workers=raw["mw"], max_in_flight_bytes=raw["cap"])
    return [v.const_value for v in values]


def _read_files(base_dir: str):
    names = sorted(n for n in os.listdir(base_dir) if not n.startswith("."))
    out = []
    for n in names:
        with open(os.path.join(base_dir, n), "rb") as f:
            out.append(list(f.read()))
    leftovers = sorted(n for n in os.listdir(base_dir) if n.startswith("."))
    return names, out, leftovers


def _fresh(dirpath: str) -> str:
    shutil.rmtree(dirpath, ignore_errors=True)
    os.makedirs(dirpath)
    return dirpath


Result = collections.namedtuple(
    "Result", "raw mode events choices runnable outcome error files names deadlock cb cb_log layout")


def run_serial(raw: dict, dirpath: str) -> Result:
    """Reference: the same public call with max_workers=None and no shims."""
    global _ENV
    _ENV = None
    _fresh(dirpath)
    raw = norm_raw(raw)
    tensors = make_tensors(raw)
    cb = [0] * len(tensors)
    log = []

    def callback(tensor, info):
        cb[info.index] += 1
        log.append((0, info.index, info.filename, info.offset))
        if info.index + 1 in raw["cbfail"]:
            raise make_exc(raw["fkind"], f"callback of tensor {info.index + 1}")

    sraw = dict(raw, mw=None)
    outcome, err, ext = "returned", None, None
    try:
        ext = _call(dict(sraw, mw=None), tensors, dirpath, callback)
    except MachineryError:
        raise
    except BaseException as e:  # noqa: BLE001 - KeyboardInterrupt / SystemExit are injected kinds
        if not is_injected(e):
            raise
        outcome, err = "raised", repr(e)
    names, files, _ = _read_files(dirpath)
    layout = [[getattr(x, "location", None), getattr(x, "offset", None), getattr(x, "length", None)] for x in ext] if ext else []
    return Result(raw, "serial", [], [], [], outcome, err, files if outcome == "returned" else [], names, None, cb, log, layout)


def _main_body(env, raw, tensors, dirpath, box):
    def callback(tensor, info):
        t = env.tid()
        if env.gated:
            env.mon.incb.append(t)
        else:
            with env.log:
                env.mon.incb.append(t)
        try:
            env.park(None, label="progress callback")

            def count():
                if 0 <= info.index < len(env.mon.cb):
                    env.mon.cb[info.index] += 1
                env.mon.cb_log.append((t, info.index, info.filename, info.offset))

            failing = info.index + 1 in raw["cbfail"]
            extra = {"failed": True} if failing else {}
            if env.gated:
                count()
                env.emit("CbRun", info.index + 1, **extra)
            else:
                env.emit("CbRun", info.index + 1, mutate=count, **extra)
            if failing:
                raise make_exc(raw["fkind"], f"callback of tensor {info.index + 1}")
        finally:
            if env.gated:
                env.mon.incb.remove(t)
            else:
                with env.log:
                    env.mon.incb.remove(t)

    def body(_st=None):
        outcome, err, ext = "returned", None, None
        try:
            ext = _call(raw, tensors, dirpath, callback)
        except sched.SchedAbort:
            box["outcome"] = "aborted"
            raise
        except MachineryError as e:
            env.error = env.error or e
            raise
        except sched.RealWaitTimeout as e:
            outcome, err = "timeout", repr(e)
        except BaseException as e:  # noqa: BLE001 - injected kinds include KeyboardInterrupt / SystemExit;
            outcome, err = "raised", repr(e)   # an unexpected exception is reported, not swallowed
            if not is_injected(e):
                box["unexpected"] = repr(e)
        box["outcome"], box["error"], box["ext"] = outcome, err, ext
        if outcome == "timeout":
            return
        env.park(None, label="return to the caller")
        names, files, leftovers = _read_files(dirpath)
        box["names"], box["files"], box["leftovers"] = names, files, leftovers
        layout = []
        if ext is not None:
            rank = {n: k + 1 for k, n in enumerate(names)}
            layout = [[rank.get(os.path.basename(str(getattr(x, "location", "?"))), 0), int(getattr(x, "offset", 0) or 0)]
                      for x in ext]
        box["layout"] = layout

        def fin():
            env.mon.caller = outcome

        if env.gated:
            fin()
            env.emit("Return", 0, files=files if outcome == "returned" else [], lay=layout)
        else:
            env.emit("Return", 0, mutate=fin, files=files if outcome == "returned" else [], lay=layout)

    return body


def _result(env, raw, mode, box, choices, runnable) -> Result:
    return Result(raw, mode, env.events, choices, runnable, box.get("outcome", "none"), box.get("error"),
                  box.get("files", []), box.get("names", []), env.deadlock, list(env.mon.cb), list(env.mon.cb_log),
                  box.get("layout", []))


def run_gated(raw: dict, chooser, dirpath: str) -> Result:
    """One execution of the real code under the deterministic scheduler."""
    global _ENV
    _fresh(dirpath)
    raw = norm_raw(raw)
    tensors = make_tensors(raw)
    env = sched.GatedEnv(len(tensors), spec_sharded(raw), chooser)
    box: dict = {}
    with sched.installed(env):
        _ENV = env
        try:
            body = _main_body(env, raw, tensors, dirpath, box)
            env.run(body)
        finally:
            _ENV = None
    if box.get("unexpected"):
        box["error"] = box["unexpected"]
    return _result(env, raw, "gated", box, list(env.choices), list(env.runnable_log))


def run_real(raw: dict, dirpath: str, timeout: float = 45.0) -> Result:
    """One execution with real threads; wrappers only log."""
    global _ENV
    _fresh(dirpath)
    raw = norm_raw(raw)
    tensors = make_tensors(raw)
    box: dict = {}
    env = sched.RealEnv(len(tensors), spec_sharded(raw))
    with sched.installed(env):
        _ENV = env
        try:
            body = _main_body(env, raw, tensors, dirpath, box)

            def runner():
                env.tls.tid = 0
                env.tls.job_base = 0
                env.tls.lockn = 0
                body()

            th = threading.Thread(target=runner, daemon=True, name="vf-c09-real")
            th.start()
            # a deadlock is declared only when NO event at all has been logged for `timeout` seconds
            # (robust against a heavily loaded machine); a live execution is never cut short
            seen, quiet = -1, 0.0
            while th.is_alive():
                th.join(0.5)
                n = len(env.events)
                quiet = quiet + 0.5 if n == seen else 0.0
                seen = n
                if quiet >= timeout:
                    break
            if th.is_alive() or box.get("outcome") == "timeout":
                env.deadlock = {"blocked": [["?", "real threads did not finish"]], "idle": [], "obs": env._snapshot(),
                                "why": "deadlock"}
                with env.log:
                    env.events.append({"t": 0, "op": "Deadlock", "i": 0, "cmp": 0, "post": env._snapshot()})
                    nev = len(env.events)
                env.abort()
                th.join(10)
                env.drain(10)
                del env.events[nev:]
            else:
                # pool threads the code under test left running when it returned to the caller (that is what
                # ErrJoin forbids - the Return event already shows them in `busy`): let them finish, so that
                # their events are in the trace and nothing runs into the next execution
                env.drain(60)
        finally:
            _ENV = None
    if env.error is not None:
        raise MachineryError(f"real-thread run: {env.error}")
    return _result(env, raw, "real", box, [], [])


# ---------------------------------------------------------------------------------------------------
def trace_of(res: Result) -> dict:
    raw = norm_raw(res.raw)
    return {"cfg": {k: raw[k] for k in ("size", "obj", "fail", "cbfail", "fkind", "fmeth", "cap", "mw", "maxShard")},
            "mode": res.mode, "ev": res.events}


def schedule_key(res: Result):
    raw = norm_raw(res.raw)
    return (tuple(raw["size"]), tuple(raw["obj"]), tuple(raw["fail"]), tuple(raw["cbfail"]), raw["fkind"], raw["fmeth"],
            raw["cap"], raw["mw"], raw["maxShard"], tuple((e["t"], e["op"], e["i"]) for e in res.events))


def explore_dfs(raw: dict, dirpath: str, bound: int, limit: int):
    """Systematic exploration: breadth-first over the number of preemptions (<= bound), at most `limit` runs.
    A preemption = switching away from the thread that ran last although it is still runnable."""
    work = collections.deque([([], 0)])
    n = 0
    while work and n < limit:
        prefix, npre = work.popleft()
        res = run_gated(raw, sched.ScriptChooser(prefix), dirpath)
        n += 1
        yield res
        ch, rl = res.choices, res.runnable
        for k in range(len(prefix), len(ch)):
            prev = ch[k - 1] if k > 0 else None
            for alt in rl[k]:
                if alt == ch[k]:
                    continue
                cost = 1 if (prev in rl[k]) else 0
                if npre + cost <= bound:
                    work.append((ch[:k] + [alt], npre + cost))
