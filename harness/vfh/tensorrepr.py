"""C04 binding: execute the states TLC printed for specs/serde/TensorReprMC.tla on the real onnx_ir.

One record = one TLC state = (logical tensor, representation, number of tofile() calls, destination kind) together
with everything the specification derived for it: the element types the representation applies to, what the
representation stores (packed bytes / int32 entries per element type / typed-field entries / data file, offset and
length), the expected packed bytes, nbytes and dims, and the destination file content and position after the writes.
For every applicable element type the state is built with the public API and compared with those expectations.

The oracle is the record.  The only computations done here on expected data are conversions between notations
(bytes <-> Python numbers of the field's machine type, masking a numpy item to its low bits).

Finding classes
  violation  - the library's observable differs from the specification's (or raises) : a C04 violation
  divergence - the specification and the ONNX reference encoder/decoder differ, or harness bookkeeping mismatches:
               never a verdict, counted in ctx.extra["divergences"]
  adjacent   - a defect seen at one of the property's observation points that the statement does not forbid
               (serialize_tensor() raising): never a verdict, counted in ctx.extra["adjacent_findings"]
"""

from __future__ import annotations

import io
import json
import os
import zlib
import struct
import sys
import traceback

import numpy as np

import onnx
import onnx_ir as ir
from onnx import helper as onnx_helper
from onnx import numpy_helper

_TORCH = None


def _torch():
    global _TORCH
    if _TORCH is None:
        try:
            import torch  # noqa: PLC0415

            torch.set_num_threads(1)
            _TORCH = torch
        except Exception:  # noqa: BLE001
            _TORCH = False
    return _TORCH


def torch_available() -> bool:
    return bool(_torch())


SUB = {"b2": 2, "b4": 4}


# ----------------------------------------------------------------------------------------------------------------
# notation helpers
# ----------------------------------------------------------------------------------------------------------------
def _b(seq) -> bytes:
    return bytes(seq)


def patterns_of(arr: np.ndarray, cls: str):
    """The element bit patterns of a numpy array in the record's notation."""
    if cls == "string":
        return [bytes(x) if isinstance(x, (bytes, bytearray, np.bytes_)) else x for x in arr.ravel().tolist()]
    a = np.ascontiguousarray(arr)
    if cls in SUB:
        mask = (1 << SUB[cls]) - 1
        return [int(x) & mask for x in a.reshape(-1).view(np.uint8).tolist()]
    raw = a.tobytes()
    k = a.dtype.itemsize
    return [list(raw[i : i + k]) for i in range(0, len(raw), k)]


def want_codes(rec):
    if rec["cls"] == "string":
        return [bytes(c) for c in rec["codes"]]
    return rec["codes"]


def np_dtype_of(name: str) -> np.dtype:
    return ir.DataType[name].numpy()


def _take_view(flat, rec, view: str, split):
    """The tensor's elements inside the stored buffer `flat` (1-D), as the view kind prescribes, shaped to dims."""
    n, start, step, dims = rec["n"], rec["start"], rec["step"], tuple(rec["dims"])
    if view == "chunk" and n > 0:
        piece = split(flat)  # the second of two equal pieces
    elif view == "strided":
        piece = flat[start::step][:n]
    elif view in ("win", "chunk"):
        piece = flat[start : start + n]
    elif view == "colmajor":
        # the buffer holds the elements in column-major order: a transposed (Fortran-contiguous) array of shape dims
        if len(dims) < 2:
            return flat.reshape(dims)
        rev = flat.reshape(dims[::-1])
        return rev.permute(*range(len(dims) - 1, -1, -1)) if hasattr(rev, "permute") else rev.T
    elif view == "swapped":
        # same values, every element stored in the non-native byte order
        return flat.astype(flat.dtype.newbyteorder(">" if sys.byteorder == "little" else "<")).reshape(dims)
    else:
        piece = flat
    return piece.reshape(dims)


def _flat_native(codes, cls: str, dt) -> np.ndarray:
    if cls == "string":
        a = np.empty(len(codes), dtype=object)
        for i, c in enumerate(codes):
            a[i] = bytes(c)
        return a
    if cls in SUB:
        return np.array(codes, dtype=np.uint8).view(dt)
    flat = b"".join(bytes(c) for c in codes)
    return np.frombuffer(flat, dtype=dt) if flat else np.empty((0,), dtype=dt)


def logical_array(rec, dname: str) -> np.ndarray:
    """numpy / ml_dtypes array holding exactly the logical tensor's patterns and owning its buffer
    (built by viewing the pattern bytes); used for the ONNX reference encoder."""
    cls = rec["cls"]
    dt = None if cls == "string" else np_dtype_of(dname)
    return _flat_native(rec["codes"], cls, dt).reshape(tuple(rec["dims"]))


def native_array(rec, dname: str, view: str = "own") -> np.ndarray:
    """numpy / ml_dtypes array for the array-backed representation: the stored buffer, then the view."""
    cls = rec["cls"]
    dt = None if cls == "string" else np_dtype_of(dname)
    flat = _flat_native(rec["scodes"], cls, dt)
    return _take_view(flat, rec, view, lambda f: np.split(f, 2)[1])


def bits_array(rec, dname: str, signed: bool, view: str = "own") -> np.ndarray:
    cls = rec["cls"]
    if cls in SUB:
        a = np.array(rec["scodes"], dtype=np.uint8)
        flat = a.view(np.int8) if signed else a
    else:
        raw = b"".join(bytes(c) for c in rec["scodes"])
        dt = np.uint16 if cls == "b16" else np.uint8
        flat = np.frombuffer(raw, dtype=dt) if raw else np.empty((0,), dtype=dt)
    return _take_view(flat, rec, view, lambda f: np.split(f, 2)[1])


def file_bytes(f) -> bytes:
    """Expand the specification's abstract file  padding(padlen, cyclic padpat) ++ data ++ tail."""
    pat = bytes(f["padpat"])
    k = f["padlen"]
    pad = (pat * (k // len(pat) + 1))[:k] if k else b""
    return pad + bytes(f["data"]) + bytes(f["tail"])


def entry_value(field: str, e):
    b = bytes(e)
    if field == "int64_data":
        return int.from_bytes(b, "little", signed=True)
    if field == "uint64_data":
        return int.from_bytes(b, "little", signed=False)
    if field == "float_data":
        return struct.unpack("<f", b)[0]
    if field == "double_data":
        return struct.unpack("<d", b)[0]
    if field == "string_data":
        return b
    raise ValueError(field)


def entry_bytes(field: str, v) -> list:
    if field == "int64_data":
        return list(int(v).to_bytes(8, "little", signed=True))
    if field == "uint64_data":
        return list(int(v).to_bytes(8, "little", signed=False))
    if field == "float_data":
        return list(struct.pack("<f", v))
    if field == "double_data":
        return list(struct.pack("<d", v))
    return list(v)


def make_proto(rec, base, dname: str, ints) -> onnx.TensorProto:
    p = onnx.TensorProto()
    p.name = "t"
    p.data_type = int(ir.DataType[dname])
    p.dims.extend(rec["dims"])
    f = base["field"]
    if f == "raw_data":
        p.raw_data = _b(rec["sbytes"])
    elif f == "int32_data":
        p.int32_data.extend(ints)
    else:
        getattr(p, f).extend([entry_value(f, e) for e in rec["entries"]])
    return p


# ----------------------------------------------------------------------------------------------------------------
# building a representation
# ----------------------------------------------------------------------------------------------------------------
class Built:
    def __init__(self, tensor, cleanup=None, aux=None):
        self.tensor, self.cleanup, self.aux = tensor, cleanup, aux or {}

    def close(self):
        if self.cleanup:
            try:
                self.cleanup()
            except Exception:  # noqa: BLE001
                pass


_counter = [0]


def build_base(rec, base, dname: str, ints, workdir: str) -> Built:
    kind = base["kind"]
    d = ir.DataType[dname]
    dims = list(rec["dims"])
    if kind == "array":
        flav, view = base["flav"], base["view"]
        if rec["cls"] == "string":
            if flav == "list":
                return Built(ir.StringTensor([bytes(c) for c in rec["scodes"]], shape=ir.Shape(dims)))
            return Built(ir.StringTensor(native_array(rec, dname, view)))
        if flav == "native":
            return Built(ir.Tensor(native_array(rec, dname, view)))
        if flav == "ctor":
            return Built(ir.tensor(native_array(rec, dname, view), dtype=d))
        if flav == "bits":
            return Built(ir.Tensor(bits_array(rec, dname, False, view), dtype=d))
        if flav == "sbits":
            return Built(ir.Tensor(bits_array(rec, dname, True, view), dtype=d))
        raise ValueError(flav)
    if kind == "packed":
        return Built(ir.PackedTensor(np.array(rec["sbytes"], dtype=np.uint8), d, shape=dims))
    if kind == "proto":
        p = make_proto(rec, base, dname, ints)
        return Built(ir.from_proto(p), aux={"proto": p})
    if kind == "external":
        _counter[0] += 1
        name = f"x{os.getpid()}_{_counter[0]}.bin"
        path = os.path.join(workdir, name)
        decoy = None
        if _counter[0] % 2:
            # history of the PATH (ExtWindow of TensorRepr.tla reads the file that is there NOW): another file used to
            # be at this path, a tensor that mapped it is still alive and unreleased, and the data file was then
            # replaced the way data files are replaced (temporary file + os.replace)
            content = file_bytes(rec["file"])
            with open(path, "wb") as f:
                f.write(bytes((b + 0x5B) & 0xFF for b in content) + b"\x5b" * 16)
            decoy = ir.ExternalTensor(name, 0, None, ir.DataType.UINT8, shape=ir.Shape([len(content) + 16]), name="decoy",
                                      base_dir=workdir)
            held = decoy.numpy()          # maps the old file; kept referenced until the case is over
            tmp = path + ".new"
            with open(tmp, "wb") as f:
                f.write(content)
            os.replace(tmp, path)
            decoy = (decoy, held)
        else:
            with open(path, "wb") as f:
                f.write(file_bytes(rec["file"]))
        t = ir.ExternalTensor(
            name,
            rec["off"],
            rec["len"] if rec["len"] >= 0 else None,
            d,
            shape=ir.Shape(dims),
            name="t",
            base_dir=workdir,
        )

        def cleanup():
            try:
                t.release()
                if decoy is not None:
                    decoy[0].release()
            finally:
                os.unlink(path)

        return Built(t, cleanup)
    if kind == "torch":
        torch = _torch()
        from onnx_ir import tensor_adapters  # noqa: PLC0415

        tdt = tensor_adapters.to_torch_dtype(d)
        if rec["cls"] in SUB:
            flat = torch.tensor(rec["scodes"], dtype=torch.uint8).view(tdt)
        else:
            raw = b"".join(bytes(c) for c in rec["scodes"])
            flat = torch.frombuffer(bytearray(raw), dtype=torch.uint8).view(tdt) if raw else torch.empty((0,), dtype=tdt)
        view = base["view"]
        tt = _take_view(flat, rec, view, lambda f: torch.chunk(f, 2)[1])
        # the view must really be what the state says (otherwise the harness, not the library, is at fault)
        if rec["n"] > 0 and view in ("win", "chunk") and not (tt.storage_offset() > 0 and tt.is_contiguous()):
            raise AssertionError(f"harness: torch {view} view has storage_offset {tt.storage_offset()}")
        if rec["n"] > 1 and view == "strided" and tt.is_contiguous():
            raise AssertionError("harness: torch strided view is contiguous")
        return Built(ir.tensor(tt, name="t"), aux={"torch": tt})
    raise ValueError(kind)


def build(rec, dname: str, ints, workdir: str) -> Built:
    rep, base = rec["rep"], rec["base"]
    if rep["kind"] != "lazy":
        return build_base(rec, base, dname, ints, workdir)
    inner = []

    def thunk():
        b = build_base(rec, base, dname, ints, workdir)
        inner.append(b)
        return b.tensor

    def cleanup():
        for b in inner:
            b.close()

    lt = ir.LazyTensor(thunk, dtype=ir.DataType[dname], shape=ir.Shape(list(rec["dims"])), cache=rep["cache"], name="t")
    return Built(lt, cleanup, aux={"inner": inner})


# ----------------------------------------------------------------------------------------------------------------
# one state
# ----------------------------------------------------------------------------------------------------------------
def rep_label(rec) -> str:
    rep, base = rec["rep"], rec["base"]
    lab = base["kind"]
    if base["kind"] == "array":
        lab += "-" + base["flav"]
    if base["view"] not in ("-", "own"):
        lab += "~" + base["view"]
    if base["kind"] == "proto":
        lab += "-" + base["field"]
    if rep["kind"] == "lazy":
        lab += "+lazy"
    return lab


def tags_of(rec) -> str:
    """Structural qualifier of a signature: "n0" empty tensor; for external tensors the page-crossing offset kind
    ("p4096", ...) or "end" when the tensor's bytes end the data file; "any" otherwise."""
    if rec["n"] == 0:
        return "n0"
    if rec["base"]["kind"] == "external":
        offk = rec["base"]["offk"]
        if offk.startswith("p"):
            return offk
        if not rec["file"]["tail"]:
            return "end"
    return "any"


class Findings:
    def __init__(self, rec, dname):
        self.rec, self.dname = rec, dname
        self.items = []

    def add(self, cls_, obs, outcome, got=None, want=None, exc=None):
        rec = self.rec
        sig = ":".join(["C04", rep_label(rec), rec["cls"], obs, outcome, tags_of(rec)])
        msg = (
            f"{self.dname} {rep_label(rec)} dims={rec['dims']} pat={rec['pat']} {obs}: "
            + (f"raised {exc}" if exc else f"got {_short(got)} want {_short(want)}")
        )
        self.items.append(
            {
                "class": cls_,
                "signature": sig,
                "detail": {"message": msg, "dtype": self.dname, "observable": obs, "state": rec, "got": _short(got), "want": _short(want)},
            }
        )


def _short(x, lim=400):
    if x is None:
        return None
    if isinstance(x, (bytes, bytearray)):
        x = list(x)
    s = repr(x)
    return s if len(s) <= lim else s[:lim] + "..."


def _exc_name(e) -> str:
    return type(e).__name__


def open_dest(dk: str, dinit, workdir: str):
    content, pos = _b(dinit["content"]), dinit["pos"]
    _counter[0] += 1
    path = os.path.join(workdir, f"d{os.getpid()}_{_counter[0]}.bin")
    if dk == "w0":
        return open(path, "wb"), path
    if dk == "wk":
        f = open(path, "wb")
        f.write(content)
        return f, path
    if dk == "rpk":
        with open(path, "wb") as g:
            g.write(content)
        f = open(path, "r+b")
        f.seek(pos)
        return f, path
    if dk == "ab":
        with open(path, "wb") as g:
            g.write(content)
        return open(path, "ab"), path
    if dk == "bio0":
        return io.BytesIO(), None
    if dk == "biok":
        f = io.BytesIO(content)
        f.seek(pos)
        return f, None
    raise ValueError(dk)


def run_state(rec, workdir: str, only_dtype: str | None = None, stats: dict | None = None):
    """Execute one TLC state. Returns (list of findings, number of implementation tests executed)."""
    out = []
    tests = 0
    for per in rec["per"]:
        dname = per["d"]
        if only_dtype and dname != only_dtype:
            continue
        if rec["base"]["kind"] == "torch" and not torch_available():
            continue
        fs = Findings(rec, dname)
        try:
            _run_one(rec, dname, per["ints"], workdir, fs)
        except Exception as e:  # noqa: BLE001 - harness bug: surface as divergence with traceback
            fs.add("divergence", "harness", _exc_name(e), exc=traceback.format_exc(limit=4))
        tests += 1
        out.extend(fs.items)
    return out, tests


def _run_one(rec, dname, ints, workdir, fs: Findings):
    cls = rec["cls"]
    d = ir.DataType[dname]
    want_bytes = _b(rec["bytes"])
    codes = want_codes(rec)
    dims = list(rec["dims"])
    try:
        built = build(rec, dname, ints, workdir)
    except Exception as e:  # noqa: BLE001
        if rec["base"].get("view") == "swapped" and isinstance(e, TypeError):
            fs.add("refused", "construct", "TypeError", exc=repr(e))   # Refusable(rep): nothing was built, nothing to compare
            return
        fs.add("violation", "construct", _exc_name(e), exc=repr(e))
        return
    t = built.tensor
    try:
        if rec["w"] == 0:
            _observe(rec, dname, d, t, built, cls, want_bytes, codes, dims, fs)
        else:
            _observe_decl(rec, d, t, dims, fs)
            # a representation whose tobytes() already returns other bytes writes those bytes: that is the tobytes
            # finding of the (same tensor, same representation, no write) state, not a second one about tofile
            try:
                wrong = bytes(t.tobytes()) != want_bytes
            except Exception:  # noqa: BLE001 - tofile() need not go through tobytes(): still exercised
                wrong = False
            if wrong:
                fs.add("violation", "tobytes", "mismatch", got=bytes(t.tobytes()), want=want_bytes)
            else:
                _write(rec, t, workdir, fs)
    finally:
        built.close()


def _observe_decl(rec, d, t, dims, fs):
    try:
        if t.dtype != d:
            fs.add("violation", "dtype", "mismatch", got=str(t.dtype), want=str(d))
        got = list(t.shape.numpy())
        if got != dims:
            fs.add("violation", "shape", "mismatch", got=got, want=dims)
        if t.size != rec["n"]:
            fs.add("violation", "size", "mismatch", got=t.size, want=rec["n"])
    except Exception as e:  # noqa: BLE001
        fs.add("violation", "decl", _exc_name(e), exc=repr(e))


def _observe(rec, dname, d, t, built, cls, want_bytes, codes, dims, fs):
    _observe_decl(rec, d, t, dims, fs)
    has_bytes = cls != "string"
    if has_bytes:
        try:
            nb = t.nbytes
            if nb != rec["nbytes"]:
                fs.add("violation", "nbytes", "mismatch", got=nb, want=rec["nbytes"])
        except Exception as e:  # noqa: BLE001
            fs.add("violation", "nbytes", _exc_name(e), exc=repr(e))
        try:
            got = t.tobytes()
            if bytes(got) != want_bytes:
                fs.add("violation", "tobytes", "mismatch", got=bytes(got), want=want_bytes)
        except Exception as e:  # noqa: BLE001
            fs.add("violation", "tobytes", _exc_name(e), exc=repr(e))
    # numpy(): shape, element type, element patterns
    try:
        arr = t.numpy()
        if tuple(arr.shape) != tuple(dims):
            fs.add("violation", "numpy-shape", "mismatch", got=list(arr.shape), want=dims)
        if has_bytes and arr.dtype != d.numpy():
            fs.add("violation", "numpy-dtype", "mismatch", got=str(arr.dtype), want=str(d.numpy()))
        got = patterns_of(arr, cls)
        if got != codes:
            fs.add("violation", "numpy", "mismatch", got=got, want=codes)
    except Exception as e:  # noqa: BLE001
        fs.add("violation", "numpy", _exc_name(e), exc=repr(e))
    if cls == "string" and hasattr(t, "string_data"):
        try:
            got = [bytes(x) for x in t.string_data()]
            if got != codes:
                fs.add("violation", "string_data", "mismatch", got=got, want=codes)
        except Exception as e:  # noqa: BLE001
            fs.add("violation", "string_data", _exc_name(e), exc=repr(e))
    # ir-py encoder: serialize_tensor, then the ONNX reference decoder on ir-py's output
    base = rec["base"]
    if base["kind"] != "external":
        try:
            p2 = ir.serde.serialize_tensor(t)
            if p2.data_type != int(d) or list(p2.dims) != dims:
                fs.add("violation", "serialize-decl", "mismatch", got=[p2.data_type, list(p2.dims)], want=[int(d), dims])
            if has_bytes:
                stored = _proto_bytes_if_raw(p2)
                if stored is not None and stored != want_bytes:
                    fs.add("violation", "serialize", "mismatch", got=stored, want=want_bytes)
            elif [bytes(x) for x in p2.string_data] != codes:
                fs.add("violation", "serialize", "mismatch", got=list(p2.string_data), want=codes)
            _onnx_decode(rec, p2, cls, codes, dims, fs, "onnx-decode-of-serialized", "violation")
        except Exception as e:  # noqa: BLE001
            # serialize_tensor() refusing a tensor is a defect at one of the property's observation points, but the
            # statement only forbids *different* bytes / values: reported as "adjacent", never a C04 verdict
            fs.add("adjacent", "serialize", _exc_name(e), exc=repr(e))
    # the specification against the ONNX reference (validates the spec; independent of ir-py)
    if rec["rep"]["kind"] == "proto":
        _onnx_decode(rec, built.aux["proto"], cls, codes, dims, fs, "spec-vs-onnx-decode", "divergence")
        _onnx_make_tensor(rec, dname, built.aux["proto"], fs)
        if cls == "string":
            # the proto-backed class itself (from_proto hands strings to StringTensor)
            try:
                tp = ir.serde.TensorProtoTensor(built.aux["proto"])
                if patterns_of(tp.numpy(), cls) != codes or list(tp.shape.numpy()) != dims or tp.dtype != d:
                    fs.add("violation", "numpy-protoclass", "mismatch", got=patterns_of(tp.numpy(), cls), want=codes)
            except Exception as e:  # noqa: BLE001
                fs.add("violation", "numpy-protoclass", _exc_name(e), exc=repr(e))
    if rec["rep"]["kind"] == "array" and rec["rep"]["flav"] == "native" and rec["rep"]["view"] == "own":
        _onnx_encode(rec, dname, d, cls, want_bytes, codes, dims, fs)


def _proto_bytes_if_raw(p):
    return bytes(p.raw_data) if p.HasField("raw_data") else None


def _utf8(codes) -> bool:
    try:
        for c in codes:
            c.decode("utf-8")
        return True
    except UnicodeDecodeError:
        return False


def _onnx_decode(rec, proto, cls, codes, dims, fs, obs, klass):
    """onnx.numpy_helper.to_array on a TensorProto must give the stated patterns."""
    if cls == "string" and not _utf8(codes):
        return  # the reference decoder turns strings into str: only defined for UTF-8 content
    try:
        arr = numpy_helper.to_array(proto)
    except Exception as e:  # noqa: BLE001
        fs.add("divergence", obs, _exc_name(e), exc=repr(e))
        return
    if cls == "string":
        got = [x.encode("utf-8") if isinstance(x, str) else bytes(x) for x in arr.ravel().tolist()]
    else:
        got = patterns_of(arr, cls)
    if got != codes or tuple(arr.shape) != tuple(dims):
        fs.add(klass, obs, "mismatch", got=got, want=codes)


def _onnx_encode(rec, dname, d, cls, want_bytes, codes, dims, fs):
    """onnx.numpy_helper.from_array on the native array must give the specification's packed bytes."""
    try:
        p = numpy_helper.from_array(logical_array(rec, dname), "t")
    except Exception as e:  # noqa: BLE001
        fs.add("divergence", "spec-vs-onnx-encode", _exc_name(e), exc=repr(e))
        return
    if p.data_type != int(d) or list(p.dims) != dims:
        fs.add("divergence", "spec-vs-onnx-encode-decl", "mismatch", got=[p.data_type, list(p.dims)], want=[int(d), dims])
    if cls == "string":
        if [bytes(x) for x in p.string_data] != codes:
            fs.add("divergence", "spec-vs-onnx-encode", "mismatch", got=list(p.string_data), want=codes)
    elif bytes(p.raw_data) != want_bytes:
        fs.add("divergence", "spec-vs-onnx-encode", "mismatch", got=bytes(p.raw_data), want=want_bytes)


_NO_MAKE_TENSOR = {"FLOAT8E4M3FN", "FLOAT8E4M3FNUZ", "FLOAT8E5M2", "FLOAT8E5M2FNUZ", "FLOAT8E8M0", "STRING"}


def _onnx_make_tensor(rec, dname, proto, fs):
    """onnx.helper.make_tensor (typed-field encoder) must produce the specification's field content.

    Skipped for the 8-bit floats: make_tensor casts *values* with saturation, so non-finite patterns change.
    """
    f = rec["base"]["field"]
    if f == "raw_data" or dname in _NO_MAKE_TENSOR:
        return
    try:
        arr = logical_array(rec, dname)
        p = onnx_helper.make_tensor("t", int(ir.DataType[dname]), list(rec["dims"]), arr.reshape(-1), raw=False)
    except Exception as e:  # noqa: BLE001
        fs.add("divergence", "spec-vs-onnx-field", _exc_name(e), exc=repr(e))
        return
    if f == "int32_data":
        got, want = list(p.int32_data), list(proto.int32_data)
    else:
        got = [entry_bytes(f, v) for v in getattr(p, f)]
        want = [entry_bytes(f, v) for v in getattr(proto, f)]
    if got != want:
        fs.add("divergence", "spec-vs-onnx-field", "mismatch", got=got, want=want)


KERNEL_CHUNKS = (0, 1, 3)     # TensorRepr.tla, KernelChunks: the kernel hands over at most k bytes per call (0 = all)


class _ShortTransfers:
    """Make the operating system's in-kernel copy transfer at most k bytes per call - a legal behaviour of
    copy_file_range(2) that a real kernel shows for large or interrupted copies."""

    def __init__(self, k: int):
        self.k = k
        self.calls = 0

    def __enter__(self):
        self.orig = getattr(os, "copy_file_range", None)
        if self.k and self.orig is not None:
            orig, k, me = self.orig, self.k, self

            def short(src, dst, count, offset_src=None, offset_dst=None):
                me.calls += 1
                return orig(src, dst, min(count, k), offset_src, offset_dst)

            os.copy_file_range = short
        return self

    def __exit__(self, *exc):
        if self.orig is not None:
            os.copy_file_range = self.orig
        return False


def _write(rec, t, workdir, fs):
    # representations that copy inside the kernel are written once per transfer granularity, the others once
    # with a granularity derived from the state (deterministic)
    if rec["base"]["kind"] == "external" and rec["dk"] in ("w0", "wk", "rpk", "ab"):
        ks = KERNEL_CHUNKS
    else:
        ks = (KERNEL_CHUNKS[zlib.crc32(json.dumps([rec["dk"], rec["base"]], sort_keys=True, default=str).encode()) % len(KERNEL_CHUNKS)],)
    for kchunk in ks:
        _write_k(rec, t, workdir, fs, kchunk)


def _write_k(rec, t, workdir, fs, kchunk):
    dk = rec["dk"]
    want_content, want_pos = _b(rec["dst"]["content"]), rec["dst"]["pos"]
    f, path = open_dest(dk, rec["dinit"], workdir)
    try:
        try:
            with _ShortTransfers(kchunk):
                for _ in range(rec["w"]):
                    t.tofile(f)
            pos = f.tell()
        except Exception as e:  # noqa: BLE001
            fs.add("violation", f"tofile-{dk}", _exc_name(e), exc=repr(e))
            return
        if path is None:
            content = f.getvalue()
        else:
            f.close()
            with open(path, "rb") as g:
                content = g.read()
        kk = f"~k{kchunk}" if kchunk else ""
        if content != want_content:
            fs.add("violation", f"tofile-{dk}{kk}", "mismatch", got=content, want=want_content)
        if pos != want_pos:
            fs.add("violation", f"tofile-pos-{dk}{kk}", "mismatch", got=pos, want=want_pos)
    finally:
        try:
            f.close()
        except Exception:  # noqa: BLE001
            pass
        if path is not None and os.path.exists(path):
            os.unlink(path)


# ----------------------------------------------------------------------------------------------------------------
# element type tables
# ----------------------------------------------------------------------------------------------------------------
def check_tables(tables: list):
    """Compare the specification's element type tables with onnx_ir._enums / onnx. Returns (findings, nchecks)."""
    import ml_dtypes  # noqa: PLC0415

    out = []
    n = 0

    def add(klass, name, what, got, want):
        out.append(
            {
                "class": klass,
                "signature": f"C04:tables:{name}:{what}",
                "detail": {"message": f"element type table {what} of {name}: library {got!r}, specification {want!r}", "tables_row": name, "got": repr(got), "want": repr(want)},
            }
        )

    spec_names = {r["name"] for r in tables}
    real_names = {m.name for m in ir.DataType if m.name != "UNDEFINED"}
    if spec_names != real_names:
        add("divergence", "*", "enum-members", sorted(real_names - spec_names), sorted(spec_names - real_names))
    for r in tables:
        name = r["name"]
        if name not in real_names:
            continue
        d = ir.DataType[name]

        def chk(what, got, want, klass="violation"):
            nonlocal n
            n += 1
            if got != want:
                add(klass, name, what, got, want)

        def attempt(fn):
            try:
                return fn()
            except Exception as e:  # noqa: BLE001
                return f"raised {type(e).__name__}"

        chk("enum-value", int(d), r["value"])
        chk("onnx-enum-value", attempt(lambda: onnx.TensorProto.DataType.Value(name)), r["value"])
        if r["bits"] >= 0:
            chk("bitwidth", attempt(lambda: d.bitwidth), r["bits"])
            chk("itemsize", attempt(lambda: d.itemsize * r["isden"]), r["isnum"])
        else:
            chk("bitwidth", attempt(lambda: d.bitwidth), "raised TypeError")
        npname = r["np"]["name"]
        want_np = np.dtype(getattr(ml_dtypes, npname)) if hasattr(ml_dtypes, npname) and not hasattr(np, npname) else np.dtype(npname)
        got_np = attempt(lambda: d.numpy())
        chk("numpy-type", got_np, want_np)
        if isinstance(got_np, np.dtype):
            if r["bits"] >= 0:
                chk("numpy-itemsize", got_np.itemsize * 8, r["np"]["bits"])
            chk("from-numpy", attempt(lambda: ir.DataType.from_numpy(got_np)), d)
        sn = r["short"]
        want_short = sn["pre"] + (str(sn["num"]) if sn["num"] else "") + sn["suf"]
        chk("short-name", attempt(lambda: d.short_name()), want_short)
        chk("from-short-name", attempt(lambda: ir.DataType.from_short_name(want_short)), d)
        kind = r["kind"]
        chk("is-integer", d.is_integer(), kind in ("int", "uint"))
        chk("is-floating-point", d.is_floating_point(), kind == "float")
        chk("is-string", d.is_string(), kind == "string")
        # ONNX's own table (reference)
        chk("onnx-numpy-type", attempt(lambda: onnx_helper.tensor_dtype_to_np_dtype(r["value"])), want_np, klass="divergence")
        # torch adapter table (harness data)
        if torch_available():
            from onnx_ir import tensor_adapters  # noqa: PLC0415

            got_t = not str(attempt(lambda: tensor_adapters.to_torch_dtype(d))).startswith("raised")
            chk("torch-adapter", got_t, r["torch"], klass="divergence")
    return out, n


# ----------------------------------------------------------------------------------------------------------------
# batch execution (one worker process handles a byte range of TLC's output file)
# ----------------------------------------------------------------------------------------------------------------
def parse_line(line: str):
    if not line.startswith('"'):
        return None
    try:
        inner = json.loads(line)
        if isinstance(inner, str) and inner[:1] == "{":
            return json.loads(inner)
    except ValueError:
        return None
    return None


def stratum(rec) -> tuple:
    base = rec["base"]
    return (rec["cls"], rec["rep"]["kind"], rec["rep"]["inner"], base["kind"], base["flav"], base["view"], base["field"], base["offk"], base["lenGiven"], rec["dk"], rec["w"])


def worker(args):
    """args = (out_path, start, end, workdir, keep_fraction, seed). Processes the lines starting in [start, end)."""
    import random  # noqa: PLC0415

    out_path, start, end, workdir, frac, seed = args
    if sys.byteorder != "little":
        return {"error": "big-endian host"}
    os.makedirs(workdir, exist_ok=True)
    rng = random.Random(f"{seed}:{start}")
    res = {"states": 0, "executed": 0, "tests": 0, "unparsed": 0, "findings": {}, "counts": {}, "strata": {}, "samples": []}
    pending = {}  # stratum -> one skipped record (so that every stratum is executed at least once per chunk)
    with open(out_path, "rb") as f:
        if start > 0:
            f.seek(start - 1)
            if f.read(1) != b"\n":
                f.readline()
        while f.tell() < end:
            raw = f.readline()
            if not raw:
                break
            line = raw.decode("utf-8", "replace")
            if not line.startswith('"'):
                continue
            rec = parse_line(line)
            if rec is None or "rep" not in rec:
                if rec is None:
                    res["unparsed"] += 1
                continue
            res["states"] += 1
            st = stratum(rec)
            if frac < 1.0 and rng.random() >= frac:
                if st not in res["strata"] and st not in pending:
                    pending[st] = rec
                continue
            pending.pop(st, None)
            _execute(rec, st, workdir, res)
    for st, rec in pending.items():
        if st not in res["strata"]:
            _execute(rec, st, workdir, res)
    res["torch"] = torch_available()
    return res


def _execute(rec, st, workdir, res):
    items, tests = run_state(rec, workdir)
    res["executed"] += 1
    res["tests"] += tests
    res["strata"][st] = res["strata"].get(st, 0) + 1
    if len(res["samples"]) < 2 and rec["n"] >= 3 and rec["w"] >= 1:
        res["samples"].append({k: rec[k] for k in ("cls", "n", "dims", "pat", "bytes", "nbytes", "w", "dk")} | {"rep": rep_label(rec), "dtypes": [p["d"] for p in rec["per"]]})
    for it in items:
        sig = it["signature"]
        key = (it["class"], sig)
        res["counts"][key] = res["counts"].get(key, 0) + 1
        if key not in res["findings"]:
            res["findings"][key] = it["detail"]


def chunk_ranges(path: str, nchunks: int):
    size = os.path.getsize(path)
    step = max(1, size // nchunks)
    edges = list(range(0, size, step))[:nchunks] + [size]
    return [(edges[i], edges[i + 1]) for i in range(len(edges) - 1) if edges[i] < edges[i + 1]]


def run_file(out_path: str, workdir: str, nproc: int, frac: float, seed: int):
    import multiprocessing as mp  # noqa: PLC0415

    torch_available()  # import torch once, before forking (a fresh import costs ~2.5 s CPU per worker process)
    ranges = chunk_ranges(out_path, max(1, nproc * 4))
    jobs = [(out_path, a, b, os.path.join(workdir, f"w{i}"), frac, seed) for i, (a, b) in enumerate(ranges)]
    if nproc <= 1:
        results = [worker(j) for j in jobs]
    else:
        ctx = mp.get_context("fork")
        with ctx.Pool(nproc) as pool:
            results = pool.map(worker, jobs, chunksize=1)
    total = {"states": 0, "executed": 0, "tests": 0, "unparsed": 0, "findings": {}, "counts": {}, "strata": {}, "samples": [], "torch": True}
    for r in results:
        if "error" in r:
            raise RuntimeError(r["error"])
        total["torch"] = total["torch"] and r["torch"]
        for k in ("states", "executed", "tests", "unparsed"):
            total[k] += r[k]
        for k, v in r["counts"].items():
            total["counts"][k] = total["counts"].get(k, 0) + v
        for k, v in r["findings"].items():
            total["findings"].setdefault(k, v)
        for k, v in r["strata"].items():
            total["strata"][k] = total["strata"].get(k, 0) + v
        total["samples"].extend(r["samples"])
    return total
