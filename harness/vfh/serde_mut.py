"""C17 mutation stage: field-level and byte-level mutations of concretised enumerated protos.

Every mutant is judged by the same postcondition as the enumerated protos (serde_run.judge_c17):
terminates within the per-case limit; raises, or returns an IR whose projection satisfies the C01
invariants (evaluated by TLC); serialize-again fixpoint; no file access during deserialization or while
inspecting name/dtype/shape/size of the resulting tensors.
"""

from __future__ import annotations

import random

import onnx
from google.protobuf.message import DecodeError

from . import serde_run as R

TP = onnx.TensorProto


def _varint(x: int) -> bytes:
    out = b""
    while True:
        b7 = x & 0x7F
        x >>= 7
        if x:
            out += bytes([b7 | 0x80])
        else:
            return out + bytes([b7])


def _all_graphs(mp):
    out = []

    def walk(g):
        out.append(g)
        for n in g.node:
            for a in n.attribute:
                if a.type == onnx.AttributeProto.GRAPH:
                    walk(a.g)
                for s in a.graphs:
                    walk(s)

    walk(mp.graph)
    return out


def _tensors(mp):
    ts = []
    for g in _all_graphs(mp):
        ts.extend(g.initializer)
        for n in g.node:
            for a in n.attribute:
                if a.HasField("t"):
                    ts.append(a.t)
                ts.extend(a.tensors)
    return ts


def _ensure_tensor(mp, rng):
    ts = _tensors(mp)
    if ts:
        return rng.choice(ts)
    t = mp.graph.initializer.add()
    t.name = "mut_w"
    t.data_type = TP.FLOAT
    t.dims.append(2)
    t.float_data.extend([1.0, 2.0])
    return t


def _ensure_node(mp, rng):
    ns = [n for g in _all_graphs(mp) for n in g.node]
    if ns:
        return rng.choice(ns)
    n = mp.graph.node.add()
    n.op_type = "Mut"
    n.input.append("mut_in")
    n.output.append("mut_out")
    return n


# ---- field-level mutators: (name, function(mp, rng) -> None | bytes) --------------------------------------
def m_unknown_dtype(mp, rng):
    _ensure_tensor(mp, rng).data_type = rng.choice([999, -1, 28, 2**31 - 1, 0])


def m_unknown_elem_type(mp, rng):
    vis = [v for g in _all_graphs(mp) for v in list(g.input) + list(g.output) + list(g.value_info)]
    if not vis:
        vis = [mp.graph.input.add()]
        vis[0].name = "mut_v"
    v = rng.choice(vis)
    v.type.tensor_type.elem_type = rng.choice([4242, -5, 0, 27, 100])


def m_partial_type(mp, rng):
    """A type that says something but not what kind of elements: a tensor type with a shape and no element type,
    a type with nothing but a denotation, a sequence/optional wrapper around nothing."""
    cands = [v for g in _all_graphs(mp) for v in g.value_info]
    vis = cands if cands and rng.random() < 0.7 else [v for g in _all_graphs(mp) for v in list(g.input) + list(g.output)]
    if not vis:
        node = _ensure_node(mp, rng)
        if not node.output:
            node.output.append("mut_partial")
        vis = [mp.graph.value_info.add()]
        vis[0].name = node.output[0]
    v = rng.choice(vis)
    kind = rng.randrange(4)
    if kind == 0:
        shape_dims = list(v.type.tensor_type.shape.dim) if v.type.WhichOneof("value") == "tensor_type" else []
        v.type.Clear()
        v.type.tensor_type.shape.dim.extend(shape_dims)
        if not shape_dims:
            v.type.tensor_type.shape.dim.add().dim_value = 3
    elif kind == 1:
        v.type.Clear()
        v.type.denotation = "TENSOR"
    elif kind == 2:
        v.type.Clear()
        v.type.sequence_type.elem_type.denotation = ""
        v.type.sequence_type.SetInParent()
    else:
        v.type.Clear()
        v.type.optional_type.elem_type.tensor_type.shape.dim.add().dim_param = "N"


def m_unknown_attr_type_bytes(mp, rng):
    """An AttributeProto whose 'type' carries an enum number unknown to the schema (only expressible in bytes)."""
    n = _ensure_node(mp, rng)
    a = onnx.AttributeProto()
    a.name = "mut_attr"
    raw = a.SerializeToString() + _varint((20 << 3) | 0) + _varint(rng.choice([77, 15, 1000]))
    if rng.random() < 0.5:
        raw += _varint((3 << 3) | 0) + _varint(5)  # plus an int payload
    n2 = onnx.NodeProto()
    n2.CopyFrom(n)
    n.attribute.add().ParseFromString(raw)


def m_unknown_data_location_bytes(mp, rng):
    t = _ensure_tensor(mp, rng)
    raw = t.SerializeToString() + _varint((14 << 3) | 0) + _varint(rng.choice([2, 9, 255]))
    t.ParseFromString(raw)


def m_attr_type_mismatch(mp, rng):
    n = _ensure_node(mp, rng)
    a = n.attribute.add()
    a.name = "mut_mismatch"
    a.type = rng.choice([onnx.AttributeProto.TENSOR, onnx.AttributeProto.GRAPH, onnx.AttributeProto.INTS, onnx.AttributeProto.SPARSE_TENSOR,
                         onnx.AttributeProto.SPARSE_TENSORS, onnx.AttributeProto.TYPE_PROTO, onnx.AttributeProto.UNDEFINED])
    if rng.random() < 0.5:
        a.f = 1.0  # payload of another kind


def m_invalid_utf8_bytes(mp, rng):
    n = _ensure_node(mp, rng)
    kind = rng.randrange(3)
    bad = rng.choice([b"\xff\xfe", b"\xc3\x28", b"ok\x80", b"\xed\xa0\x80"])
    if kind == 0:
        a = n.attribute.add()
        a.name = "mut_s"
        a.type = onnx.AttributeProto.STRING
        a.s = bad
    elif kind == 1:
        a = n.attribute.add()
        a.name = "mut_ss"
        a.type = onnx.AttributeProto.STRINGS
        a.strings.extend([b"fine", bad])
    else:
        t = mp.graph.initializer.add()
        t.name = "mut_str"
        t.data_type = TP.STRING
        t.dims.append(1)
        t.string_data.append(bad)


def m_invalid_utf8_string_field(mp, rng):
    """Invalid UTF-8 inside a proto2 'string' field (name / doc_string / op_type / key): only reachable via bytes."""
    target = rng.randrange(4)
    marker = "MUTUTF8"
    if target == 0:
        _ensure_node(mp, rng).name = marker
    elif target == 1:
        mp.graph.doc_string = marker
    elif target == 2:
        _ensure_node(mp, rng).op_type = marker
    else:
        if not mp.graph.input:
            mp.graph.input.add()
        mp.graph.input[0].name = marker
    raw = mp.SerializeToString()
    bad = rng.choice([b"MUT\xff\xfe8\x80", b"\xc3\x28UTF8\xa0", b"MU\xed\xa0\x80F8"])
    assert len(bad) == len(marker)
    return raw.replace(marker.encode(), bad)


def m_dims_vs_data(mp, rng):
    t = _ensure_tensor(mp, rng)
    del t.dims[:]
    t.dims.extend(rng.choice([[1000], [3, 5], [2**40], [0], [-1], [2**62, 2**62], [-3, 4], []]))


def m_two_storage_fields(mp, rng):
    t = _ensure_tensor(mp, rng)
    t.raw_data = b"\x00\x00\x80\x3f"
    t.float_data.extend([9.0])
    if rng.random() < 0.5:
        t.int64_data.extend([1, 2, 3])
    if rng.random() < 0.3:
        t.string_data.append(b"x")


def m_dtype_field_mismatch(mp, rng):
    t = _ensure_tensor(mp, rng)
    t.data_type = rng.choice([TP.STRING, TP.INT64, TP.FLOAT16, TP.BOOL, TP.INT4, TP.COMPLEX128])
    if rng.random() < 0.5:
        t.ClearField("raw_data")
        t.double_data.extend([1.0])
    if rng.random() < 0.3:
        t.segment.begin = 1
        t.segment.end = 0


_LOCATIONS = ["/etc/passwd", "../../secret.bin", "..", "", "a/../../b", "/dev/zero", "C:\\x", "x\x00y", "sub/ok.bin", "./x.bin", "a//b.bin", "a/./b.bin", "~/.ssh/id_rsa", "/proc/self/mem"]


def m_external_data(mp, rng):
    t = _ensure_tensor(mp, rng)
    t.ClearField("raw_data")
    t.data_location = TP.EXTERNAL
    del t.external_data[:]
    choice = rng.randrange(8)
    entries = []
    if choice != 0:  # 0: no location at all
        entries.append(("location", rng.choice(_LOCATIONS)))
    if choice == 1:
        entries += [("offset", "-1"), ("length", "-5")]
    elif choice == 2:
        entries += [("offset", str(2**63)), ("length", str(2**70))]
    elif choice == 3:
        entries += [("offset", "abc"), ("length", "1e3")]
    elif choice == 4:
        entries += [("location", "second.bin"), ("offset", "0"), ("offset", "8"), ("checksum", "deadbeef"), ("basepath", "/")]
    elif choice == 5:
        entries += [("length", "0"), ("unknown_key", "v"), ("", "")]
    elif choice == 6:
        entries += [("offset", ""), ("length", " 12 ")]
    for k, v in entries:
        e = t.external_data.add()
        e.key, e.value = k, v
    if rng.random() < 0.5:
        # ... combined with dims from which no sensible size follows (negative, zero, huge)
        del t.dims[:]
        t.dims.extend(rng.choice([[-1, 4], [-3], [0], [2**40], [3, -2, 2]]))


def m_external_without_flag(mp, rng):
    t = _ensure_tensor(mp, rng)
    e = t.external_data.add()
    e.key, e.value = "location", rng.choice(_LOCATIONS)


def m_graph_shape(mp, rng):
    g = rng.choice(_all_graphs(mp))
    k = rng.randrange(9)
    if k == 0 and g.node:
        g.node.add().CopyFrom(g.node[0])  # duplicated node: redeclared outputs
    elif k == 1:
        g.output.add().name = "mut_no_producer"
    elif k == 2 and g.input:
        g.input.add().CopyFrom(g.input[0])
    elif k == 3:
        n = g.node.add()
        n.op_type = ""
        n.input.extend(["mut_x", "mut_x", ""])
        n.output.extend(["", "mut_x"])  # self-cycle
    elif k == 4:
        v = g.value_info.add()
        v.name = rng.choice(["", "mut_vi", "a"])
        v.type.map_type.key_type = TP.INT64
        v.type.map_type.value_type.tensor_type.elem_type = TP.FLOAT
    elif k == 5:
        s = g.sparse_initializer.add()
        s.values.name = "mut_sparse"
        s.values.data_type = TP.FLOAT
        s.dims.append(3)
    elif k == 6:
        v = g.input.add()
        v.name = "mut_opaque"
        v.type.opaque_type.domain = "d"
        v.type.opaque_type.name = "n"
    elif k == 7:
        v = g.output.add()
        v.name = "mut_seq_no_elem"
        v.type.sequence_type.SetInParent()
    else:
        q = g.quantization_annotation.add()
        q.tensor_name = rng.choice(["", "a", "mut_q"])
        e = q.quant_parameter_tensor_names.add()
        e.key, e.value = "", ""


def m_model_shape(mp, rng):
    k = rng.randrange(7)
    if k == 0:
        mp.ir_version = rng.choice([0, -1, 999, 2**40])
    elif k == 1:
        mp.ClearField("graph")
    elif k == 2 and mp.functions:
        mp.functions.add().CopyFrom(mp.functions[0])
    elif k == 3:
        f = mp.functions.add()
        f.name = "mut_f"
        f.output.append("mut_missing")  # function output without producer
    elif k == 4:
        mp.opset_import.add(domain="", version=-1)
        mp.opset_import.add(domain="", version=2**40)
    elif k == 5:
        t = mp.training_info.add()
        t.initialization.name = "ti"
    else:
        c = mp.configuration.add()
        c.name = ""
        c.num_devices = -1
        n = _ensure_node(mp, rng)
        d = n.device_configurations.add()
        d.configuration_id = rng.choice(["", "nope"])
        s = d.sharding_spec.add()
        s.tensor_name = rng.choice(["", "mut_unknown"])


FIELD_MUTATORS = [
    ("unknown-enum:tensor.data_type", m_unknown_dtype),
    ("unknown-enum:elem_type", m_unknown_elem_type),
    ("type:partial", m_partial_type),
    ("unknown-enum:attribute.type(bytes)", m_unknown_attr_type_bytes),
    ("unknown-enum:data_location(bytes)", m_unknown_data_location_bytes),
    ("attribute:type-payload-mismatch", m_attr_type_mismatch),
    ("invalid-utf8:bytes-field", m_invalid_utf8_bytes),
    ("invalid-utf8:string-field", m_invalid_utf8_string_field),
    ("tensor:dims-vs-data", m_dims_vs_data),
    ("tensor:two-storage-fields", m_two_storage_fields),
    ("tensor:dtype-vs-field", m_dtype_field_mismatch),
    ("external-data:absurd-entries", m_external_data),
    ("external-data:entries-without-flag", m_external_without_flag),
    ("graph:malformed-structure", m_graph_shape),
    ("model:malformed-structure", m_model_shape),
]


def field_mutant(seed_bytes: bytes, mutator_index: int, rng_seed: int):
    """Returns (ModelProto | None, mutator name).  None when the mutant does not parse."""
    name, fn = FIELD_MUTATORS[mutator_index % len(FIELD_MUTATORS)]
    rng = random.Random(rng_seed)
    mp = onnx.ModelProto()
    mp.ParseFromString(seed_bytes)
    raw = fn(mp, rng)
    if isinstance(raw, (bytes, bytearray)):
        mp2 = onnx.ModelProto()
        try:
            mp2.ParseFromString(bytes(raw))
        except DecodeError:
            return None, name
        return mp2, name
    return mp, name


def byte_mutant(seed_bytes: bytes, rng_seed: int):
    """Bit flips / byte overwrites / truncations / splices of the serialized bytes that still parse."""
    rng = random.Random(rng_seed)
    b = bytearray(seed_bytes)
    if not b:
        return None, "byte:empty"
    kind = rng.randrange(5)
    if kind == 0:
        for _ in range(rng.randint(1, 3)):
            i = rng.randrange(len(b))
            b[i] ^= 1 << rng.randrange(8)
        name = "byte:bit-flip"
    elif kind == 1:
        b = b[: rng.randrange(len(b))]
        name = "byte:truncate"
    elif kind == 2:
        i = rng.randrange(len(b))
        b[i] = rng.randrange(256)
        name = "byte:overwrite"
    elif kind == 3:
        i, j = sorted((rng.randrange(len(b)), rng.randrange(len(b))))
        b = b[:i] + b[j:]
        name = "byte:delete-range"
    else:
        i, j = sorted((rng.randrange(len(b)), rng.randrange(len(b))))
        k = rng.randrange(len(b))
        b = b[:k] + b[i:j] + b[k:]
        name = "byte:duplicate-range"
    mp = onnx.ModelProto()
    try:
        mp.ParseFromString(bytes(b))
    except DecodeError:
        return None, name
    return mp, name


def work_mut(args):
    """One chunk of mutation cases: list of (seed_bytes, kind, index, rng_seed)."""
    cases, limit_s = args
    R.quiet()
    out = {"n": 0, "unparsable": 0, "viol": {}, "projs": {}, "cls": {}, "kinds": {}, "fix_checked": 0, "features": set()}
    for seed_bytes, kind, index, rng_seed in cases:
        try:
            if kind == "field":
                mp, name = field_mutant(seed_bytes, index, rng_seed)
            else:
                mp, name = byte_mutant(seed_bytes, rng_seed)
        except Exception as e:  # noqa: BLE001 - a mutator that cannot apply is not a case
            out["unparsable"] += 1
            out["kinds"]["mutator-error:" + type(e).__name__] = out["kinds"].get("mutator-error:" + type(e).__name__, 0) + 1
            continue
        if mp is None:
            out["unparsable"] += 1
            continue
        out["n"] += 1
        j = R.judge_c17(mp, limit_s)
        out["cls"][j["cls"]] = out["cls"].get(j["cls"], 0) + 1
        out["kinds"][name] = out["kinds"].get(name, 0) + 1
        out["features"].add(f"{name}|{j['cls']}|{j['exc']}|{j['fix'] if isinstance(j['fix'], str) else 'fix-diff'}")
        detail = {"kind": "mutant", "mutator": name, "mutation": kind, "index": index, "rng_seed": rng_seed, "seed_proto_hex": seed_bytes.hex()}
        R._collect_c17(out, j, detail)
    out["features"] = sorted(out["features"])
    return out
