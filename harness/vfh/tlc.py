"""Thin, careful wrapper around TLC: run a spec, parse the summary, stream emitted JSON records.

Emission convention used by every spec in /verif/specs: a record is printed with
``PrintT(ToJson(rec))`` which TLC renders as one line holding a JSON *string literal* whose
content is the JSON document, i.e. ``json.loads(json.loads(line))`` recovers the record.
"""

from __future__ import annotations

import dataclasses
import json
import os
import re
import shutil
import subprocess
import time
from typing import Iterator

from .common import NCPU, MachineryError

JAR = "/opt/veriftools/tla/tla2tools.jar"
COMMUNITY = "/opt/veriftools/tla/CommunityModules-deps.jar"

_RE_STATES = re.compile(
    r"(\d+) states generated, (\d+) distinct states found, (\d+) states left on queue"
)
_RE_SIM = re.compile(r"The number of states generated: (\d+)")
_RE_DEPTH = re.compile(r"The depth of the complete state graph search is (\d+)")
_RE_INV = re.compile(r"Error: Invariant (\S+) is violated")
_RE_ACTPROP = re.compile(r"Error: Action property (\S+) is violated")
_RE_COV = re.compile(r"^<(\w+) line (\d+), col \d+ to line \d+, col \d+ of module (\w+)>: (\d+):(\d+)")


@dataclasses.dataclass
class TLCResult:
    returncode: int
    out_path: str
    wall_s: float
    generated: int = 0
    distinct: int = 0
    queue: int = 0
    depth: int = 0
    violated: list = dataclasses.field(default_factory=list)
    errors: list = dataclasses.field(default_factory=list)
    coverage: dict = dataclasses.field(default_factory=dict)
    timed_out: bool = False

    @property
    def ok(self) -> bool:
        return self.returncode == 0 and not self.violated and not self.errors

    def records(self) -> Iterator[dict]:
        """Yield the JSON records the spec printed (one per line)."""
        with open(self.out_path, "r", errors="replace") as f:
            for line in f:
                if not line.startswith('"'):
                    continue
                line = line.rstrip("\n")
                try:
                    inner = json.loads(line)
                    if isinstance(inner, str) and inner[:1] in "{[":
                        yield json.loads(inner)
                except ValueError:
                    continue

    def tail(self, n: int = 40) -> str:
        with open(self.out_path, "r", errors="replace") as f:
            lines = [l for l in f if not l.startswith('"')]
        return "".join(lines[-n:])

    def error_trace(self) -> str:
        """The textual counterexample TLC printed, if any."""
        with open(self.out_path, "r", errors="replace") as f:
            txt = [l for l in f if not l.startswith('"{')]
        out, on = [], False
        for l in txt:
            if l.startswith("Error:"):
                on = True
            if on:
                out.append(l)
            if len(out) > 400:
                break
        return "".join(out)


def run(
    tla: str,
    cfg: str,
    scratch: str,
    *,
    workers: int | None = None,
    timeout: int = 1800,
    simulate: str | None = None,
    depth: int | None = None,
    seed: int | None = None,
    env: dict | None = None,
    coverage: bool = False,
    deadlock: bool = True,
    dfs_queue: bool = False,
    heap: str = "8g",
    tag: str = "run",
    extra: list | None = None,
) -> TLCResult:
    """Run TLC on ``tla`` with ``cfg``; both are copied next to each other in scratch.

    The directory holding ``tla`` is copied wholesale so EXTENDS/INSTANCE of sibling modules works.
    """
    src_dir = os.path.dirname(os.path.abspath(tla))
    work = os.path.join(scratch, f"tlc-{tag}")
    if os.path.exists(work):
        shutil.rmtree(work)
    shutil.copytree(src_dir, work, ignore=shutil.ignore_patterns("states", "*.out"))
    mod = os.path.basename(tla)
    cfg_name = os.path.basename(cfg)
    if os.path.abspath(os.path.dirname(cfg)) != src_dir:
        shutil.copy(cfg, os.path.join(work, cfg_name))
    out_path = os.path.join(scratch, f"tlc-{tag}.out")
    jvm = [
        "java",
        f"-Xmx{heap}",
        "-XX:+UseParallelGC",
        "-Dtlc2.TLC.ide=vf",
    ]
    if dfs_queue:
        jvm.append("-Dtlc2.tool.queue.IStateQueue=StateDeque")
    cp = JAR
    if os.path.exists(COMMUNITY):
        cp = JAR + ":" + COMMUNITY
    cmd = jvm + ["-cp", _classpath(), "tlc2.TLC"]
    cmd += ["-workers", str(workers or NCPU), "-noGenerateSpecTE", "-metadir", os.path.join(work, "meta")]
    cmd += ["-config", cfg_name]
    if simulate is not None:
        cmd += ["-simulate", simulate]
    if depth is not None:
        cmd += ["-depth", str(depth)]
    if seed is not None:
        cmd += ["-seed", str(seed)]
    if coverage:
        cmd += ["-coverage", "1"]
    if not deadlock:
        cmd += ["-deadlock"]
    if extra:
        cmd += list(extra)
    cmd += [mod]
    e = dict(os.environ)
    if env:
        e.update({k: str(v) for k, v in env.items()})
    t0 = time.time()
    timed_out = False
    with open(out_path, "w") as out:
        try:
            p = subprocess.run(cmd, cwd=work, stdout=out, stderr=subprocess.STDOUT, env=e, timeout=timeout)
            rc = p.returncode
        except subprocess.TimeoutExpired:
            rc = -9
            timed_out = True
    res = TLCResult(returncode=rc, out_path=out_path, wall_s=time.time() - t0, timed_out=timed_out)
    _parse(res)
    shutil.rmtree(os.path.join(work, "meta"), ignore_errors=True)
    return res


_CP = None


def _classpath() -> str:
    """Reuse exactly the classpath of the installed `tlc` wrapper (CommunityModules included)."""
    global _CP
    if _CP is not None:
        return _CP
    cp = JAR
    wrapper = shutil.which("tlc")
    if wrapper:
        try:
            txt = open(wrapper).read()
            m = re.search(r"-cp\s+\"?([^\s\"]+)", txt)
            if m:
                cp = m.group(1)
        except OSError:
            pass
    _CP = cp
    return cp


def _parse(res: TLCResult) -> None:
    with open(res.out_path, "r", errors="replace") as f:
        for line in f:
            if line.startswith('"'):
                continue
            m = _RE_STATES.search(line)
            if m:
                res.generated, res.distinct, res.queue = map(int, m.groups())
                continue
            m = _RE_SIM.search(line)
            if m:
                res.generated = int(m.group(1))
                res.distinct = max(res.distinct, 1)
                continue
            m = _RE_DEPTH.search(line)
            if m:
                res.depth = int(m.group(1))
                continue
            m = _RE_INV.search(line) or _RE_ACTPROP.search(line)
            if m:
                res.violated.append(m.group(1))
                continue
            m = _RE_COV.match(line)
            if m:
                name, _, mod, tot, dist = m.groups()
                res.coverage[f"{mod}!{name}"] = [int(tot), int(dist)]
                continue
            if line.startswith("Error:"):
                res.errors.append(line.strip())
    if res.timed_out:
        res.errors.append("TLC timed out")


def require_ok(res: TLCResult, what: str) -> None:
    """Machinery-level guard: TLC must have completed without error for `what`."""
    if not res.ok:
        raise MachineryError(
            f"TLC failed for {what}: rc={res.returncode} violated={res.violated} errors={res.errors[:3]}\n{res.tail(30)}"
        )


def sany(tla: str) -> tuple[bool, str]:
    p = subprocess.run(
        ["java", "-cp", _classpath(), "tla2sany.SANY", os.path.basename(tla)],
        cwd=os.path.dirname(tla),
        capture_output=True,
        text=True,
    )
    ok = p.returncode == 0 and "Semantic errors" not in p.stdout and "*** Errors" not in p.stdout and "Fatal errors" not in p.stdout
    return ok, p.stdout[-2000:]
