"""File-system fault/crash machinery for C08 (interrupted external-data save).

Three parts, all outside /repo:

* scenario helpers: prepare a scratch directory for a configuration of AtomicSave.tla
  (destination absent / file / symlink, tensors backed by the destination, sharded save with
  pre-existing shard files), build the model to save, and OBSERVE the directory afterwards
  (classification of every file into the abstract contents of the specification);
* the child program (``python -m vfh.faultfs '<json>'``) that performs the real ``ir.save`` --
  it is what runs under ``strace -e inject=...`` (syscall layer);
* the Python layer: proxies installed into the *module globals* of ``onnx_ir.external_data`` /
  ``onnx_ir._io`` (``os``, ``tempfile``, ``shutil``, ``open``, ``onnx``) and harness-defined tensors,
  which log one event per file-system effect and can raise or ``os._exit`` at any of them.

Both layers speak the event vocabulary of the specification:
``{"a": action, "t": tensor, "j": chunk, "w": worker, "r": "ok"|"fail"|"soft"|"kill"}``.
"""

from __future__ import annotations

import errno as _errno
import io
import json
import os
import re
import stat
import sys
import threading
import time

CH = 16384  # bytes per chunk: larger than the io buffer, so every chunk write is one write(2)
OLD_MODE = 0o600
OLD_MODES = (0o600, 0o444, 0o640)
DATA_NAME = "m.data"
MODEL_NAME = "m.onnx"
OTHER_NAME = "other.data"   # bystander file, variant b
HARD_NAME = "hl.data"       # hard link to the destination (backed-variant "hard")
SUB_NAME = "sub"            # sub-directory of the destination directory (variants c / "rel")
SIB_SUFFIX = ".sib"         # sibling directory of the destination directory (variant a)
OTHER_VARIANTS = ("a", "b", "c")
BACKED_VARIANTS = ("plain", "rel", "hard")
BEGIN_MARK = "/proc/self/vf-c08-begin"
END_MARK = "/proc/self/vf-c08-end"


# ----------------------------------------------------------------------------------------------
# scenario
# ----------------------------------------------------------------------------------------------
def norm_cfg(cfg: dict) -> dict:
    c = {
        "nt": int(cfg["nt"]),
        "nc": int(cfg["nc"]),
        "dest": cfg.get("dest", "absent"),
        "backed": sorted(int(x) for x in cfg.get("backed", [])),
        "par": bool(cfg.get("par", False)),
        "shard": bool(cfg.get("shard", False)),
        "pre": sorted(int(x) for x in cfg.get("pre", [])),   # pre-existing NUMBERED shard files (shard indices)
    }
    # sharded save: limit in chunks (max_shard_size_bytes = lim * CH); default: one plain tensor per shard
    c["lim"] = int(cfg.get("lim") or (c["nc"] if c["shard"] else 0)) if c["shard"] else 0
    c["np"] = sorted(int(x) for x in cfg.get("np", []))  # tensors that are plain numpy ir.Tensor (not in the spec cfg)
    # ExternalTensors saved in the same call but backed by ANOTHER file (bystanders; cfg.other of the spec)
    c["other"] = sorted(int(x) for x in cfg.get("other", []))
    if set(c["other"]) & set(c["backed"]):
        raise ValueError("a tensor cannot be backed by the destination and by another file")
    # WHERE the other file lives (not in the spec cfg):
    #   a  same file name in a sibling directory (different base_dir, identical `location` string)
    #   b  another file name in the destination directory
    #   c  same file name in a sub-directory, base_dir spelled relative to the working directory
    ov = cfg.get("ov")
    if c["other"]:
        if ov is None:   # deterministic rotation over the configurations
            ov = OTHER_VARIANTS[(c["nt"] + 2 * c["nc"] + len(c["dest"]) + len(c["backed"]) + c["par"] + c["lim"]
                                 + sum(c["pre"]) + sum(c["other"])) % 3]
        if ov not in OTHER_VARIANTS:
            raise ValueError(f"unknown variant of the other file: {ov}")
        c["ov"] = ov
    else:
        c["ov"] = None
    # HOW the tensors backed by the destination spell its path (not in the spec cfg):
    #   plain  base_dir = the directory, location = the data file name
    #   rel    base_dir = <relative path of the directory>/sub/..   (another spelling of the same path)
    #   hard   the path of a HARD LINK to the destination (absolute location, empty base_dir -- with a base_dir
    #          onnx_ir refuses to read files that have several links)
    bv = cfg.get("bv") or "plain"
    if bv not in BACKED_VARIANTS:
        raise ValueError(f"unknown spelling of the backed tensors' path: {bv}")
    if bv != "plain" and not c["backed"]:
        bv = "plain"
    if bv == "hard" and c["dest"] != "file":
        raise ValueError("the hard-link spelling needs a regular destination file")
    c["bv"] = bv
    # permission bits of the files that exist before the save (not in the spec cfg, whose mode is just "old"):
    # owner read/write, READ-ONLY, group-readable - rotated deterministically over the configurations
    om = cfg.get("om")
    if om is None:
        om = OLD_MODES[(3 * c["nt"] + c["nc"] + len(c["dest"]) + 2 * len(c["backed"]) + c["par"] + c["lim"] + sum(c["pre"])
                        + len(c["other"])) % len(OLD_MODES)]
    c["om"] = int(om)
    # the target of the destination symlink lives on ANOTHER FILE SYSTEM than the directory the save was asked to
    # write into (not in the spec cfg, whose destination is just "symlink"); a rename across the two fails with EXDEV
    c["xdev"] = bool(cfg.get("xdev", False))
    if c["xdev"] and (c["dest"] != "symlink" or c["shard"] or c["backed"]):
        raise ValueError("xdev needs a single-file save to a symlinked destination that backs no tensor")
    return c


def old_mode(c: dict) -> int:
    return c.get("om", OLD_MODE)


def cfg_key(c: dict, spec_only: bool = False) -> str:
    """Name of a configuration; spec_only: only the fields the specification knows."""
    s = f"nt{c['nt']}nc{c['nc']}-{c['dest']}-b{''.join(map(str, c['backed'])) or '0'}"
    if c.get("other"):
        s += f"-o{''.join(map(str, c['other']))}"
        if not spec_only:
            s += c.get("ov") or ""
    s += f"-{'par' if c['par'] else 'ser'}"
    if c["shard"]:
        s += f"-shard{c['lim']}-pre{''.join(map(str, c['pre'])) or '0'}"
    if not spec_only:
        if c.get("np"):
            s += f"-np{''.join(map(str, c['np']))}"
        if c.get("bv", "plain") != "plain":
            s += f"-bv{c['bv']}"
        if c.get("om", OLD_MODE) != OLD_MODE:
            s += f"-m{c['om']:o}"
        if c.get("xdev"):
            s += "-xdev"
    return s


def ext_tensors(c: dict) -> list:
    """All ExternalTensors of the configuration, whatever file backs them."""
    return sorted(set(c["backed"]) | set(c.get("other", [])))


def nchunks(c: dict, t: int) -> int:
    return 1 if (t in c["backed"] or t in c.get("other", [])) else c["nc"]


def shard_assign(c: dict) -> list:
    """Shard index of every tensor (classification aid; the oracle is ShardAssign in AtomicSave.tla)."""
    if not c["shard"]:
        return [1] * c["nt"]
    out, s, size = [], 1, 0
    for t in range(1, c["nt"] + 1):
        n = nchunks(c, t)
        if size + n > c["lim"] and size > 0:
            s, size = s + 1, 0
        out.append(s)
        size += n
    return out


def nshards(c: dict) -> int:
    return shard_assign(c)[-1]


def numbered(c: dict) -> bool:
    return c["shard"] and nshards(c) > 1


def tensors_of(c: dict, f: int) -> list:
    """Tensors written to data file f (file 1 = plain name, files 2.. = numbered shards)."""
    sh = shard_assign(c)
    s = f - 1 if numbered(c) else 1
    return [t for t in range(1, c["nt"] + 1) if sh[t - 1] == s]


def nfiles(c: dict) -> int:
    return 1 + nshards(c) if numbered(c) else 1


def chunk_bytes(t: int, j: int) -> bytes:
    return bytes([16 * t + j]) * CH


def tensor_bytes(c: dict, t: int) -> bytes:
    return b"".join(chunk_bytes(t, j) for j in range(1, nchunks(c, t) + 1))


def new_bytes(c: dict, f: int) -> bytes:
    return b"".join(tensor_bytes(c, t) for t in tensors_of(c, f))


def old_offset(c: dict, t: int) -> int:
    return CH * (1 + c["backed"].index(t))


def old_bytes(c: dict) -> bytes:
    return b"\xee" * CH + b"".join(chunk_bytes(t, 1) for t in c["backed"]) + b"\xdd" * 100


def other_offset(c: dict, t: int) -> int:
    return CH * (1 + c["other"].index(t))


def other_bytes(c: dict) -> bytes:
    """Content of the bystanders' file (all tensors of c.other live in ONE other file)."""
    return b"\xcc" * CH + b"".join(chunk_bytes(t, 1) for t in c["other"]) + b"\xbb" * 50


def other_dir(c: dict, d: str) -> str:
    """Directory of the bystanders' file (absolute)."""
    return {"a": d + SIB_SUFFIX, "b": d, "c": os.path.join(d, SUB_NAME)}[c["ov"]]


def other_location(c: dict) -> str:
    return OTHER_NAME if c["ov"] == "b" else DATA_NAME   # a, c: the SAME location string as the destination


def other_path(c: dict, d: str) -> str:
    return os.path.join(other_dir(c, d), other_location(c))


def other_base_dir(c: dict, d: str) -> str:
    """base_dir given to the bystander tensors; variant c spells it relative to the working directory."""
    return os.path.relpath(other_dir(c, d)) if c["ov"] == "c" else other_dir(c, d)


def backed_spelling(c: dict, d: str) -> tuple:
    """(location, base_dir) of the tensors backed by the destination."""
    if c.get("bv") == "rel":
        return DATA_NAME, os.path.join(os.path.relpath(d), SUB_NAME, "..")
    if c.get("bv") == "hard":
        return os.path.join(os.path.abspath(d), HARD_NAME), ""
    return DATA_NAME, d


def chunk_layout(c: dict, f: int) -> list:
    """[(t, j)] in file order for destination file f."""
    return [(t, j) for t in tensors_of(c, f) for j in range(1, nchunks(c, t) + 1)]


def file_names(c: dict) -> list:
    """Requested destination path(s) relative to the directory, index f-1."""
    if not numbered(c):
        return [DATA_NAME]
    from onnx_ir._shard_filename import get_shard_filename

    n = nshards(c)
    return [DATA_NAME] + [get_shard_filename(DATA_NAME, i, n) for i in range(1, n + 1)]


XDEV_ROOTS = ("/dev/shm", "/run/shm", "/run/user/%d" % os.getuid(), "/var/tmp", "/tmp")


def xdev_root(d: str):
    """A writable directory on another file system than d (None if the machine has none)."""
    probe = os.path.abspath(d)
    while not os.path.exists(probe):
        probe = os.path.dirname(probe)
    dev = os.stat(probe).st_dev
    for root in XDEV_ROOTS:
        try:
            if os.stat(root).st_dev != dev and os.access(root, os.W_OK | os.X_OK):
                return root
        except OSError:
            continue
    return None


def real_dir(c: dict, d: str) -> str:
    """Directory of the file a symlinked destination points to."""
    if c.get("xdev"):
        import zlib

        root = xdev_root(d)
        if root is None:
            raise OSError("no second writable file system on this machine")
        tag = "%08x" % zlib.crc32(os.path.abspath(d).encode())
        return os.path.join(root, f"vf-c08-x-{os.path.basename(d)}-{tag}", "real")
    return os.path.join(d, "real")


def real_path(c: dict, d: str) -> str:
    return os.path.join(real_dir(c, d), "w.bin") if c["dest"] == "symlink" else os.path.join(d, DATA_NAME)


def link_text(c: dict, d: str) -> str:
    """What the destination symlink holds: a relative path inside d, an absolute one across file systems."""
    return real_path(c, d) if c.get("xdev") else os.path.join("real", "w.bin")


def remove_dirs(c: dict, d: str) -> None:
    import shutil

    shutil.rmtree(d, ignore_errors=True)
    shutil.rmtree(d + SIB_SUFFIX, ignore_errors=True)
    if c.get("xdev"):
        try:
            shutil.rmtree(os.path.dirname(real_dir(c, d)), ignore_errors=True)
        except OSError:
            pass


def prepare_dir(c: dict, d: str) -> None:
    os.makedirs(d, exist_ok=True)
    if c["shard"]:
        names = file_names(c)
        for sidx in c["pre"]:
            if numbered(c) and sidx < len(names):
                _write(os.path.join(d, names[sidx]), old_bytes(c), old_mode(c))
    if c["dest"] == "file":
        _write(os.path.join(d, DATA_NAME), old_bytes(c), old_mode(c))
    elif c["dest"] == "symlink":
        os.makedirs(real_dir(c, d), exist_ok=True)
        _write(real_path(c, d), old_bytes(c), old_mode(c))
        os.symlink(link_text(c, d), os.path.join(d, DATA_NAME))
    if c.get("bv") == "rel" or (c.get("other") and c["ov"] == "c"):
        os.makedirs(os.path.join(d, SUB_NAME), exist_ok=True)
    if c.get("bv") == "hard":
        os.link(os.path.join(d, DATA_NAME), os.path.join(d, HARD_NAME))
    if c.get("other"):
        os.makedirs(other_dir(c, d), exist_ok=True)
        _write(other_path(c, d), other_bytes(c), old_mode(c))


def _write(path: str, data: bytes, mode: int) -> None:
    with open(path, "wb") as f:
        f.write(data)
    os.chmod(path, mode)


def _classify(c: dict, f: int, path: str) -> tuple:
    """(class, mode, detail) of destination file f at path."""
    try:
        st = os.stat(path)
    except FileNotFoundError:
        return "Absent", "none", None
    with open(path, "rb") as fh:
        data = fh.read()
    mode = "old" if stat.S_IMODE(st.st_mode) == old_mode(c) else "new"
    if data == new_bytes(c, f):
        return "New", mode, None
    if data == old_bytes(c):
        return "Old", mode, None
    return "Partial", mode, _content(c, f, data)


def _content(c: dict, f: int, data: bytes) -> dict:
    lay = chunk_layout(c, f)
    ch = []
    for i, (t, j) in enumerate(lay):
        if data[i * CH : (i + 1) * CH] == chunk_bytes(t, j):
            ch.append([t, j])
    sz = len(data) // CH if len(data) % CH == 0 else -1
    return {"k": "data", "sz": sz, "ch": ch, "bytes": len(data)}


def observe(c: dict, d: str) -> dict:
    """Abstract end state of directory d (same shape as Obs in AtomicSave.tla)."""
    names = file_names(c)
    base_dirs = [d]
    if c["dest"] == "symlink":
        base_dirs.append(real_dir(c, d))
    files, modes, details = [], [], []
    for f, name in enumerate(names, start=1):
        p = real_path(c, d) if (not c["shard"] and c["dest"] == "symlink") else os.path.join(d, name)
        k, m, det = _classify(c, f, p)
        files.append(k)
        modes.append(m)
        details.append(det)
    link = os.path.islink(os.path.join(d, DATA_NAME)) if not c["shard"] else False
    if c["dest"] == "symlink" and link:
        link = os.readlink(os.path.join(d, DATA_NAME)) == link_text(c, d)
    tdirs, tfile, extra = [], {"k": "absent", "sz": 0, "ch": []}, []
    known = set(names) | {MODEL_NAME, "real"}
    if c.get("bv") == "hard":
        known.add(HARD_NAME)
    if c.get("bv") == "rel" or (c.get("other") and c["ov"] == "c"):
        known.add(SUB_NAME)
        inside = {DATA_NAME} if (c.get("other") and c["ov"] == "c") else set()
        extra += [os.path.join(SUB_NAME, e) for e in sorted(os.listdir(os.path.join(d, SUB_NAME))) if e not in inside]
    ofile = "None"
    if c.get("other"):
        if c["ov"] == "b":
            known.add(OTHER_NAME)
        elif c["ov"] == "a":
            extra += [os.path.join("<sibling>", e) for e in sorted(os.listdir(other_dir(c, d))) if e != DATA_NAME]
        try:
            with open(other_path(c, d), "rb") as fh:
                same = fh.read() == other_bytes(c)
            ofile = "Old" if same and stat.S_IMODE(os.stat(other_path(c, d)).st_mode) == old_mode(c) else "Changed"
        except FileNotFoundError:
            ofile = "Absent"
    for bd in base_dirs:
        for e in sorted(os.listdir(bd)):
            full = os.path.join(bd, e)
            if e.startswith(".") and os.path.isdir(full) and not os.path.islink(full):
                tdirs.append(os.path.relpath(full, d))
                for inner in sorted(os.listdir(full)):
                    fidx = _file_index_of_tmp(c, names, e)
                    with open(os.path.join(full, inner), "rb") as fh:
                        tfile = _content(c, fidx, fh.read())
            elif bd == d and e not in known:
                extra.append(e)
            elif bd != d and e != "w.bin":
                extra.append(os.path.join("real", e))
    mp = os.path.join(d, MODEL_NAME)
    model = "absent"
    if os.path.exists(mp):
        model = "empty" if os.path.getsize(mp) == 0 else "present"
    return {
        "files": files,
        "modes": modes,
        "link": bool(link),
        "tdir": bool(tdirs),
        "ntdirs": len(tdirs),
        "tfile": {"k": tfile["k"], "sz": tfile["sz"], "ch": tfile["ch"]},
        "details": details,
        "extra": extra,
        "ofile": ofile,     # the bystanders' file: "None" (no bystander) | "Old" (bytes and mode untouched) | "Changed" | "Absent"
        "model": model,
    }


def _file_index_of_tmp(c: dict, names: list, tmpdir_name: str) -> int:
    # temp dir is ".<basename of destination>.<random>"
    for f, name in enumerate(names, start=1):
        base = "w.bin" if (not c["shard"] and c["dest"] == "symlink") else name
        if tmpdir_name.startswith("." + base + "."):
            return f
    return 1


# ----------------------------------------------------------------------------------------------
# the model to save (runs in the child / forked process; imports onnx_ir lazily)
# ----------------------------------------------------------------------------------------------
class Hooks:
    """Event log + fault trigger shared by the Python-layer proxies and the harness tensors."""

    def __init__(self, fault: dict | None = None, sink: str | None = None):
        self.sink = os.open(sink, os.O_WRONLY | os.O_CREAT | os.O_APPEND, 0o644) if sink else None
        self.events: list = []
        self.fault = fault  # one fault or a list: {"a","t","j","occ","kind": "fail"|"kill", "errno": name, "exc": "os"|"rt"}
        self.lock = threading.RLock()
        self.threads: dict = {}
        self.main = threading.get_ident()
        self.counts: dict = {}
        self.fired = 0
        self.on_kill = None  # callable(events) run just before os._exit

    def log(self, ev: dict) -> dict:
        """Append an event; also streamed to the sink so that it survives the death of the process."""
        self.events.append(ev)
        if self.sink is not None:
            os.write(self.sink, (json.dumps(ev) + "\n").encode())
        return ev

    def patch_last(self, ev: dict, r: str) -> None:
        ev["r"] = r
        if self.sink is not None:
            os.write(self.sink, (json.dumps({"patch": len(self.events) - 1, "r": r}) + "\n").encode())

    def worker(self) -> int:
        ident = threading.get_ident()
        if ident == self.main:
            return 0
        if ident not in self.threads:
            self.threads[ident] = len(self.threads) + 1
        return self.threads[ident]

    def effect(self, a: str, t: int = 0, j: int = 0, w: int | None = None, soft_ok: bool = False) -> dict:
        """Log effect (a,t,j); raise / exit here if it is the selected fault position.
        Must be called with self.lock held around log+perform by the caller."""
        w = self.worker() if w is None else w
        key = (a, t, j)
        self.counts[key] = self.counts.get(key, 0) + 1
        ev = {"a": a, "t": t, "j": j, "w": w, "r": "ok"}
        faults = self.fault if isinstance(self.fault, list) else ([self.fault] if self.fault else [])
        for f in faults:
            if not (f["a"] == a and f.get("t", 0) == t and f.get("j", 0) == j and f.get("occ", 1) == self.counts[key]):
                continue
            self.fired += 1
            if f["kind"] == "kill":
                ev["r"] = "kill"
                self.log(ev)
                if self.on_kill:
                    self.on_kill(self.events)
                os._exit(137)
            ev["r"] = "fail"
            self.log(ev)
            if f.get("exc") == "rt":
                raise RuntimeError(f"vf injected failure at {a}({t},{j})")
            if f.get("exc") == "kbd":      # an interruption that is not an Exception (Ctrl-C while a tensor is written)
                raise KeyboardInterrupt(f"vf injected interruption at {a}({t},{j})")
            en = getattr(_errno, f.get("errno", "EIO"))
            raise OSError(en, os.strerror(en) + " [vf injected]")
        return self.log(ev)


def build_model(c: dict, d: str, hooks: Hooks | None):
    """Model with nt initializers; tensor t is an ExternalTensor backed by the destination when
    t in backed (path spelled as c.bv says), an ExternalTensor backed by ANOTHER file when t in other
    (file placed as c.ov says), a plain numpy ir.Tensor when t in np, else a harness tensor writing
    nc chunks.  Returns (model, {t: ExternalTensor})."""
    import numpy as np
    import onnx_ir as ir

    class ChunkTensor(ir.Tensor):
        """ir.Tensor whose tofile writes chunk by chunk (one write(2) each)."""

        def __init__(self, t: int, n: int):
            arr = np.frombuffer(b"".join(chunk_bytes(t, j) for j in range(1, n + 1)), dtype=np.uint8)
            super().__init__(arr, name=f"w{t}")
            self._vf_t, self._vf_n = t, n

        def tofile(self, file) -> None:
            for j in range(1, self._vf_n + 1):
                if hooks is None:
                    file.write(chunk_bytes(self._vf_t, j))
                else:
                    with hooks.lock:
                        hooks.effect("WriteChunk", self._vf_t, j)
                        file.write(chunk_bytes(self._vf_t, j))
                        file.flush()
                    if hooks.worker() != 0:
                        time.sleep(0.0005 * ((self._vf_t + j) % 3))  # let the other worker interleave

        def tobytes(self) -> bytes:
            if hooks is not None:
                with hooks.lock:
                    hooks.effect("WriteChunk", self._vf_t, 1)
            return super().tobytes()

    class ProbeExt(ir.ExternalTensor):
        def tofile(self, file) -> None:
            if hooks is None:
                return super().tofile(file)
            with hooks.lock:
                hooks.effect("WriteChunk", self._vf_t, 1)
                super().tofile(file)
                file.flush()

        def release(self) -> None:
            if hooks is not None and getattr(self, "_vf_armed", False):
                with hooks.lock:
                    hooks.log({"a": "ReleaseMap", "t": self._vf_t, "j": 0, "w": hooks.worker(), "r": "ok"})
            super().release()

        def invalidate(self) -> None:
            if hooks is not None and getattr(self, "_vf_armed", False):
                with hooks.lock:
                    hooks.log({"a": "Invalidate", "t": self._vf_t, "j": 0, "w": hooks.worker(), "r": "ok"})
            super().invalidate()

    vals, ext = [], {}
    for t in range(1, c["nt"] + 1):
        if t in c["backed"] or t in c.get("other", []):
            cls = ProbeExt if hooks is not None else ir.ExternalTensor
            if t in c["backed"]:
                (location, base_dir), offset = backed_spelling(c, d), old_offset(c, t)
            else:
                location, base_dir, offset = other_location(c), other_base_dir(c, d), other_offset(c, t)
            ten = cls(
                location, offset, CH, ir.DataType.UINT8, shape=ir.Shape([CH]), name=f"w{t}", base_dir=base_dir
            )
            if hooks is not None:
                ten._vf_t = t
            ext[t] = ten
            n = CH
        elif t in c.get("np", []):
            ten = ir.Tensor(np.frombuffer(tensor_bytes(c, t), dtype=np.uint8).copy(), name=f"w{t}")
            n = ten.nbytes
        else:
            ten = ChunkTensor(t, c["nc"])
            n = ten.nbytes
        vals.append(
            ir.Value(name=f"w{t}", const_value=ten, shape=ir.Shape([n]), type=ir.TensorType(ir.DataType.UINT8))
        )
    node = ir.Node("", "Concat", vals, attributes=[ir.AttrInt64("axis", 0)], num_outputs=1)
    g = ir.Graph([], node.outputs, nodes=[node], initializers=vals, opset_imports={"": 20}, name="g")
    return ir.Model(g, ir_version=10), ext


def save_kwargs(c: dict) -> dict:
    kw = {"external_data": DATA_NAME, "size_threshold_bytes": 0}
    if c["par"]:
        kw["max_workers"] = 2
    if c["shard"]:
        kw["max_shard_size_bytes"] = c["lim"] * CH
    return kw


def tensor_report(c: dict, ext: dict, premapped: bool) -> dict:
    """valid()/tobytes() of EVERY ExternalTensor (backed by the destination or by another file), after
    the save: readable = the tensor still yields its own bytes."""
    rep = {}
    for t, ten in ext.items():
        v = bool(ten.valid())
        readable = None
        if v:
            # an errno injected by strace fires at ONE invocation, possibly one of this read-back (after the
            # save): a failing read is repeated, only a tensor that stays unreadable is reported so
            for _attempt in range(3):
                try:
                    readable = bytes(ten.tobytes()) == chunk_bytes(t, 1)
                except Exception as e:  # noqa: BLE001
                    readable = f"{type(e).__name__}: {e}"
                finally:
                    try:
                        ten.release()
                    except Exception:  # noqa: BLE001
                        pass
                if isinstance(readable, bool):
                    break
        rep[str(t)] = {"valid": v, "readable": readable, "bystander": t in c.get("other", [])}
    return rep


# ----------------------------------------------------------------------------------------------
# child program of the syscall layer
# ----------------------------------------------------------------------------------------------
def _mark(path: str) -> None:
    try:
        os.mkdir(path)  # always fails (procfs); shows up in the strace log with its full path
    except OSError:
        pass


def child_main(argv: list) -> int:
    job = json.loads(argv[0])
    _save_in_child(norm_cfg(job["cfg"]), job["dir"], job.get("result") or (job["dir"] + ".result.json"), None)
    return 0


# ----------------------------------------------------------------------------------------------
# strace log -> events
# ----------------------------------------------------------------------------------------------
TRACE_SET = (
    "mkdir,mkdirat,openat,open,creat,write,pwrite64,writev,ftruncate,truncate,fallocate,copy_file_range,sendfile,"
    "close,dup,dup2,dup3,fcntl,chmod,fchmod,fchmodat,rename,renameat,renameat2,unlink,unlinkat,rmdir,link,linkat,symlink,symlinkat"
)

_RE_LINE = re.compile(r"^(\d+)\s+(.*)$")
_RE_CALL = re.compile(r"^(\w+)\((.*)\)\s+= (-?\d+|\?)(.*)$")
_RE_UNF = re.compile(r"^(\w+)\((.*) <unfinished \.\.\.>$")
_RE_RES = re.compile(r"^<\.\.\. (\w+) resumed>(.*)$")


def _split_args(s: str) -> list:
    out, cur, depth, q = [], "", 0, False
    i = 0
    while i < len(s):
        ch = s[i]
        if q:
            cur += ch
            if ch == "\\":
                cur += s[i + 1]
                i += 1
            elif ch == '"':
                q = False
        elif ch == '"':
            q = True
            cur += ch
        elif ch in "([{":
            depth += 1
            cur += ch
        elif ch in ")]}":
            depth -= 1
            cur += ch
        elif ch == "," and depth == 0:
            out.append(cur.strip())
            cur = ""
        else:
            cur += ch
        i += 1
    if cur.strip():
        out.append(cur.strip())
    return out


def _unq(s: str) -> str:
    s = s.strip()
    if s.startswith('"'):
        s = s[1 : s.rindex('"')]
    return s


_ESC = {"n": 10, "t": 9, "r": 13, "v": 11, "f": 12, "\\": 92, '"': 34, "a": 7, "b": 8, "e": 27, "0": 0}


def _first_byte(s: str):
    """First byte of a strace-printed buffer (C escapes, octal for non-printables)."""
    s = s.strip()
    if not s.startswith('"') or len(s) < 3:
        return None
    body = s[1:]
    if body[0] != "\\":
        return ord(body[0])
    m = re.match(r"^\\([0-7]{1,3})", body)
    if m:
        return int(m.group(1), 8)
    m = re.match(r"^\\x([0-9a-fA-F]{2})", body)
    if m:
        return int(m.group(1), 16)
    return _ESC.get(body[1])


def read_strace(log_path: str) -> list:
    """[(pid, name, args(list), ret(str), tail(str))] in completion order, unfinished/resumed stitched.
    A call cut short by the death of the process has ret == '?'."""
    calls, pend, killed = [], {}, False
    with open(log_path, "r", errors="replace") as f:
        for raw in f:
            m = _RE_LINE.match(raw.rstrip("\n"))
            if not m:
                continue
            pid, rest = int(m.group(1)), m.group(2)
            if rest.startswith("+++ killed"):
                killed = True
                continue
            if rest.startswith("+++") or rest.startswith("---"):
                continue
            mu = _RE_UNF.match(rest)
            if mu:
                pend[pid] = (mu.group(1), mu.group(2))
                continue
            mr = _RE_RES.match(rest)
            if mr and pid in pend:
                name, head = pend.pop(pid)
                rest = f"{name}({head}{mr.group(2)}"
            mc = _RE_CALL.match(rest)
            if not mc:
                continue
            name, args, ret, tail = mc.groups()
            calls.append((pid, name, _split_args(args), ret, tail))
    # calls that never returned because the process was killed
    for pid, (name, head) in pend.items():
        calls.append((pid, name, _split_args(head), "?", ""))
    return calls


class SysTrace:
    """Events of one strace'd run + for every event the (syscall, when) naming it for injection."""

    def __init__(self):
        self.events: list = []
        self.positions: list = []  # parallel to events: (syscall name, k) counted per thread over the whole log
        self.begin = False
        self.end = False
        self.unmapped: list = []
        self.injected = 0
        self.killed_in = None


def parse_strace(log_path: str, c: dict, d: str, cwd: str | None = None) -> SysTrace:
    """cwd: working directory of the traced process (relative paths of the log are resolved against it)."""
    calls = read_strace(log_path)
    tr = SysTrace()
    d = os.path.abspath(d)
    names = file_names(c)
    dest_paths = {os.path.join(d, n): i for i, n in enumerate(names, start=1)}
    real = real_path(c, d) if (not c["shard"] and c["dest"] == "symlink") else None
    if real:
        dest_paths[real] = 1
    if c.get("bv") == "hard":
        dest_paths[os.path.join(d, HARD_NAME)] = 1          # another name of the destination file
    # the bystanders' file: a SOURCE of the save, never a destination
    other_file = os.path.normpath(other_path(c, d)) if c.get("other") else None
    model_path = os.path.join(d, MODEL_NAME)
    fds: dict = {}  # fd -> [(path, kind, opener pid)]; a list because strace may log the close of a
    #                 descriptor by one thread AFTER its reuse by an openat of another thread

    def fd_add(fd, ent):
        fds.setdefault(fd, []).append(ent)

    def fd_get(fd, pid):
        lst = fds.get(fd) or []
        for e in lst:
            if e[2] == pid:
                return e
        return lst[0] if lst else None

    def fd_pop(fd, pid):
        lst = fds.get(fd) or []
        e = fd_get(fd, pid)
        if e is not None:
            lst.remove(e)
        if not lst:
            fds.pop(fd, None)
    counts: dict = {}  # (pid, syscall) -> n
    workers: dict = {}
    main_pid = None
    tmp_re = re.compile(r"^\.(.+)\.[A-Za-z0-9_]{8}$")

    def is_tmpdir(p):
        b = os.path.basename(p.rstrip("/"))
        m = tmp_re.match(b)
        return bool(m) and os.path.dirname(p.rstrip("/")) in {d, real_dir(c, d) if c["dest"] == "symlink" else d}

    def is_tmpfile(p):
        return is_tmpdir(os.path.dirname(p))

    def wid(pid):
        if pid == main_pid:
            return 0
        if pid not in workers:
            workers[pid] = len(workers) + 1
        return workers[pid]

    def absp(p):
        # lexical normalisation is enough: no directory of the scenario is a symbolic link
        return os.path.normpath(p if os.path.isabs(p) else os.path.join(tr_cwd, p))

    tr_cwd = cwd or os.getcwd()
    for pid, name, args, ret, tail in calls:
        counts[(pid, name)] = counts.get((pid, name), 0) + 1
        k = counts[(pid, name)]
        injected = "(INJECTED)" in tail
        okret = ret not in ("?",) and not ret.startswith("-")
        if name == "mkdir" and args and _unq(args[0]) == BEGIN_MARK:
            tr.begin = True
            main_pid = pid
            continue
        if name == "mkdir" and args and _unq(args[0]) == END_MARK:
            tr.end = True
            continue
        # fd bookkeeping (whole log)
        path_args = []
        if name in ("openat",):
            p = absp(_unq(args[1]))
            if okret:
                flags = args[2]
                kind = "r" if "O_RDONLY" in flags else ("rw" if "O_RDWR" in flags else "w")
                fd_add(int(ret), (p, kind, pid))
            path_args = [p]
        elif name in ("dup", "dup2", "dup3") and okret:
            src = int(args[0])
            if fd_get(src, pid):
                fd_add(int(ret), (fd_get(src, pid)[0], "dup", pid))
        elif name == "fcntl" and okret and len(args) > 1 and "F_DUPFD" in args[1]:
            src = int(args[0])
            if fd_get(src, pid):
                fd_add(int(ret), (fd_get(src, pid)[0], "dup", pid))
        if not tr.begin or tr.end:
            if name == "close" and okret:
                fd_pop(int(args[0]), pid)
            continue
        r = "ok" if okret else ("kill" if ret == "?" else "fail")
        ev = None
        if name == "mkdir":
            p = absp(_unq(args[0]))
            if is_tmpdir(p):
                ev = {"a": "MkTmpDir"}
            path_args = [p]
        elif name == "openat":
            p = path_args[0]
            flags = args[2]
            if is_tmpfile(p):
                ev = {"a": "OpenWorker" if "O_RDWR" in flags else "OpenTmp"}
            elif (p in dest_paths or p == other_file) and "O_RDONLY" in flags:
                ev = {"a": "OpenSrc"}       # ExternalTensor.tofile opens its backing file, whichever it is
            elif p == other_file:
                ev = {"a": "OpenOtherForWrite"}
            elif p == model_path:
                ev = {"a": "ModelIO"}
        elif name in ("write", "pwrite64"):
            fd = int(args[0])
            ent = fd_get(fd, pid)
            if ent and is_tmpfile(ent[0]):
                b = _first_byte(args[1])
                n = int(args[2])
                if b is not None and n == CH and 1 <= (b >> 4) <= c["nt"]:
                    ev = {"a": "WriteChunk", "t": b >> 4, "j": b & 15}
                elif b is not None and n % CH == 0 and (b >> 4) in c.get("np", []):
                    ev = {"a": "WriteChunk", "t": b >> 4, "j": b & 15}  # numpy tensor: one write for the whole tensor
                else:
                    ev = {"a": "WriteOther", "n": n}
            elif ent and ent[0] == model_path:
                ev = {"a": "ModelIO"}
        elif name == "copy_file_range":
            fd_out = int(args[2])
            ent = fd_get(fd_out, pid)
            if ent and is_tmpfile(ent[0]):
                off_in = int(re.sub(r"[\[\]]", "", args[1])) if args[1] != "NULL" else 0
                idx = off_in // CH - 1
                src = fd_get(int(args[0]), pid)
                group = c["other"] if (src and other_file and src[0] == other_file) else c["backed"]
                t = group[idx] if 0 <= idx < len(group) else 0
                if not okret and r == "fail" and re.search(r"\b(EPERM|EINVAL|ENOSYS|EOPNOTSUPP|EXDEV)\b", tail):
                    ev = {"a": "CfrFallback", "t": t, "r": "ok"}
                else:
                    ev = {"a": "WriteChunk", "t": t, "j": 1}
        elif name in ("ftruncate",):
            ent = fd_get(int(args[0]), pid)
            if ent and is_tmpfile(ent[0]):
                ev = {"a": "Prealloc"}
        elif name == "close":
            fd = int(args[0])
            ent = fd_get(fd, pid)
            if ent and is_tmpfile(ent[0]) and ent[1] == "w":
                ev = {"a": "CloseTmp"}
            elif ent and is_tmpfile(ent[0]) and ent[1] == "rw":
                ev = {"a": "CloseWorker", "w": wid(ent[2])}
            elif ent and ent[0] == model_path and ent[1] != "dup":
                ev = {"a": "ModelIO"}
            if r != "kill":
                fd_pop(fd, pid)  # an injected close failure: Python forgets the descriptor anyway
        elif name in ("chmod", "fchmodat"):
            p = absp(_unq(args[0] if name == "chmod" else args[1]))
            if is_tmpfile(p):
                ev = {"a": "CopyMode"}
        elif name in ("rename", "renameat", "renameat2"):
            ps = [absp(_unq(a)) for a in args if a.startswith('"')]
            if ps and is_tmpfile(ps[0]):
                ev = {"a": "Replace", "to": ps[-1]}
            elif any(p in dest_paths or p == other_file for p in ps):
                ev = {"a": "RenameOther"}
        elif name in ("unlink", "unlinkat"):
            p = absp(_unq(args[0] if name == "unlink" else args[1]))
            if is_tmpfile(p):
                ev = {"a": "RmTmpFile"}
                if not okret and "ENOENT" in tail and not injected:
                    r = "soft"
            elif is_tmpdir(p):
                ev = {"a": "RmTmpDir"}
            elif p in dest_paths or p == other_file:
                ev = {"a": "UnlinkDest"}
        elif name == "rmdir":
            p = absp(_unq(args[0]))
            if is_tmpdir(p):
                ev = {"a": "RmTmpDir"}
        elif name in ("truncate", "creat", "open", "link", "linkat", "symlink", "symlinkat", "fallocate", "sendfile", "writev", "mkdirat", "fchmod"):
            if any(d in a for a in args):
                ev = {"a": "Other:" + name}
            elif name in ("writev", "fallocate", "sendfile", "fchmod"):
                ent = fd_get(int(args[0]), pid)
                if ent and ent[0].startswith(d):
                    ev = {"a": "Other:" + name}
        # an openat of a destination for WRITING is never expected (direct write)
        if name == "openat" and ev is None and path_args and path_args[0] in dest_paths and "O_RDONLY" not in args[2]:
            ev = {"a": "OpenDestForWrite"}
        if name in ("write", "pwrite64") and ev is None:
            ent = fd_get(int(args[0]), pid)
            if ent and (ent[0] in dest_paths or ent[0] == other_file):
                ev = {"a": "WriteDest"}
        if ret == "?" and tr.killed_in is not None:
            continue   # calls of OTHER threads that were pending when the injected SIGKILL ended the process
        if ev is None:
            if injected or ret == "?":
                tr.unmapped.append(f"{name}:{'kill' if ret == '?' else 'fail'}")
            continue
        ev.setdefault("t", 0)
        ev.setdefault("j", 0)
        ev.setdefault("w", wid(pid))
        ev.setdefault("r", r)
        ev["sys"] = name
        if injected:
            tr.injected += 1
            ev["inj"] = True
        if ret == "?":
            tr.killed_in = name
        tr.events.append(ev)
        tr.positions.append((name, k, pid == main_pid))
    return tr


def spec_event(ev: dict) -> dict:
    return {"a": ev["a"], "t": ev.get("t", 0), "j": ev.get("j", 0), "w": ev.get("w", 0), "r": ev["r"]}




# ----------------------------------------------------------------------------------------------
# Python layer: proxies in the module globals of onnx_ir.external_data / onnx_ir._io
# ----------------------------------------------------------------------------------------------
class _Proxy:
    """Stands in for a module object in ANOTHER module's globals; forwards everything else."""

    def __init__(self, real, overrides: dict):
        object.__setattr__(self, "_real", real)
        object.__setattr__(self, "_over", overrides)

    def __getattr__(self, name):
        over = object.__getattribute__(self, "_over")
        if name in over:
            return over[name]
        return getattr(object.__getattribute__(self, "_real"), name)


class BindingError(Exception):
    """An internal name the proxies rely on is gone (machinery failure, never a verdict)."""


class PyLayer:
    """Context manager installing the effect-logging / fault-injecting proxies."""

    def __init__(self, hooks: Hooks):
        self.h = hooks
        self._saved = []

    def _set(self, mod, name, value, must_exist=True):
        if must_exist and not hasattr(mod, name):
            raise BindingError(f"{mod.__name__}.{name} not found")
        had = name in vars(mod)
        self._saved.append((mod, name, vars(mod).get(name), had))
        setattr(mod, name, value)

    def __enter__(self):
        import shutil
        import tempfile

        import onnx
        import onnx_ir._io as _io
        import onnx_ir.external_data as ed

        h = self.h
        for name, real in (("os", os), ("tempfile", tempfile), ("shutil", shutil)):
            if name == "shutil" and not hasattr(ed, name):
                continue        # the module does not use shutil (any more): nothing of it to observe
            if getattr(ed, name, None) is not real:
                raise BindingError(f"onnx_ir.external_data.{name} is not the module {name}")
        if getattr(_io, "onnx", None) is not onnx:
            raise BindingError("onnx_ir._io.onnx is not the module onnx")
        for fn in ("_write_external_data", "_check_no_existing_shard_files"):
            if not hasattr(ed, fn):
                raise BindingError(f"onnx_ir.external_data.{fn} not found")

        def mkdtemp(*a, **kw):
            with h.lock:
                h.effect("MkTmpDir", w=0)
                return tempfile.mkdtemp(*a, **kw)

        def copymode(src, dst, **kw):
            with h.lock:
                h.effect("CopyMode", w=0)
                return shutil.copymode(src, dst, **kw)

        def chmod(path, mode, **kw):       # a permission change by another route than shutil.copymode
            with h.lock:
                h.effect("CopyMode", w=0)
                return os.chmod(path, mode, **kw)

        def replace(src, dst, **kw):
            with h.lock:
                h.effect("Replace", w=0)
                return os.replace(src, dst, **kw)

        def move(src, dst, copy_function=None):
            # shutil.move spelled out (documented behaviour: "If the destination is on the current filesystem, then
            # os.rename() is used. Otherwise, src is copied to dst using copy_function and then removed"), so that
            # each file-system effect of it is an effect of the save - same names as the syscall layer uses
            if copy_function is not None or os.path.isdir(dst) or os.path.isdir(src):
                with h.lock:
                    h.effect("Replace", w=0)
                    return shutil.move(src, dst) if copy_function is None else shutil.move(src, dst, copy_function)
            with h.lock:
                ev = h.effect("Replace", w=0)
                try:
                    os.rename(src, dst)
                    return dst
                except OSError:
                    h.patch_last(ev, "fail")
            with h.lock:
                h.effect("OpenDestForWrite", w=0)
                out = io.FileIO(dst, "wb")
            try:
                with io.FileIO(src, "rb") as inp:
                    while True:
                        chunk = inp.read(CH)
                        if not chunk:
                            break
                        with h.lock:
                            h.effect("WriteDest", w=0)
                            out.write(chunk)
            finally:
                out.close()
            with h.lock:
                h.effect("CopyMode", w=0)
                shutil.copystat(src, dst)
            with h.lock:
                h.effect("RmTmpFile", w=0)
                os.unlink(src)
            return dst

        def remove(path, **kw):
            with h.lock:
                ev = h.effect("RmTmpFile", w=0)
                try:
                    return os.remove(path, **kw)
                except FileNotFoundError:
                    h.patch_last(ev, "soft")
                    raise

        def rmdir(path, **kw):
            with h.lock:
                h.effect("RmTmpDir", w=0)
                return os.rmdir(path, **kw)

        def probe_open(path, mode="r", *a, **kw):
            if mode == "wb":
                with h.lock:
                    h.effect("OpenTmp", w=0)
                    return _ProbeWriter(io.FileIO(path, "wb"), h, "CloseTmp", 0)
            if mode == "r+b":
                with h.lock:
                    w = h.worker()
                    h.effect("OpenWorker", w=w)
                    return _ProbeRandom(io.FileIO(path, "r+b"), h, "CloseWorker", w)
            return open(path, mode, *a, **kw)

        real_check = ed._check_no_existing_shard_files

        def check_exists(paths):
            with h.lock:
                h.effect("CheckExists", w=0)
            return real_check(paths)

        def onnx_save(*a, **kw):
            with h.lock:
                h.effect("ModelIO", w=0)
                return onnx.save(*a, **kw)

        self._set(ed, "os", _Proxy(os, {"replace": replace, "rename": replace, "remove": remove, "unlink": remove, "rmdir": rmdir,
                                        "chmod": chmod}))
        self._set(ed, "tempfile", _Proxy(tempfile, {"mkdtemp": mkdtemp}))
        if hasattr(ed, "shutil"):
            self._set(ed, "shutil", _Proxy(shutil, {"copymode": copymode, "copystat": copymode, "move": move}))
        self._set(ed, "open", probe_open, must_exist=False)
        self._set(ed, "_check_no_existing_shard_files", check_exists)
        self._set(_io, "onnx", _Proxy(onnx, {"save": onnx_save}))
        return self

    def __exit__(self, *exc):
        for mod, name, old, had in reversed(self._saved):
            if had:
                setattr(mod, name, old)
            else:
                try:
                    delattr(mod, name)
                except AttributeError:
                    pass
        self._saved.clear()
        return False


class _ProbeMixin:
    def _vf_init(self, h, close_event, w):
        self._vf_h, self._vf_close, self._vf_w, self._vf_closed = h, close_event, w, False

    def truncate(self, *a):
        with self._vf_h.lock:
            self._vf_h.effect("Prealloc", w=0)
            r = super().truncate(*a)
            self.flush()
            return r

    def close(self):
        if self._vf_closed:
            return super().close()
        self._vf_closed = True
        h = self._vf_h
        with h.lock:
            try:
                h.effect(self._vf_close, w=self._vf_w)
            except BaseException:
                try:
                    super().close()  # a failing close(2) still releases the descriptor
                except Exception:  # noqa: BLE001
                    pass
                raise
            return super().close()


class _ProbeWriter(_ProbeMixin, io.BufferedWriter):
    def __init__(self, raw, h, close_event, w):
        io.BufferedWriter.__init__(self, raw)
        self._vf_init(h, close_event, w)


class _ProbeRandom(_ProbeMixin, io.BufferedRandom):
    def __init__(self, raw, h, close_event, w):
        io.BufferedRandom.__init__(self, raw)
        self._vf_init(h, close_event, w)


PY_VIS = ["CheckExists", "MkTmpDir", "OpenTmp", "Prealloc", "CloseTmp", "Callback", "WriteChunk", "OpenWorker",
          "CloseWorker", "ReleaseMap", "CopyMode", "Replace", "RmTmpFile", "RmTmpDir", "Invalidate", "ModelIO"]
SYS_VIS = ["MkTmpDir", "OpenTmp", "Prealloc", "CloseTmp", "OpenSrc", "CfrFallback", "WriteChunk", "OpenWorker",
           "CloseWorker", "CopyMode", "Replace", "RmTmpFile", "RmTmpDir", "ModelIO"]
PRODUCING = {"CheckExists", "MkTmpDir", "OpenTmp", "Prealloc", "CloseTmp", "Callback", "OpenSrc", "WriteChunk",
             "OpenWorker", "CloseWorker", "CopyMode", "Replace"}


def py_run(c: dict, d: str, fault: dict | None, on_kill=None, sink: str | None = None) -> dict:
    """One save of configuration c in directory d (already prepared) with the Python-layer proxies,
    in THIS process.  Returns {"events", "out", "exc", "tensors"}; does not return when the fault kills."""
    import logging

    import onnx_ir as ir

    logging.getLogger("onnx_ir").setLevel(logging.ERROR)
    hooks = Hooks(fault, sink)
    hooks.on_kill = on_kill
    model, ext = build_model(c, d, hooks)
    for ten in ext.values():
        ten.numpy()
        ten._vf_armed = True

    def callback(tensor, info):
        t = int(tensor.name[1:])
        with hooks.lock:
            hooks.effect("Callback", t)

    res = {"out": "ok", "exc": None}
    with PyLayer(hooks):
        try:
            ir.save(model, os.path.join(d, MODEL_NAME), callback=callback, **save_kwargs(c))
        except BaseException as e:  # noqa: BLE001
            res = {"out": "raised", "exc": type(e).__name__, "msg": str(e)[:200]}
    for ten in ext.values():
        ten._vf_armed = False
    res["events"] = hooks.events
    res["fired"] = hooks.fired
    res["tensors"] = tensor_report(c, ext, True)
    return res


def py_job(job: dict) -> dict:
    """Fork, run py_run in the child (so that a kill fault, patched module globals and leaked
    descriptors stay there), collect events + outcome, observe the directory in the parent."""
    c, d, fault = norm_cfg(job["cfg"]), job["dir"], job.get("fault")
    prepare_dir(c, d)
    rpath = d + ".result.json"
    epath = d + ".events"
    pid = os.fork()
    if pid == 0:
        code = 3
        try:
            def on_kill(events):
                _robust_write(rpath, {"out": "crashed", "events": events, "tensors": {}, "fired": 1})

            res = py_run(c, d, fault, on_kill, epath)
            _robust_write(rpath, res)
            code = 0
        except BindingError as e:
            _robust_write(rpath, {"binding_error": str(e)})
            code = 4
        except BaseException as e:  # noqa: BLE001
            import traceback

            _robust_write(rpath, {"harness_error": traceback.format_exc()[-1500:]})
        finally:
            os._exit(code)
    status, deadline = None, time.time() + job.get("timeout", 300)
    while status is None:
        got, st = os.waitpid(pid, os.WNOHANG)
        if got == pid:
            status = st
        elif time.time() > deadline:
            os.kill(pid, 9)
            os.waitpid(pid, 0)
            status = -1
        else:
            time.sleep(0.002)
    try:
        if status == -1:
            raise ValueError("timeout")
        with open(rpath) as f:
            res = json.load(f)
    except (OSError, ValueError):
        if status == -1:
            res = {"harness_error": "timeout: the forked save did not finish"}
        else:
            res = None
    if res is None:
        # the process died on its own during the save (e.g. SIGBUS): a crash, with the streamed events
        res = {"out": "crashed", "events": _read_events(epath), "tensors": {}, "fired": 0, "died": True}
    for x in (rpath, epath):
        try:
            os.unlink(x)
        except OSError:
            pass
    res["status"] = status
    res["obs"] = observe(c, d)
    res["cfg"] = c
    res["fault"] = fault
    res["layer"] = "py"
    if not job.get("keep"):
        remove_dirs(c, d)
    return res


def _read_events(path: str) -> list:
    evs = []
    try:
        with open(path) as f:
            for line in f:
                try:
                    o = json.loads(line)
                except ValueError:
                    continue
                if "patch" in o:
                    if 0 <= o["patch"] < len(evs):
                        evs[o["patch"]]["r"] = o["r"]
                else:
                    evs.append(o)
    except OSError:
        pass
    return evs


def _robust_write(path: str, obj) -> None:
    data = json.dumps(obj).encode()
    for _ in range(4):  # an injected errno hits exactly one invocation; try again
        try:
            fd = os.open(path, os.O_WRONLY | os.O_CREAT | os.O_TRUNC, 0o644)
            try:
                os.write(fd, data)
            finally:
                os.close(fd)
            return
        except OSError:
            continue


# ----------------------------------------------------------------------------------------------
# syscall layer runner
# ----------------------------------------------------------------------------------------------
BURN = 64  # dummy openat/write/close by the saving thread after the tracer attached (see _burn)


def _burn(n: int = BURN) -> None:
    """strace counts `when=k` per thread from the moment it attaches.  The saving thread first burns
    n harmless openat/write/close calls, so that ITS effects are numbered n+1.. while the effects of
    the writer's worker threads are numbered 1..: every position has a unique (syscall, k).
    An errno injected into a dummy call is ignored here."""
    for _ in range(n):
        try:
            fd = os.open("/dev/null", os.O_WRONLY)
        except OSError:
            continue
        try:
            os.write(fd, b"x")
        except OSError:
            pass
        try:
            os.close(fd)
        except OSError:
            pass


def _strace_cmd(log: str, inj: dict | None) -> list:
    cmd = ["strace", "-f", "-s", "1", "-o", log, "-e", "trace=" + TRACE_SET]
    if inj:
        what = f"error={inj['errno']}" if inj["kind"] == "fail" else "signal=SIGKILL"
        cmd += ["-e", f"inject={inj['sys']}:{what}:when={inj['k']}"]
    return cmd


def _save_in_child(c: dict, d: str, rpath: str, wait_fd: int | None, ready_fd: int | None = None) -> None:
    """Body of the traced process: build, wait for the tracer, save between the markers, report."""
    import logging

    import onnx_ir as ir

    logging.getLogger("onnx_ir").setLevel(logging.ERROR)
    model, ext = build_model(c, d, None)
    for ten in ext.values():
        ten.numpy()  # hold a memory map of the destination, as after ir.load + use
    if wait_fd is not None:
        os.write(ready_fd, b"r")   # everything before the save is done: the tracer may attach now
        os.read(wait_fd, 1)
        _burn()
    res = {"out": "ok", "exc": None}
    _mark(BEGIN_MARK)
    try:
        ir.save(model, os.path.join(d, MODEL_NAME), **save_kwargs(c))
    except BaseException as e:  # noqa: BLE001
        res = {"out": "raised", "exc": type(e).__name__, "msg": str(e)[:200], "errno": getattr(e, "errno", None)}
    _mark(END_MARK)
    res["tensors"] = tensor_report(c, ext, True)
    res["repo"] = os.path.dirname(os.path.dirname(os.path.abspath(ir.__file__)))
    _robust_write(rpath, res)


def _tracer_pid(pid: int) -> int:
    try:
        with open(f"/proc/{pid}/status") as f:
            for line in f:
                if line.startswith("TracerPid:"):
                    return int(line.split()[1])
    except OSError:
        return -1
    return 0


def sys_job(job: dict) -> dict:
    """One real ir.save traced by strace (optionally with one injection); parse the log, observe.

    mode "attach" (default): fork from this warm process, the child waits, strace attaches with -p,
    then the child saves -- per-thread syscall counts start at the attach, so positions are small and
    deterministic.  mode "exec": a fresh interpreter is started under strace (counts include start-up)."""
    import shutil
    import subprocess

    c, d = norm_cfg(job["cfg"]), job["dir"]
    prepare_dir(c, d)
    log = d + ".strace"
    rpath = d + ".result.json"
    inj = job.get("inject")
    mode = job.get("mode", "attach")
    timeout = job.get("timeout", 180)
    rc, err = 0, ""
    if mode == "attach":
        r_go, w_go = os.pipe()
        r_rdy, w_rdy = os.pipe()
        pid = os.fork()
        if pid == 0:
            code = 0
            try:
                os.close(w_go)
                os.close(r_rdy)
                _save_in_child(c, d, rpath, r_go, w_rdy)
            except BaseException:  # noqa: BLE001
                code = 3
            finally:
                os._exit(code)
        os.close(r_go)
        os.close(w_rdy)
        ready = os.read(r_rdy, 1)   # b"" if the child died while preparing
        os.close(r_rdy)
        p = subprocess.Popen(_strace_cmd(log, inj)[:2] + ["-p", str(pid)] + _strace_cmd(log, inj)[2:],
                             stdout=subprocess.DEVNULL, stderr=subprocess.PIPE, text=True)
        deadline = time.time() + 30
        attached = False
        while time.time() < deadline:
            tp = _tracer_pid(pid)
            if tp > 0:
                attached = True
                break
            if p.poll() is not None or tp < 0:
                break
            time.sleep(0.002)
        if not attached:
            os.kill(pid, 9)
            os.waitpid(pid, 0)
            try:
                p.kill()
            except OSError:
                pass
            e = p.communicate()[1]
            obs_ = observe(c, d)
            remove_dirs(c, d)
            return {"cfg": c, "inject": inj, "rc": -998, "stderr": "strace could not attach: " + (e or "")[-300:], "res": {},
                    "layer": "sys", "events": [], "positions": [], "begin": False, "end": False, "injected": 0,
                    "killed_in": None, "unmapped": [], "obs": obs_, "attach_failed": True}
        os.write(w_go, b"x")
        os.close(w_go)
        status, deadline = None, time.time() + timeout
        while status is None:
            got, st = os.waitpid(pid, os.WNOHANG)
            if got == pid:
                status = st
            elif time.time() > deadline:
                os.kill(pid, 9)
                os.waitpid(pid, 0)
                status, rc = -1, -999
            else:
                time.sleep(0.002)
        try:
            err = p.communicate(timeout=30)[1][-800:]
        except subprocess.TimeoutExpired:
            p.kill()
            err = "strace did not exit"
        if rc == 0:
            rc = -9 if (os.WIFSIGNALED(status) and os.WTERMSIG(status) == 9) else (
                -os.WTERMSIG(status) if os.WIFSIGNALED(status) else os.WEXITSTATUS(status))
    else:
        cmd = _strace_cmd(log, inj) + [sys.executable, "-m", "vfh.faultfs", json.dumps({"cfg": c, "dir": d, "result": rpath})]
        env = dict(os.environ)
        env.update(PYTHONHASHSEED="0", PYTHONDONTWRITEBYTECODE="1", OMP_NUM_THREADS="1", OPENBLAS_NUM_THREADS="1",
                   MKL_NUM_THREADS="1")
        try:
            p = subprocess.run(cmd, env=env, capture_output=True, text=True, timeout=timeout, cwd=os.path.dirname(d))
            rc, err = p.returncode, p.stderr[-800:]
        except subprocess.TimeoutExpired:
            rc, err = -999, "timeout"
    res = {}
    try:
        with open(rpath) as f:
            res = json.load(f)
    except (OSError, ValueError):
        res = {}
    out = {"cfg": c, "inject": inj, "rc": rc, "stderr": err, "res": res, "layer": "sys", "mode": mode}
    try:
        tr = parse_strace(log, c, d, cwd=(os.path.dirname(d) if mode == "exec" else os.getcwd()))
        out.update(events=tr.events, positions=tr.positions, begin=tr.begin, end=tr.end, injected=tr.injected,
                   killed_in=tr.killed_in, unmapped=tr.unmapped)
    except OSError as e:
        out.update(events=[], positions=[], begin=False, end=False, injected=0, killed_in=None, unmapped=[],
                   parse_error=str(e))
    out["obs"] = observe(c, d)
    if not job.get("keep"):
        remove_dirs(c, d)
        for x in (log, rpath):
            try:
                os.unlink(x)
            except OSError:
                pass
    return out


def strace_available() -> tuple:
    """(mode, detail): mode is "attach", "exec" or None."""
    import shutil
    import subprocess

    exe = shutil.which("strace")
    if not exe:
        return None, "strace not installed"
    try:
        p = subprocess.run([exe, "-o", "/dev/null", "-e", "trace=mkdir", "-e", "inject=mkdir:error=EIO:when=1",
                            "/bin/mkdir", "/proc/self/vf-probe"], capture_output=True, text=True, timeout=30)
    except (OSError, subprocess.TimeoutExpired) as e:
        return None, f"strace failed to run: {e}"
    if "Input/output error" not in p.stderr:
        return None, "strace could not trace/inject: " + p.stderr[-200:]
    # can it attach to a running process?
    r, w = os.pipe()
    pid = os.fork()
    if pid == 0:
        try:
            os.close(w)
            os.read(r, 1)
            try:
                os.mkdir("/proc/self/vf-probe")
            except OSError as e:
                os._exit(7 if e.errno == _errno.EIO else 1)
            os._exit(1)
        finally:
            os._exit(2)
    os.close(r)
    q = subprocess.Popen([exe, "-f", "-p", str(pid), "-o", "/dev/null", "-e", "trace=mkdir", "-e",
                          "inject=mkdir:error=EIO:when=1"], stdout=subprocess.DEVNULL, stderr=subprocess.PIPE, text=True)
    deadline = time.time() + 15
    while time.time() < deadline and _tracer_pid(pid) == 0 and q.poll() is None:
        time.sleep(0.005)
    ok_attach = _tracer_pid(pid) > 0
    os.write(w, b"x")
    os.close(w)
    _, st = os.waitpid(pid, 0)
    try:
        q.communicate(timeout=15)
    except subprocess.TimeoutExpired:
        q.kill()
    if ok_attach and os.WIFEXITED(st) and os.WEXITSTATUS(st) == 7:
        return "attach", exe
    return "exec", exe + " (cannot attach to a running process; starting the interpreter under strace)"


if __name__ == "__main__":
    sys.exit(child_main(sys.argv[1:]))
