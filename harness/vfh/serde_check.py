"""Orchestration shared by checks C02 and C17: TLC runs of SerdeMC with tier constants, parallel
execution of the emitted protos on the real library, trace validation of the observed IRs."""

from __future__ import annotations

import json
import multiprocessing as mp
import os
import random
import re
import subprocess
import sys

from . import concretize as C
from . import serde_mut as M
from . import serde_run as R
from .common import NCPU, SPECS, MachineryError

SERDE = os.path.join(SPECS, "serde")
MC = os.path.join(SERDE, "SerdeMC.tla")
TRACE = os.path.join(SERDE, "SerdeTrace.tla")
TRACE_CFG = os.path.join(SERDE, "SerdeTrace.cfg")

HEAP = "3g"            # the state spaces are small; a modest heap keeps the check usable on a busy machine
TLC_WORKERS = int(os.environ.get("VERIF_TLC_WORKERS", "0")) or None
PROCS = int(os.environ.get("VERIF_PROCS", "0")) or None

CONST_KEYS = ("Dev", "Mode", "MaxNodes", "MaxGraphs", "MaxDepth", "MaxSlots", "MaxIO", "MaxNodeIO", "MaxInits", "Irvs", "WithFunc", "EmitOn", "MaxAnn")


def write_cfg(ctx, base_cfg: str, name: str, **consts) -> str:
    """Copy of a committed cfg with some constants replaced (tier bounds)."""
    src = open(os.path.join(SERDE, base_cfg)).read()
    for k, v in consts.items():
        if k not in CONST_KEYS:
            raise MachineryError(f"unknown constant {k}")
        src, n = re.subn(rf"^(\s*{k}\s*=\s*).*$", lambda m, v=v: m.group(1) + str(v), src, flags=re.M)
        if n != 1:
            raise MachineryError(f"constant {k} not found in {base_cfg}")
    path = os.path.join(ctx.scratch, name)
    with open(path, "w") as f:
        f.write(src)
    return path


def constants_of(cfg_path: str) -> dict:
    out = {}
    for line in open(cfg_path):
        m = re.match(r"^\s*(\w+)\s*=\s*(.*)$", line)
        if m and m.group(1) in CONST_KEYS:
            out[m.group(1)] = m.group(2).strip()
    return out


def run_mc(ctx, cfg: str, tag: str, timeout: int = 3000, coverage: bool = False):
    res = ctx.tlc(MC, cfg, tag=tag, timeout=timeout, coverage=coverage, deadlock=False, heap=HEAP, workers=TLC_WORKERS)
    if not res.ok:
        raise MachineryError(f"TLC failed on {os.path.basename(cfg)}: rc={res.returncode} violated={res.violated} errors={res.errors[:2]}\n{res.tail(25)}")
    return res


def record_lines(path: str):
    with open(path, "r", errors="replace") as f:
        for line in f:
            if line.startswith('"'):
                yield line


def chunks_of(path: str, size: int, seed: int):
    base = 0
    buf = []
    for line in record_lines(path):
        buf.append(line)
        if len(buf) >= size:
            yield (buf, base, seed)
            base += len(buf)
            buf = []
    if buf:
        yield (buf, base, seed)


def pool_map(fn, tasks, procs: int | None = None, per_task_timeout: float = 600.0, stream: bool = False):
    """Run fn over the tasks in a fork pool.  A task that does not come back within the wall guard is a
    termination failure of some case in it (reported by the caller), not a hang of the check.
    stream=True: `tasks` may be a generator (the TLC output is not loaded at once); lost tasks are then only
    counted (None entries), with stream=False they are returned."""
    procs = procs or PROCS or max(2, min(NCPU, 16))
    ctxmp = mp.get_context("fork")
    pool = ctxmp.Pool(procs, maxtasksperchild=50)
    results, lost = [], []
    try:
        if stream:
            it = pool.imap_unordered(fn, tasks)
            while True:
                try:
                    results.append(it.next(timeout=per_task_timeout))
                except StopIteration:
                    break
                except mp.TimeoutError:
                    lost.append(None)
                    break
        else:
            pending = [(t, pool.apply_async(fn, (t,))) for t in tasks]
            for t, a in pending:
                try:
                    results.append(a.get(timeout=per_task_timeout))
                except mp.TimeoutError:
                    lost.append(t)
    finally:
        pool.terminate()
        pool.join()
    return results, lost


def merge_counts(dst: dict, src: dict) -> None:
    for k, v in src.items():
        dst[k] = dst.get(k, 0) + v


def case_key(d: dict) -> str:
    """Order on recorded first cases that does not depend on the order in which TLC's workers printed the
    records (nor on the order in which pool workers returned)."""
    return json.dumps({k: d.get(k) for k in ("p", "salt", "mutation", "index", "rng_seed", "seed_proto_hex", "mutator", "cfg")}, sort_keys=True, default=str)


def merge_cases(dst: dict, src: dict) -> None:
    """Union of signature -> first case; counts add up; the recorded case is the smallest one (deterministic)."""
    for sig, d in src.items():
        if sig in dst:
            n = dst[sig].get("count", 1) + d.get("count", 1)
            eps = list(dict.fromkeys(dst[sig].get("entry_points", []) + d.get("entry_points", [])))
            if case_key(d) < case_key(dst[sig]):
                dst[sig] = d
            dst[sig]["count"] = n
            if eps:
                dst[sig]["entry_points"] = sorted(eps)
        else:
            dst[sig] = d


# --------------------------------------------------------------------------------------------
# trace validation of observed IR projections
# --------------------------------------------------------------------------------------------
def validate_projections(ctx, projs: dict, tag: str = "trace", batch: int = 20000) -> tuple:
    """projs: json(o) -> detail(count).  Returns (examined, {index: [broken invariants]}, keys in file order).
    The observed states are handed to TLC in batches (one JVM start per batch keeps the heap small)."""
    keys = list(projs)
    bad, examined = {}, 0
    for b0 in range(0, len(keys), batch):
        part = keys[b0 : b0 + batch]
        path = os.path.join(ctx.scratch, f"{tag}-{b0 // batch}.json")
        with open(path, "w") as f:
            f.write('{"obs":[')
            f.write(",".join(part))
            f.write("]}")
        res = ctx.tlc(TRACE, TRACE_CFG, tag=f"{tag}-{b0 // batch}", timeout=3000, env={"TRACE_FILE": path}, deadlock=False, heap=HEAP, workers=TLC_WORKERS)
        if not res.ok:
            raise MachineryError(f"trace validation failed to run: rc={res.returncode} {res.errors[:2]}\n{res.tail(25)}")
        if res.distinct != len(part):
            raise MachineryError(f"trace validation examined {res.distinct} of {len(part)} observed states")
        examined += res.distinct
        for rec in res.records():
            if isinstance(rec, list) and rec and rec[0] == "bad":
                bad[b0 + rec[1] - 1] = rec[2]
        os.remove(path)
        os.remove(res.out_path)
    return examined, bad, keys


# --------------------------------------------------------------------------------------------
# mutation stage
# --------------------------------------------------------------------------------------------
def mutation_cases(seeds: list, seed: int, n_seeds: int, n_byte: int) -> list:
    rng = random.Random(seed ^ 0x5EED)
    pool = list(seeds)
    rng.shuffle(pool)
    pool = pool[:n_seeds]
    cases = []
    for si, sb in enumerate(pool):
        for mi in range(len(M.FIELD_MUTATORS)):
            cases.append((sb, "field", mi, rng.randrange(2**31)))
        for _ in range(n_byte):
            cases.append((sb, "byte", 0, rng.randrange(2**31)))
    return cases


# --------------------------------------------------------------------------------------------
# strace confirmation of "no file access" on a batch (independent of the audit hook)
# --------------------------------------------------------------------------------------------
_CHILD = r"""
import sys, pickle, logging
logging.disable(logging.CRITICAL)
sys.path.insert(0, sys.argv[2])
import onnx, onnx_ir as ir
from vfh import serde_run as R
protos = pickle.load(open(sys.argv[1], 'rb'))
import os
os.write(2, b'STRACE-BEGIN-MARK\n')
try:
    os.stat('/STRACE_BEGIN_MARK')
except OSError:
    pass
n = 0
for b in protos:
    m = onnx.ModelProto(); m.ParseFromString(b)
    try:
        model = ir.serde.deserialize_model(m)
    except Exception:
        continue
    for t in R._all_tensors(model):
        for a in ('name', 'dtype', 'shape', 'size'):
            try: getattr(t, a)
            except Exception: pass
    n += 1
try:
    os.stat('/STRACE_END_MARK')
except OSError:
    pass
print(n)
"""


def strace_batch(ctx, protos: list) -> dict:
    """Deserialize + inspect the batch in a child under strace; returns {'ran': n, 'touched': [paths]}:
    every file-related system call between the two markers whose path is not an interpreter/library file."""
    import pickle
    import shutil

    if not shutil.which("strace") or not protos:
        return {"ran": 0, "touched": [], "skipped": "strace unavailable or empty batch"}
    pk = os.path.join(ctx.scratch, "strace_batch.pkl")
    with open(pk, "wb") as f:
        pickle.dump(protos, f)
    child = os.path.join(ctx.scratch, "strace_child.py")
    with open(child, "w") as f:
        f.write(_CHILD)
    log = os.path.join(ctx.scratch, "strace.log")
    harness = os.path.dirname(os.path.dirname(os.path.abspath(__file__)))
    env = dict(os.environ, PYTHONDONTWRITEBYTECODE="1")
    try:
        p = subprocess.run(["strace", "-f", "-o", log, "-e", "trace=file", sys.executable, child, pk, harness],
                           capture_output=True, text=True, timeout=900, env=env, cwd=ctx.scratch)
    except subprocess.TimeoutExpired:
        return {"ran": 0, "touched": [], "skipped": "strace child timed out"}
    if p.returncode != 0 or not os.path.exists(log):
        return {"ran": 0, "touched": [], "skipped": f"strace child failed rc={p.returncode}: {p.stderr[-300:]}"}
    touched, on = [], False
    ignore = tuple(os.path.realpath(x) for x in {sys.prefix, sys.base_prefix, "/venv", os.environ.get("VERIF_REPO", "/repo"), harness, "/usr/lib", "/lib", "/etc/ld.so.cache", "/proc", "/sys", "/dev"})
    for line in open(log, errors="replace"):
        if "STRACE_BEGIN_MARK" in line:
            on = True
            continue
        if "STRACE_END_MARK" in line:
            on = False
            continue
        if not on:
            continue
        m = re.search(r'\w+\((?:AT_FDCWD, |\d+, )?"([^"]*)"', line)
        if not m:
            continue
        path = m.group(1)
        ap = os.path.abspath(os.path.join(ctx.scratch, path))
        if ap.startswith(ignore) or path.startswith(ignore):
            continue
        touched.append(line.strip()[:200])
    try:
        ran = int(p.stdout.strip().splitlines()[-1])
    except (ValueError, IndexError):
        ran = 0
    return {"ran": ran, "touched": touched[:20]}


def catalogue_coverage(used: dict) -> dict:
    """How many leaves of each catalogue kind were actually drawn."""
    out = {}
    for k, n in C.CATALOGUE_SIZES.items():
        out[k] = [len(used.get(k, ())), n]
    return out
