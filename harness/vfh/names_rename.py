"""C15 part C - binding of the bulk-rename model (specs/names/Names.tla, prefix R) to
onnx_ir.convenience.rename_values on real values / graphs."""

from __future__ import annotations

import json
import multiprocessing as mp

import onnx_ir as ir

NONE = "<none>"


def _tok(x):
    return NONE if x is None else x


def build(pre: dict, rereg: bool = True):
    nv = len(pre["vname"])
    values = []
    for v in range(nv):
        nm = pre["vname"][v]
        c = ir.tensor([float(v)], name=nm) if pre["cname"][v] != NONE else None
        values.append(ir.Value(name=nm, const_value=c))
    graphs = []
    for g in (1, 2):
        graphs.append(ir.Graph([], [], nodes=[], initializers=[values[e[1] - 1] for e in pre["keys"][g - 1]], name=f"g{g}"))
    # registering an initializer again under its own name changes nothing (alternating over the instances)
    how = (nv + sum(len(k) for k in pre["keys"])) % 4
    if how and rereg:
        for gr in graphs:
            for key, val in list(gr.initializers.items()):
                if how == 1:
                    gr.initializers[key] = val
                elif how == 2:
                    gr.register_initializer(val)
                else:
                    gr.initializers.add(val)
    return values, graphs


def observe(values, graphs) -> dict:
    vid = {id(v): i + 1 for i, v in enumerate(values)}
    gid = {id(g): i + 1 for i, g in enumerate(graphs)}
    return {
        "vname": [_tok(v.name) for v in values],
        "vinit": [gid.get(id(v.graph), -1) if v.is_initializer() else 0 for v in values],
        "cname": [_tok(v.const_value.name) if v.const_value is not None else NONE for v in values],
        "keys": [[[_tok(k), vid.get(id(x), -1)] for k, x in g.initializers.items()] for g in graphs],
    }


def run_instance(pre: dict, pairs: list) -> dict:
    values, graphs = build(pre)
    got = observe(values, graphs)
    if got != pre:
        v0, g0 = build(pre, rereg=False)
        if observe(v0, g0) == pre:
            # the instance is fine, registering its initializers again (a no-op request) changed it: judged like a
            # bulk rename that asked for nothing
            return {"post": got, "out": "ok", "exc": "registering the initializers again under their own names changed the state",
                    "pairs": []}
        return {"error": f"could not build {pre}: {got}"}
    out, exc = "ok", None
    try:
        ir.convenience.rename_values([values[p[0] - 1] for p in pairs], [None if p[1] == NONE else p[1] for p in pairs])
    except Exception as e:  # noqa: BLE001
        out, exc = "raise", f"{type(e).__name__}: {e}"
    return {"post": observe(values, graphs), "out": out, "exc": exc}


def _chunk(lines):
    res = []
    for line in lines:
        try:
            pre, pairs, post, out = json.loads(json.loads(line))
        except ValueError:
            res.append({"unparsed": 1})
            continue
        o = run_instance(pre, pairs)
        if "error" in o:
            res.append({"error": o["error"]})
            continue
        if "pairs" in o:
            res.append({"pre": pre, "pairs": o["pairs"], "post": o["post"], "out": o["out"], "exc": o["exc"], "conf": False,
                        "pred": [pre, "ok"]})
            continue
        conf = o["post"] == post and (o["out"] == "ok") == (out == "ok")
        res.append({"pre": pre, "pairs": pairs, "post": o["post"], "out": o["out"], "exc": o["exc"], "conf": conf,
                    "pred": [post, out]})
    return res


def replay_file(path: str, nproc: int, pool=None) -> list:
    lines = []
    with open(path, "r", errors="replace") as f:
        for line in f:
            if line.startswith('"['):
                lines.append(line)
    step = max(1, len(lines) // (nproc * 4) + 1)
    chunks = [lines[i:i + step] for i in range(0, len(lines), step)]
    res = []
    own = pool is None
    if own:
        pool = mp.get_context("fork").Pool(nproc)
    try:
        for r in pool.imap(_chunk, chunks):
            res += r
    finally:
        if own:
            pool.terminate()
    return res


def kind_of(pre: dict, pairs: list) -> str:
    """Feature class of a rename call (for coverage accounting and signatures)."""
    vals = [p[0] for p in pairs]
    names = [p[1] for p in pairs]
    feats = []
    if len(set(vals)) < len(vals):
        d = {}
        conflict = False
        for v, n in pairs:
            if v in d and d[v] != n:
                conflict = True
            d[v] = n
        feats.append("dup-conflict" if conflict else "dup-same")
    cur = {v: pre["vname"][v - 1] for v in vals}
    tgt = dict(pairs)
    if len(set(vals)) >= 2 and set(tgt.values()) == set(cur.values()) and all(tgt[v] != cur[v] for v in tgt) \
            and len(set(tgt.values())) == len(tgt):
        feats.append("cycle3" if len(tgt) == 3 else "swap")
    if "" in names:
        feats.append("empty")
    if NONE in names:
        feats.append("nonstr")
    if len(set(names)) < len({v for v in vals}):
        feats.append("same-target")
    ninit = sum(1 for v in set(vals) if pre["vinit"][v - 1] != 0)
    feats.append(f"init{ninit}of{len(set(vals))}")
    others = {pre["vname"][i] for i in range(len(pre["vname"])) if (i + 1) not in vals and pre["vinit"][i] != 0}
    if others & set(names):
        feats.append("hits-bystander")
    return "+".join(feats)
