"""Abstract proto (Serde.tla, compact explicit form) -> real onnx.ModelProto.

The TLA+ model decides WHICH payload token sits WHERE and HOW MANY TIMES; this module decides
what a token IS.  Every token is drawn deterministically (crc32 of the token id, rotated by a
per-proto salt derived from the seed) from a CATALOGUE OF CONCRETE LEAVES that covers the
supported feature set of C02's statement.  The same function renders the enumerated proto and
the specification's expectation ``Norm(p)`` (same token -> same leaf), so that the comparison
real_output == concretize(Norm(p)) is a field-by-field comparison of real protobuf messages.

Token ids (see SerdeMC.tla):  "g1.head" "g1.doc" "g1.meta" "g2.opset" "g2.attrs"   graph / function
                              "g1:a.ty" "g1:a.sh" "g1:a.doc" "g1:a.meta" "g1:a.q"   value a of graph 1
                              "g1.i1.t" "g1.i1.tdoc" "g1.i1.tmeta"                  initializer 1
                              "g1.i1>ty" "g1.i1>sh"                                 type/shape DERIVED from it
                              "g1.n2.head" ".doc" ".meta" ".attrs" ".dev"           node 2 of graph 1
                              "m.head" "m.doc" "m.meta" "m.opset" "m.cfg"           model
"""

from __future__ import annotations

import struct
import zlib

import numpy as np
import onnx
from onnx import TensorProto as TP

# --------------------------------------------------------------------------------------------
# catalogue
# --------------------------------------------------------------------------------------------


def _t(dtype, dims, **fields):
    t = onnx.TensorProto()
    t.data_type = dtype
    t.dims.extend(dims)
    for k, v in fields.items():
        if k == "raw_data":
            t.raw_data = v
        elif k == "external":
            t.data_location = TP.EXTERNAL
            for kk, vv in v:
                e = t.external_data.add()
                e.key, e.value = kk, vv
        elif k == "data_location":
            t.data_location = v
        else:
            getattr(t, k).extend(v)
    return t


def _f32(*xs):
    return np.array(xs, dtype="<f4").tobytes()


TENSORS = [
    ("float/raw", lambda: _t(TP.FLOAT, [2, 2], raw_data=_f32(1.0, -2.5, 0.0, 3.25))),
    ("float/float_data", lambda: _t(TP.FLOAT, [3], float_data=[1.5, float("inf"), -0.0])),
    ("int32/int32_data", lambda: _t(TP.INT32, [2], int32_data=[-7, 2147483647])),
    ("int64/int64_data", lambda: _t(TP.INT64, [2, 1], int64_data=[-(2**62), 5])),
    ("uint64/uint64_data", lambda: _t(TP.UINT64, [2], uint64_data=[2**63 + 1, 0])),
    ("double/double_data", lambda: _t(TP.DOUBLE, [1], double_data=[1e300])),
    ("string/string_data", lambda: _t(TP.STRING, [2], string_data=[b"ab", "ü✓".encode()])),
    ("float16/int32_data", lambda: _t(TP.FLOAT16, [2], int32_data=[0x3C00, 0xC000])),
    ("bfloat16/raw", lambda: _t(TP.BFLOAT16, [2], raw_data=struct.pack("<HH", 0x3F80, 0xC000))),
    ("int8/int32_data", lambda: _t(TP.INT8, [3], int32_data=[-128, 0, 127])),
    ("uint8/raw", lambda: _t(TP.UINT8, [4], raw_data=bytes([0, 1, 254, 255]))),
    ("bool/int32_data", lambda: _t(TP.BOOL, [2], int32_data=[1, 0])),
    ("uint32/uint64_data", lambda: _t(TP.UINT32, [1], uint64_data=[4294967295])),
    ("complex64/float_data", lambda: _t(TP.COMPLEX64, [1], float_data=[1.0, -1.0])),
    ("complex128/double_data", lambda: _t(TP.COMPLEX128, [1], double_data=[0.5, 2.0])),
    ("int4/raw", lambda: _t(TP.INT4, [3], raw_data=bytes([0x21, 0x0F]))),
    ("uint4/int32_data", lambda: _t(TP.UINT4, [2], int32_data=[0xF1])),
    ("float8e4m3fn/raw", lambda: _t(TP.FLOAT8E4M3FN, [2], raw_data=bytes([0x38, 0xB8]))),
    ("float8e5m2/int32_data", lambda: _t(TP.FLOAT8E5M2, [2], int32_data=[0x3C, 0xBC])),
    ("float4e2m1/raw", lambda: _t(TP.FLOAT4E2M1, [2], raw_data=bytes([0x21]))),
    ("uint16/int32_data", lambda: _t(TP.UINT16, [1], int32_data=[65535])),
    ("int16/raw", lambda: _t(TP.INT16, [2], raw_data=struct.pack("<hh", -2, 3))),
    ("float/scalar", lambda: _t(TP.FLOAT, [], raw_data=_f32(7.0))),
    ("int64/empty", lambda: _t(TP.INT64, [0], raw_data=b"")),
    ("float/empty-no-field", lambda: _t(TP.FLOAT, [0, 3])),
    ("float/default-location", lambda: _t(TP.FLOAT, [1], float_data=[2.0], data_location=TP.DEFAULT)),
    ("float/external", lambda: _t(TP.FLOAT, [2, 3], external=[("location", "./weights.bin"), ("offset", "4096"), ("length", "24")])),
    ("uint8/external-location-only", lambda: _t(TP.UINT8, [5], external=[("location", "sub/./nested//w.data")])),
    # STRING tensors: TensorProto.string_data is 'repeated bytes' - arbitrary byte strings, not NUL terminated text
    ("string/trailing-nul", lambda: _t(TP.STRING, [3], string_data=[b"key\x00", b"\x00", b"pad\x00\x00\x00"])),
    ("string/nul-positions-rank2", lambda: _t(TP.STRING, [2, 3], string_data=[b"a\x00b", b"\x00lead", b"", b"\x00\x00", b"x", b"a much longer element than the others\x00"])),
    ("string/non-utf8", lambda: _t(TP.STRING, [4], string_data=[b"\xff\xfe", b"ok", b"\xc3\x28\x00", b"\x80"])),
    ("string/scalar-trailing-nul", lambda: _t(TP.STRING, [], string_data=[b"scalar\x00"])),
    ("string/empty-rank1", lambda: _t(TP.STRING, [0])),
    ("string/empty-rank2", lambda: _t(TP.STRING, [0, 2])),
    ("string/empty-elements", lambda: _t(TP.STRING, [2, 1], string_data=[b"", b""])),
]
STRING_TENSOR_LEAVES = [i for i, (n, _) in enumerate(TENSORS) if n.startswith("string/")]

# (constructor kind, elem / inner, denotation)
TYPES = [
    ("tensor", TP.FLOAT, None),
    ("tensor", TP.INT64, "TENSOR"),
    ("tensor", TP.STRING, None),
    ("tensor", TP.BOOL, None),
    ("tensor", TP.BFLOAT16, None),
    ("tensor", TP.FLOAT8E5M2, None),
    ("tensor", TP.UINT4, None),
    ("tensor", TP.COMPLEX64, None),
    ("sparse", TP.FLOAT, None),
    ("sparse", TP.INT8, "SPARSE"),
    ("seq", ("tensor", TP.FLOAT, None), None),
    ("opt", ("tensor", TP.INT32, "INNER"), None),
    ("opt", ("seq", ("tensor", TP.FLOAT, None), None), "OPTSEQ"),
    ("seq", ("seq", ("tensor", TP.STRING, None), "MID"), None),
    ("seq", ("sparse", TP.DOUBLE, None), None),
    ("opt", ("seq", ("seq", ("tensor", TP.INT64, None), None), None), None),
]

# None = no shape field (unknown rank); a dim is int | str | None, optionally (dim, denotation)
SHAPES = [
    [],
    [1, 2, 3],
    ["N", 3],
    [None, "M"],
    [0],
    [("B", "DATA_BATCH"), (3, "DATA_CHANNEL"), (None, "DATA_FEATURE")],
    [2**40, 1],
    None,
    ["batch", "seq_len", 768],
]

DOCS = ["doc", "two\nlines", "ünïcödé ✓", " ", "x" * 300, "", "tab\tand \"quotes\""]
METAS = [
    [("k", "v")],
    [("b", "2"), ("a", "1")],
    [("key", "")],
    [("pkg.torch.onnx.name_scopes", "['', 'layer.0']"), ("pkg.torch.onnx.class_hierarchy", "['M', 'L']"), ("z", "ü")],
    [("namespace", "a/b/c: X")],
]

# (op_type, domain, overload, name)   overload only from IR version 10
NODE_HEADS = [
    ("Add", "", "", "n"),
    ("Custom", "com.example", "", ""),
    ("Relu", "ai.onnx", "", "r1"),
    ("Fn", "local", "", "call"),
    ("If", None, "", "branch"),          # domain unset
    ("Loop", "", "", None),              # name unset
    ("LayerNorm", "com.microsoft", "", "node/with:chars"),
]
NODE_HEADS_V10 = NODE_HEADS + [("Fn", "local", "ov1", "call_ov"), ("G", "ai.onnx", "v2", "")]
GRAPH_HEADS = ["g", "main_graph", "", None, "torch_jit", "body-1"]
FUNC_HEADS = [("f", "local", ""), ("Fn", "com.example", ""), ("g", "", "")]
FUNC_HEADS_V10 = FUNC_HEADS + [("f", "local", "ov1"), ("Fn", "com.example", "fp16")]
MODEL_HEADS = [
    dict(producer_name="pytorch", producer_version="2.6.0", domain="org.example", model_version=3),
    dict(producer_name="p"),
    dict(),
    dict(producer_name="", producer_version="", domain="", model_version=0),
    dict(producer_version="1", model_version=2**40),
]
OPSETS = [
    [("", 18)],
    [("", 21), ("com.example", 1)],
    [("ai.onnx", 17)],
    [("com.microsoft", 1), ("", 13), ("local", 1)],
    [("", 1)],
    [("ai.onnx.ml", 3), ("", 20)],
]
MODEL_CFGS = [
    [("c0", 2, ["d0", "d1"])],
    [("c0", 4, []), ("c1", 1, ["gpu:0"])],
]


def _attr(name, kind, value=None, doc=None, ref=None):
    a = onnx.AttributeProto()
    a.name = name
    if doc is not None:
        a.doc_string = doc
    a.type = kind
    if ref is not None:
        a.ref_attr_name = ref
        return a
    AP = onnx.AttributeProto
    if kind == AP.FLOAT:
        a.f = value
    elif kind == AP.INT:
        a.i = value
    elif kind == AP.STRING:
        a.s = value
    elif kind == AP.TENSOR:
        a.t.CopyFrom(value)
    elif kind == AP.FLOATS:
        a.floats.extend(value)
    elif kind == AP.INTS:
        a.ints.extend(value)
    elif kind == AP.STRINGS:
        a.strings.extend(value)
    elif kind == AP.TENSORS:
        for t in value:
            a.tensors.add().CopyFrom(t)
    elif kind == AP.TYPE_PROTO:
        a.tp.CopyFrom(value)
    elif kind == AP.TYPE_PROTOS:
        for t in value:
            a.type_protos.add().CopyFrom(t)
    return a


def make_type(spec, shape="noshape"):
    """TypeProto from a TYPES entry; the shape (a SHAPES entry) goes into the leaf tensor type."""
    tp = onnx.TypeProto()
    kind, inner, den = spec
    if den:
        tp.denotation = den
    if kind == "tensor":
        tp.tensor_type.elem_type = inner
        if shape != "noshape" and shape is not None:
            fill_shape(tp.tensor_type.shape, shape)
    elif kind == "sparse":
        tp.sparse_tensor_type.elem_type = inner
        if shape != "noshape" and shape is not None:
            fill_shape(tp.sparse_tensor_type.shape, shape)
    elif kind == "seq":
        tp.sequence_type.elem_type.CopyFrom(make_type(inner, shape))
    elif kind == "opt":
        tp.optional_type.elem_type.CopyFrom(make_type(inner, shape))
    return tp


def fill_shape(shape_proto, dims):
    shape_proto.ClearField("dim")  # touch: rank 0 is a present, empty shape
    for d in dims:
        den = None
        if isinstance(d, tuple):
            d, den = d
        dp = shape_proto.dim.add()
        if isinstance(d, int):
            dp.dim_value = d
        elif isinstance(d, str):
            dp.dim_param = d
        if den:
            dp.denotation = den


def _named_tensor(i, name, meta=None, doc=None):
    t = TENSORS[i % len(TENSORS)][1]()
    t.name = name
    if doc:
        t.doc_string = doc
    for k, v in meta or ():
        e = t.metadata_props.add()
        e.key, e.value = k, v
    return t


def _ti(name: str) -> int:
    return next(i for i, (n, _) in enumerate(TENSORS) if n == name)


def _attr_lists():
    AP = onnx.AttributeProto
    return [
        ("float-int-string", lambda: [_attr("alpha", AP.FLOAT, 1.5, doc="scale"), _attr("axis", AP.INT, -3), _attr("mode", AP.STRING, b"hello")]),
        ("ints-floats-strings", lambda: [_attr("pads", AP.INTS, [1, 2, 3, -(2**40)]), _attr("scales", AP.FLOATS, [0.5, -0.0, float("inf")]),
                                         _attr("names", AP.STRINGS, [b"a", "ü".encode(), b""], doc="labels")]),
        ("tensor-tensors", lambda: [_attr("value", AP.TENSOR, _named_tensor(0, "const", meta=[("tk", "tv")], doc="tensor doc")),
                                    _attr("values", AP.TENSORS, [_named_tensor(3, "t0"), _named_tensor(6, ""), _named_tensor(26, "ext")], doc="many")]),
        ("type_proto-type_protos", lambda: [_attr("dtype", AP.TYPE_PROTO, make_type(TYPES[12], SHAPES[2]), doc="tp"),
                                            _attr("types", AP.TYPE_PROTOS, [make_type(TYPES[0], SHAPES[0]), make_type(TYPES[10]), make_type(TYPES[9], SHAPES[5])])]),
        ("defaults", lambda: [_attr("zero", AP.INT, 0), _attr("fzero", AP.FLOAT, 0.0), _attr("empty", AP.STRING, b""), _attr("no_ints", AP.INTS, [])]),
        ("none", lambda: []),
        ("nan-and-bits", lambda: [_attr("nan", AP.FLOAT, float("nan")), _attr("tiny", AP.FLOAT, 1e-45), _attr("big", AP.INT, 2**63 - 1),
                                  _attr("neg", AP.INT, -(2**63))]),
        ("string-tensors", lambda: [_attr("keys", AP.TENSOR, _named_tensor(_ti("string/trailing-nul"), "keys", doc="padded keys")),
                                    _attr("tables", AP.TENSORS, [_named_tensor(_ti("string/nul-positions-rank2"), "t2"), _named_tensor(_ti("string/non-utf8"), "raw"),
                                                                 _named_tensor(_ti("string/scalar-trailing-nul"), ""), _named_tensor(_ti("string/empty-rank2"), "e"),
                                                                 _named_tensor(_ti("string/empty-elements"), "ee", meta=[("m", "1")])])]),
        ("string-tensors-2", lambda: [_attr("t", AP.TENSOR, _named_tensor(_ti("string/scalar-trailing-nul"), "s")),
                                      _attr("e", AP.TENSOR, _named_tensor(_ti("string/empty-rank1"), "e1")),
                                      _attr("ts", AP.TENSORS, [_named_tensor(_ti("string/trailing-nul"), "k"), _named_tensor(_ti("string/string_data"), "plain")])]),
        ("nul-bytes-in-strings", lambda: [_attr("key", AP.STRING, b"key\x00"), _attr("nul", AP.STRING, b"\x00"), _attr("mid", AP.STRING, b"a\x00b"),
                                          _attr("lead", AP.STRING, b"\x00lead"), _attr("raw", AP.STRING, b"\xff\xfe\x00", doc="not UTF-8: kept as bytes"),
                                          _attr("many", AP.STRINGS, [b"key\x00", b"\x00", b"", b"a\x00b", b"\x00lead", b"pad\x00\x00", "\u00fc\x00".encode(),
                                                                       b"an element much longer than the others"])]),
        ("low-bit-tensors", lambda: [_attr("w4", AP.TENSOR, _named_tensor(15, "w4")), _attr("f8", AP.TENSOR, _named_tensor(17, "f8", meta=[("q", "1")])),
                                     _attr("s", AP.TENSOR, _named_tensor(6, "strs", doc="strings"))]),
    ]


ATTR_LISTS = _attr_lists()
AP_ = onnx.AttributeProto
REF_ATTR_LISTS = ATTR_LISTS + [
    ("ref-attrs", lambda: [_attr("alpha", AP_.FLOAT, ref="alpha", doc="forwarded"), _attr("shape", AP_.INTS, ref="outer_shape"),
                           _attr("sub", AP_.GRAPH, ref="body_ref"), _attr("w", AP_.TENSOR, ref="weight")]),
    ("mixed-ref", lambda: [_attr("axis", AP_.INT, 1), _attr("beta", AP_.FLOAT, ref="beta")]),
]
# (attribute names without default, attribute_proto with default)
FUNC_ATTRS = [
    ([], []),
    (["alpha", "outer_shape"], []),
    (["beta"], [("float-int-string", 0)]),
    ([], [("tensor-tensors", 2)]),
    (["weight", "body_ref"], [("defaults", 4)]),
]
# node device configurations: (configuration_id, [sharding spec], pipeline_stage or None)
#   spec = (tensor-name selector, devices, index_to_device_group_map, sharded_dims)
#   sharded_dim = (axis, [(dim_value|dim_param|None, num_shards)])
NODE_DEVS = [
    [("c0", [("in", [0, 1], [], [(0, [(4, 2)])])], 1)],
    [("c0", [("out", [-1], [(0, [0, 1]), (1, [2, 3])], [(1, [("N", 2), (None, 1)]), (0, [])])], None), ("c1", [], 0)],
    [("dangling_cfg", [("in", [], [], [])], None)],
    [("c1", [("out", [3], [], [(2, [(8, 4), (6, 2)])]), ("in", [0], [(5, [])], [])], 7)],
    # one node carrying BOTH a configuration declared in model.configuration (c0 is declared by every MODEL_CFGS leaf)
    # and configurations that are not declared (dangling), in both orders, with / without sharding specs and stage
    [("dangling_first", [("in", [0, 1], [], [(0, [(4, 2)])])], 2), ("c0", [], None)],
    [("c0", [("out", [1], [(0, [0])], [(0, [("N", 2)])])], None), ("dangling_last", [], None)],
    [("dangling_a", [], None), ("c0", [("in", [0], [], [])], 3), ("dangling_b", [("out", [2, 3], [], [(1, [(None, 2)])])], 0)],
    [("c0", [], 0), ("dangling_only_stage", [], 5), ("c0", [("in", [], [], [])], None)],
]

CATALOGUE_SIZES = dict(
    tensor=len(TENSORS), type=len(TYPES), shape=len(SHAPES), doc=len(DOCS), meta=len(METAS), node_head=len(NODE_HEADS_V10),
    graph_head=len(GRAPH_HEADS), func_head=len(FUNC_HEADS_V10), model_head=len(MODEL_HEADS), opset=len(OPSETS), model_cfg=len(MODEL_CFGS),
    attrs=len(REF_ATTR_LISTS), func_attrs=len(FUNC_ATTRS), node_dev=len(NODE_DEVS),
)

IR_VERSIONS = {9: [3, 4, 5, 6, 7, 8, 9], 10: [10], 11: [11, 12, 13]}


# --------------------------------------------------------------------------------------------
# concretizer
# --------------------------------------------------------------------------------------------
# --------------------------------------------------------------------------------------------
# spelling of the value names: the specification treats names up to renaming (a, b, c); the
# concrete spelling rotates, and some spellings are shaped like the names the library generates
# itself for unnamed values and nodes (val_<n>, node_<op>_<n>)
# --------------------------------------------------------------------------------------------
SPELLINGS = [
    None,
    {"a": "val_0", "b": "val_1", "c": "val_2"},
    {"a": "val_1", "b": "val_0", "c": "v"},
    {"a": "x", "b": "val_0", "c": "node_Op_0"},
]
UNSPELL: dict = {}      # inverse of the spelling of the proto being judged (set by Concretizer.model)


def spelling_of(salt: int):
    return SPELLINGS[(salt // 5) % len(SPELLINGS)]


def _sp(table, name: str) -> str:
    if name in table:
        return table[name]
    if "/" in name:                       # value_info of a function value: "<domain>::<function>/<value>"
        head, tail = name.rsplit("/", 1)
        if tail in table:
            return head + "/" + table[tail]
    return name


def respell(msg, table) -> None:
    """Rename, in place and consistently, every field of the proto that holds the name of a value."""
    if not table:
        return
    kind = type(msg).__name__
    if kind in ("ValueInfoProto", "TensorProto"):
        if msg.name:
            msg.name = _sp(table, msg.name)
    if kind in ("NodeProto", "FunctionProto"):
        for fld in (msg.input, msg.output):
            new = [_sp(table, x) for x in fld]
            del fld[:]
            fld.extend(new)
    if kind in ("TensorAnnotation", "ShardingSpecProto"):
        if msg.tensor_name:
            msg.tensor_name = _sp(table, msg.tensor_name)
    if kind == "TensorAnnotation":
        for e in msg.quant_parameter_tensor_names:
            e.value = _sp(table, e.value)
    for fd, val in msg.ListFields():
        if fd.type != fd.TYPE_MESSAGE:
            continue
        if hasattr(val, "ListFields"):
            respell(val, table)
        else:                       # repeated composite field (map fields have scalar values here)
            for x in val:
                if hasattr(x, "ListFields"):
                    respell(x, table)


class Concretizer:
    """Renders compact explicit abstract protos.  One instance per enumerated proto (salt)."""

    def __init__(self, salt: int, irv_class: int, used: dict | None = None):
        self.salt = salt
        self.irv_class = irv_class
        self.ir_version = IR_VERSIONS[irv_class][salt % len(IR_VERSIONS[irv_class])]
        self.used = used if used is not None else {}

    # ---- leaf choice --------------------------------------------------------------------------
    def pick(self, kind: str, token: str, n: int) -> int:
        i = (zlib.crc32(token.encode()) + self.salt) % n
        self.used.setdefault(kind, set()).add(i)
        return i

    def tensor_index(self, token: str) -> int:
        return self.pick("tensor", token, len(TENSORS))

    # ---- carriers -----------------------------------------------------------------------------
    @staticmethod
    def _kinds(tokens):
        out = {}
        for t in tokens:
            if ">" in t:
                k = ">" + t.rsplit(">", 1)[1]
            else:
                k = t.rsplit(".", 1)[1]
            out.setdefault(k, []).append(t)
        return out

    def _add_meta(self, repeated, tokens):
        for t in tokens:
            for k, v in METAS[self.pick("meta", t, len(METAS))]:
                e = repeated.add()
                e.key, e.value = k, v

    def value_info(self, vi: onnx.ValueInfoProto, name: str, tokens) -> None:
        vi.name = name
        ks = self._kinds(tokens)
        shape = "noshape"
        for t in ks.get("sh", ()):
            shape = SHAPES[self.pick("shape", t, len(SHAPES))]
        for t in ks.get("ty", ()):
            vi.type.CopyFrom(make_type(TYPES[self.pick("type", t, len(TYPES))], shape))
        # information derived from an initializer tensor: Value(type=TensorType(dtype), shape=tensor.shape)
        for t in ks.get(">ty", ()):
            tensor = TENSORS[self.tensor_index(t.rsplit(">", 1)[0] + ".t")][1]()
            vi.type.tensor_type.elem_type = tensor.data_type
            if ks.get(">sh"):
                fill_shape(vi.type.tensor_type.shape, list(tensor.dims))
        for t in ks.get("doc", ()):
            vi.doc_string = DOCS[self.pick("doc", t, len(DOCS))]
        self._add_meta(vi.metadata_props, ks.get("meta", ()))

    def tensor(self, tp: onnx.TensorProto, name: str, tokens) -> None:
        ks = self._kinds(tokens)
        for t in ks.get("t", ()):
            tp.CopyFrom(TENSORS[self.tensor_index(t)][1]())
        tp.name = name
        for t in ks.get("tdoc", ()):
            tp.doc_string = DOCS[self.pick("doc", t, len(DOCS))]
        self._add_meta(tp.metadata_props, ks.get("tmeta", ()))

    def annotation(self, ta: onnx.TensorAnnotation, name: str, tokens) -> None:
        ta.tensor_name = name
        for t in tokens:
            i = self.pick("quant", t, 3)
            pairs = [[("SCALE_TENSOR", name + "_scale"), ("ZERO_POINT_TENSOR", name + "_zp")],
                     [("ZERO_POINT_TENSOR", "zp"), ("SCALE_TENSOR", "s")],
                     [("SCALE_TENSOR", "only_scale")]][i]
            for k, v in pairs:
                e = ta.quant_parameter_tensor_names.add()
                e.key, e.value = k, v

    def node(self, np_: onnx.NodeProto, ins, outs, tokens, subs, in_function: bool) -> None:
        ks = self._kinds(tokens)
        np_.input.extend(ins)
        np_.output.extend(outs)
        for t in ks.get("head", ()):
            heads = NODE_HEADS_V10 if self.ir_version >= 10 else NODE_HEADS
            op, dom, ov, nm = heads[self.pick("node_head", t, len(heads))]
            np_.op_type = op
            if dom is not None:
                np_.domain = dom
            if ov:
                np_.overload = ov
            if nm is not None:
                np_.name = nm
        for t in ks.get("doc", ()):
            np_.doc_string = DOCS[self.pick("doc", t, len(DOCS))]
        self._add_meta(np_.metadata_props, ks.get("meta", ()))
        graph_first = False
        for t in ks.get("attrs", ()):
            lists = REF_ATTR_LISTS if in_function else ATTR_LISTS
            i = self.pick("attrs", t, len(lists))
            graph_first = (zlib.crc32(t.encode()) + self.salt) % 3 == 0
            if not graph_first:
                np_.attribute.extend(lists[i][1]())
            self._graph_attrs(np_, subs, t)
            if graph_first:
                np_.attribute.extend(lists[i][1]())
        if not ks.get("attrs") and subs:
            self._graph_attrs(np_, subs, "noattrs")
        for t in ks.get("dev", ()):
            names_in = [x for x in ins if x] or [x for x in outs if x] or ["zz_unknown"]
            names_out = [x for x in outs if x] or names_in
            for cid, specs, stage in NODE_DEVS[self.pick("node_dev", t, len(NODE_DEVS))]:
                dc = np_.device_configurations.add()
                dc.configuration_id = cid
                if stage is not None:
                    dc.pipeline_stage = stage
                for sel, devices, groups, sdims in specs:
                    sp = dc.sharding_spec.add()
                    sp.tensor_name = (names_in if sel == "in" else names_out)[0]
                    sp.device.extend(devices)
                    for k, vs in groups:
                        e = sp.index_to_device_group_map.add()
                        e.key = k
                        e.value.extend(vs)
                    for axis, simples in sdims:
                        sd = sp.sharded_dim.add()
                        sd.axis = axis
                        for dim, shards in simples:
                            ss = sd.simple_sharding.add()
                            if isinstance(dim, int):
                                ss.dim_value = dim
                            elif isinstance(dim, str):
                                ss.dim_param = dim
                            ss.num_shards = shards

    def _graph_attrs(self, np_, subs, token):
        """Nested graphs become GRAPH attributes (or one GRAPHS attribute), in order."""
        if not subs:
            return
        AP = onnx.AttributeProto
        as_list = len(subs) > 1 and (zlib.crc32(token.encode()) + self.salt) % 2 == 0
        if as_list:
            a = np_.attribute.add()
            a.name = "branches"
            a.type = AP.GRAPHS
            a.doc_string = "nested graphs"
            for g in subs:
                a.graphs.add().CopyFrom(g)
        else:
            for i, g in enumerate(subs):
                a = np_.attribute.add()
                a.name = ["body", "else_branch", "g3", "g4"][i] if i < 4 else f"g{i}"
                a.type = AP.GRAPH
                a.g.CopyFrom(g)

    # ---- graphs -----------------------------------------------------------------------------
    def graph(self, E: dict, g: int, in_function: bool = False) -> onnx.GraphProto:
        eg = E["gs"][g - 1]
        gp = onnx.GraphProto()
        ks = self._kinds(eg["pay"])
        for t in ks.get("head", ()):
            nm = GRAPH_HEADS[self.pick("graph_head", t, len(GRAPH_HEADS))]
            if nm is not None:
                gp.name = nm
        for t in ks.get("doc", ()):
            gp.doc_string = DOCS[self.pick("doc", t, len(DOCS))]
        self._add_meta(gp.metadata_props, ks.get("meta", ()))
        for name, toks in eg["ins"]:
            self.value_info(gp.input.add(), name, toks)
        for name, toks in eg["inits"]:
            self.tensor(gp.initializer.add(), name, toks)
        for k, (ins, outs, toks) in enumerate(eg["nodes"], start=1):
            subs = [self.graph(E, h, in_function) for h in self.subs_of(E, g, k)]
            self.node(gp.node.add(), ins, outs, toks, subs, in_function)
        for name, toks in eg["outs"]:
            self.value_info(gp.output.add(), name, toks)
        for name, toks, fn in eg["vinfo"]:
            if fn:
                fname, fdom, _ = self.func_head(E, fn)
                name = f"{fdom}::{fname}/{name}"
            self.value_info(gp.value_info.add(), name, toks)
        for name, toks in eg["quant"]:
            self.annotation(gp.quantization_annotation.add(), name, toks)
        return gp

    @staticmethod
    def subs_of(E, g, k):
        return [h for h, x in enumerate(E["gs"], start=1) if x["kind"] == "sub" and x["par"] == g and x["pnode"] == k]

    def func_head(self, E, f):
        heads = FUNC_HEADS_V10 if self.ir_version >= 10 else FUNC_HEADS
        for t in E["gs"][f - 1]["pay"]:
            if t.endswith(".head"):
                return heads[self.pick("func_head", t, len(heads))]
        return ("f", "local", "")

    def function(self, E: dict, f: int) -> onnx.FunctionProto:
        eg = E["gs"][f - 1]
        fp = onnx.FunctionProto()
        ks = self._kinds(eg["pay"])
        if ks.get("head"):
            name, dom, ov = self.func_head(E, f)
            fp.name = name
            fp.domain = dom
            if ov:
                fp.overload = ov
        for t in ks.get("doc", ()):
            fp.doc_string = DOCS[self.pick("doc", t, len(DOCS))]
        self._add_meta(fp.metadata_props, ks.get("meta", ()))
        for t in ks.get("opset", ()):
            for d, v in OPSETS[self.pick("opset", t, len(OPSETS))]:
                fp.opset_import.add(domain=d, version=v)
        for t in ks.get("attrs", ()):
            names, protos = FUNC_ATTRS[self.pick("func_attrs", t, len(FUNC_ATTRS))]
            fp.attribute.extend(names)
            for _, idx in protos:
                fp.attribute_proto.extend(ATTR_LISTS[idx][1]())
        fp.input.extend(name for name, _ in eg["ins"])
        for k, (ins, outs, toks) in enumerate(eg["nodes"], start=1):
            subs = [self.graph(E, h, True) for h in self.subs_of(E, f, k)]
            self.node(fp.node.add(), ins, outs, toks, subs, True)
        fp.output.extend(name for name, _ in eg["outs"])
        for name, toks, _fn in eg["vinfo"]:
            self.value_info(fp.value_info.add(), name, toks)
        return fp

    def model(self, E: dict) -> onnx.ModelProto:
        mp = onnx.ModelProto()
        mp.ir_version = self.ir_version
        ks = self._kinds(E["mpay"])
        for t in ks.get("head", ()):
            for k, v in MODEL_HEADS[self.pick("model_head", t, len(MODEL_HEADS))].items():
                setattr(mp, k, v)
        for t in ks.get("doc", ()):
            mp.doc_string = DOCS[self.pick("doc", t, len(DOCS))]
        self._add_meta(mp.metadata_props, ks.get("meta", ()))
        for t in ks.get("opset", ()):
            for d, v in OPSETS[self.pick("opset", t, len(OPSETS))]:
                mp.opset_import.add(domain=d, version=v)
        for t in ks.get("cfg", ()):
            for name, n, devs in MODEL_CFGS[self.pick("model_cfg", t, len(MODEL_CFGS))]:
                c = mp.configuration.add()
                c.name = name
                c.num_devices = n
                c.device.extend(devs)
        mp.graph.CopyFrom(self.graph(E, 1))
        for f, eg in enumerate(E["gs"], start=1):
            if eg["kind"] == "func":
                mp.functions.add().CopyFrom(self.function(E, f))
        table = spelling_of(self.salt)
        respell(mp, table)
        UNSPELL.clear()
        UNSPELL.update({v: k for k, v in (table or {}).items()})
        return mp


# --------------------------------------------------------------------------------------------
# implicit proto (the TLC state) -> compact explicit form; mirrors SerdeMC!Explicit/Compact.
# In the "valid" mode TLC emits the explicit form itself and the two are compared (machinery
# cross-check); in the "any" mode only the implicit form is emitted (volume).
# --------------------------------------------------------------------------------------------
def explicit_of(p: dict) -> dict:
    irv, dev = p["irv"], p["dev"]

    def info(pg, g, nm):
        if nm in pg["untyped"]:
            return []
        if nm in pg.get("doconly", ()):
            return [f"g{g}:{nm}.{k}" for k in ("doc", "meta")]
        return [f"g{g}:{nm}.{k}" for k in ("ty", "sh", "doc", "meta")]

    gs = []
    for g, pg in enumerate(p["gs"], start=1):
        is_f = pg["kind"] == "func"
        pay = [f"g{g}.head", f"g{g}.doc", f"g{g}.meta"] + ([f"g{g}.opset", f"g{g}.attrs"] if is_f else [])
        own = [] if (is_f and irv < 10) else sorted(pg["vinfo"])
        vinfo = [[nm, info(pg, g, nm), 0] for nm in own]
        if g == 1 and irv < 10:
            for f, fg in enumerate(p["gs"], start=1):
                if fg["kind"] == "func":
                    vinfo += [[nm, info(fg, f, nm), f] for nm in sorted(fg["vinfo"])]
        gs.append(
            dict(
                kind=pg["kind"], par=pg["par"], pnode=pg["pnode"], pay=pay,
                ins=[[nm, [] if is_f else info(pg, g, nm)] for nm in pg["ins"]],
                inits=[[nm, [f"g{g}.i{j}.t", f"g{g}.i{j}.tdoc", f"g{g}.i{j}.tmeta"]] for j, nm in enumerate(pg["inits"], start=1)],
                nodes=[[n["ins"], n["outs"], [f"g{g}.n{k}.{x}" for x in ("head", "doc", "meta", "attrs")] + ([f"g{g}.n{k}.dev"] if dev else [])]
                       for k, n in enumerate(pg["nodes"], start=1)],
                outs=[[nm, [] if is_f else info(pg, g, nm)] for nm in pg["outs"]],
                vinfo=vinfo,
                quant=[[nm, [f"g{g}:{nm}.q"]] for nm in sorted(pg["quant"])],
            )
        )
    return dict(irv=irv, mpay=["m.head", "m.doc", "m.meta", "m.opset"] + (["m.cfg"] if dev else []), gs=gs)


def same_explicit(a: dict, b: dict) -> bool:
    """Equality of two compact explicit protos up to the order inside token lists and of the
    value-info / annotation entries (TLC's SetToSeq order is arbitrary)."""

    def norm(e):
        return dict(
            irv=e["irv"], mpay=sorted(e["mpay"]),
            gs=[dict(kind=g["kind"], par=g["par"], pnode=g["pnode"], pay=sorted(g["pay"]),
                     ins=[[n, sorted(t)] for n, t in g["ins"]], inits=[[n, sorted(t)] for n, t in g["inits"]],
                     nodes=[[list(i), list(o), sorted(t)] for i, o, t in g["nodes"]], outs=[[n, sorted(t)] for n, t in g["outs"]],
                     vinfo=sorted([n, sorted(t), f] for n, t, f in g["vinfo"]), quant=sorted([n, sorted(t)] for n, t in g["quant"]))
                for g in e["gs"]])

    return norm(a) == norm(b)
