"""Binding of specs/sym/SymDim.tla to onnx_ir.SymbolicDim / Shape / the expression parser / serde (C16).

TLC enumerates expression trees and prints, for each, the tree, its token sequences (Show in three
parenthesisation modes) and its exact value under every binding (``[num, den]``; ``den == 0``: undefined,
the binding is skipped).  This module builds the same tree with the REAL overloaded operators and
compares.  Every expected value comes from TLC; the Python code below only drives the library,
compares, and classifies failures for readable signatures.

Rule applied to one evaluation (``judge``): the specification's value is ``n/d`` in lowest terms.
  * ``d == 1``: the library must return the Python ``int`` ``n``;
  * ``d > 1``: the library must NOT return an int or float; it must return a ``SymbolicDim`` (that is what
    ``evaluate`` documents for "not an integer") whose text is the exact fraction ``n/d`` - no float, no
    rounding - and evaluating that result again (no bindings) must give the same thing.
"""

from __future__ import annotations

import fractions
import math
import random
import re
import signal
import time

UN = ("neg", "floor", "ceil", "trunc", "sqrt")
BIN = ("add", "sub", "mul", "floordiv", "truediv", "mod", "min", "max", "pow")
CHECKS = ("evaluate", "partial", "simplify", "reparse", "serde", "grammar")

_TOKEN_RE = re.compile(r"\s*(\d+|[A-Za-z_][A-Za-z0-9_.]*|//|\*\*|[-+*/%(),])")


# ---------------------------------------------------------------------------------------------
# small helpers
# ---------------------------------------------------------------------------------------------
def lex(text: str):
    """Token sequence of a printed dimension, in the token alphabet of the specification; None if a
    character outside it occurs (e.g. a float literal)."""
    out, pos = [], 0
    text = text.rstrip()
    while pos < len(text):
        m = _TOKEN_RE.match(text, pos)
        if not m:
            return None
        out.append(m.group(1))
        pos = m.end()
    return out


def render(toks, style: str, rng: random.Random | None = None) -> str:
    """Token sequence -> string.  Whitespace between tokens is insignificant in the grammar."""
    if style == "tight":
        return "".join(toks)
    if style == "spaced":
        return " ".join(toks)
    if style == "pretty":
        out = []
        for i, tk in enumerate(toks):
            prev = toks[i - 1] if i else None
            binary = tk in ("+", "-", "*", "/", "//", "%", "**") and prev is not None and prev not in (
                "+", "-", "*", "/", "//", "%", "**", "(", ",")
            if binary:
                out.append(" " + tk + " ")
            elif tk == ",":
                out.append(", ")
            else:
                out.append(tk)
        return "".join(out)
    if style == "ragged":
        assert rng is not None
        ws = ["", " ", "  ", "\t", " \t "]
        return rng.choice(ws) + "".join(tk + rng.choice(ws) for tk in toks)
    raise ValueError(style)


def tree_str(t) -> str:
    op = t["op"]
    if op == "sym":
        return t["s"]
    if op == "int":
        return str(t["k"])
    if "b" in t:
        return f"{op}({tree_str(t['a'])}, {tree_str(t['b'])})"
    return f"{op}({tree_str(t['a'])})"


def tree_ops(t, acc=None):
    acc = set() if acc is None else acc
    acc.add(t["op"])
    for k in ("a", "b"):
        if k in t:
            tree_ops(t[k], acc)
    return acc


def tree_size(t) -> int:
    return 1 + sum(tree_size(t[k]) for k in ("a", "b") if k in t)


def shape_key(t) -> str:
    """Feature combination of a tree: root operator with the operators of its operands."""
    op = t["op"]
    if op in ("sym", "int"):
        return op
    kids = [t[k]["op"] for k in ("a", "b") if k in t]
    return op + "(" + ",".join(kids) + ")"


class Blocked(Exception):
    """The tree cannot be built through the public API for a reason that is itself recorded."""

    def __init__(self, why, msg):
        super().__init__(msg)
        self.why = why


# ---------------------------------------------------------------------------------------------
# building a tree with the real operators
# ---------------------------------------------------------------------------------------------
def _same(x, y, ir) -> bool:
    if isinstance(x, ir.SymbolicDim) and isinstance(y, ir.SymbolicDim):
        return x.value == y.value
    return type(x) is type(y) and x == y


def build(t, ir, stats, envs=()):
    """The tree built with ir.SymbolicDim's overloaded operators.  Integer leaves stay Python ints so
    that int-on-the-left reaches the reflected methods; where Python arithmetic would not involve the
    library at all (both operands ints) or the class has no reflected method (int // dim, int % dim) the
    integer is wrapped as the constant dimension SymbolicDim("k")."""

    def wrap(x):
        if isinstance(x, int) and not isinstance(x, ir.SymbolicDim):
            stats["wrapped-const"] = stats.get("wrapped-const", 0) + 1
            return ir.SymbolicDim(str(x))
        return x

    op = t["op"]
    if op == "sym":
        return ir.SymbolicDim(t["s"])
    if op == "int":
        return int(t["k"])
    if op in UN:
        a = wrap(build(t["a"], ir, stats, envs))
        if op == "neg":
            return -a
        if op == "floor":
            return math.floor(a)
        if op == "ceil":
            return math.ceil(a)
        if op == "trunc":
            return math.trunc(a)
        raise Blocked("no-operator", f"{op} has no operator on SymbolicDim")
    a = build(t["a"], ir, stats, envs)
    b = build(t["b"], ir, stats, envs)
    if isinstance(a, int) and isinstance(b, int):
        a = wrap(a)
    key = f"{op}:{'int' if isinstance(a, int) else 'dim'},{'int' if isinstance(b, int) else 'dim'}"
    stats[key] = stats.get(key, 0) + 1
    if op == "add":
        return a + b
    if op == "sub":
        return a - b
    if op == "mul":
        return a * b
    if op == "truediv":
        return a / b
    if op in ("floordiv", "mod"):
        try:
            return a // b if op == "floordiv" else a % b
        except TypeError:
            if not isinstance(a, int):
                raise
            # int // dim, int % dim: the class has no __rfloordiv__ / __rmod__ (not demanded by C16: a
            # TypeError is not a wrong value); recorded, then built from the constant dimension
            stats[f"unsupported-reflected:{op}"] = stats.get(f"unsupported-reflected:{op}", 0) + 1
            a = wrap(a)
            return a // b if op == "floordiv" else a % b
    if op in ("min", "max"):
        try:
            r = min(a, b) if op == "min" else max(a, b)
            if isinstance(r, ir.SymbolicDim):
                stats[f"builtin-{op}"] = stats.get(f"builtin-{op}", 0) + 1
                return r
        except TypeError:
            pass
        # the builtins need an ordering the class does not define: min/max are supported textually
        stats[f"textual-{op}"] = stats.get(f"textual-{op}", 0) + 1
        # the operand texts are the library's own printed forms; if one of them does not read back as the operand
        # (that defect is reported on the operand's own tree) the textual construction is not the tree
        for x in (a, b):
            if isinstance(x, ir.SymbolicDim):
                try:
                    x2 = ir.SymbolicDim(x.value)
                    for env in envs:
                        try:
                            want = x.evaluate(env)
                        except Exception:  # noqa: BLE001
                            continue
                        if not _same(x2.evaluate(env), want, ir):
                            raise Blocked("operand-text-misparsed", f"{op}({a}, {b}): {x.value!r} reads back differently")
                except Blocked:
                    raise
                except Exception as e:  # noqa: BLE001
                    raise Blocked("operand-text-rejected", f"{op}({a}, {b}): {e}") from e
        d = ir.SymbolicDim(f"{op}({a}, {b})")
        try:
            d.free_symbols()  # forces the parse
        except ValueError as e:
            raise Blocked("operand-text-rejected", f"{op}({a}, {b}): {e}") from e
        return d
    raise Blocked("no-operator", f"{op} has no operator on SymbolicDim")


def build_root(t, ir, stats, envs=()):
    d = build(t, ir, stats, envs)
    if isinstance(d, int) and not isinstance(d, ir.SymbolicDim):
        d = ir.SymbolicDim(str(d))
    return d


# ---------------------------------------------------------------------------------------------
# judging one evaluation
# ---------------------------------------------------------------------------------------------
def _as_fraction(dim):
    txt = dim.value
    try:
        return fractions.Fraction(txt.replace(" ", "")) if txt is not None else None
    except (ValueError, ZeroDivisionError):
        return None


def judge(result, q, ir):
    """None if `result` is what the specification's value q = [n, d] demands, else (kind, shown).
    kind: wrong-value (a different number), wrong-type (the right number in the wrong representation, or
    something that is not a number at all)."""
    n, d = q
    want = fractions.Fraction(n, d)
    if type(result) is int:
        return None if (d == 1 and result == n) else ("wrong-value", repr(result))
    if isinstance(result, ir.SymbolicDim):
        f = _as_fraction(result)
        if f is None:
            return ("wrong-type", f"SymbolicDim({result.value!r}) for the number {_expected(q)}")
        if f != want:
            return ("wrong-value", f"SymbolicDim({result.value!r})")
        if d == 1:
            return ("wrong-type", f"SymbolicDim({result.value!r}) for the integer {n}")
        again = result.evaluate({})
        if not (isinstance(again, ir.SymbolicDim) and again.value == result.value):
            return ("wrong-value", f"SymbolicDim({result.value!r}) re-evaluates to {again!r}")
        return None
    return ("wrong-type", f"{result!r} for the number {_expected(q)}")


def _expected(q) -> str:
    return str(q[0]) if q[1] == 1 else f"{q[0]}/{q[1]}"


class _Timeout(Exception):
    pass


def _alarm(_sig, _frm):
    raise _Timeout()


# ---------------------------------------------------------------------------------------------
# one tree
# ---------------------------------------------------------------------------------------------
def check_tree(rec, envs, ir, opts) -> dict:
    """All checks of the operator part on one emitted tree.  Returns failures (not yet signatures)."""
    t, vals = rec["t"], rec["vals"]
    stats: dict = {}
    fails: list = []
    out = dict(fails=fails, stats=stats, text=None, evals=0, blocked=None, skipped_undef=0, nonint=0,
               simp_text=None, simplify_s=0.0, residual_texts=0)
    defined = [i for i, q in enumerate(vals) if q[1] != 0]
    out["skipped_undef"] = len(vals) - len(defined)
    out["nonint"] = sum(1 for i in defined if vals[i][1] != 1)
    syms = sorted({k for e in envs for k in e})

    def fail(check, kind, i=None, got=None, text=None, exc=None, extra=None):
        fails.append(dict(check=check, kind=kind, env=envs[i] if i is not None else None,
                          expected=_expected(vals[i]) if i is not None else None, got=got, text=text,
                          exc=exc, extra=extra))

    try:
        d = build_root(t, ir, stats, envs)
    except Blocked as e:
        out["blocked"] = dict(why=e.why, msg=str(e))
        return out
    except ZeroDivisionError:
        if defined:
            fail("evaluate", "exception", defined[0], exc="ZeroDivisionError while building")
        return out
    except Exception as e:  # noqa: BLE001
        if defined:
            fail("evaluate", "exception", defined[0], exc=f"{type(e).__name__} while building: {e}")
        else:
            out["blocked"] = dict(why="undefined-everywhere", msg=f"{type(e).__name__}: {e}")
        return out
    text = d.value
    out["text"] = text
    if not defined:
        return out

    def run(check, f, i, text_=None):
        """f() -> result; judged against vals[i]."""
        out["evals"] += 1
        try:
            r = f()
        except _Timeout:
            raise
        except Exception as e:  # noqa: BLE001
            fail(check, "exception", i, text=text_, exc=f"{type(e).__name__}: {e}")
            return False
        j = judge(r, vals[i], ir)
        if j is not None:
            fail(check, j[0], i, got=j[1], text=text_)
            return False
        return True

    # (1) evaluate under every complete binding
    for i in defined:
        run("evaluate", lambda: d.evaluate(envs[i]), i)

    # free symbols: never more than the tree has
    try:
        fs = set(d.free_symbols())
        if not fs <= set(rec["fs"]):
            fail("evaluate", "free-symbols", defined[0], got=sorted(fs), extra=f"tree has {rec['fs']}")
    except Exception as e:  # noqa: BLE001
        fail("evaluate", "exception", defined[0], exc=f"free_symbols: {type(e).__name__}: {e}")

    # (2) partial binding, then the rest (both orders); the residual's own text must re-parse as well
    stage1: dict = {}
    reparsed: set = set()
    for s in syms:
        rest = [x for x in syms if x != s]
        for i in defined:
            key = (s, envs[i][s])
            if key not in stage1:
                try:
                    stage1[key] = ("ok", d.evaluate({s: envs[i][s]}))
                except Exception as e:  # noqa: BLE001
                    stage1[key] = ("exc", f"{type(e).__name__}: {e}")
            st, r1 = stage1[key]
            if st == "exc":
                fail("partial", "exception", i, exc=f"evaluate({{{s!r}: {envs[i][s]}}}): {r1}")
                continue
            restb = {x: envs[i][x] for x in rest}
            if isinstance(r1, ir.SymbolicDim):
                run("partial", lambda: r1.evaluate(restb), i, text_=f"residual {r1.value!r} after {s}={envs[i][s]}")
                if r1.value is not None and (opts.get("residual_all") or key not in reparsed):
                    reparsed.add(key)
                    out["residual_texts"] += 1
                    run("reparse", lambda: ir.SymbolicDim(r1.value).evaluate(restb), i, text_=r1.value)
            else:
                run("partial", lambda: r1, i, text_=f"evaluate({{{s!r}: {envs[i][s]}}}) returned {r1!r}")

    # (3) simplify preserves every value (bounded: SymPy's simplify has no cost guarantee)
    if opts.get("simplify", True):
        t0 = time.time()
        sd = None
        old = signal.signal(signal.SIGALRM, _alarm)
        signal.setitimer(signal.ITIMER_REAL, opts.get("simplify_timeout", 20.0))
        try:
            sd = d.simplify()
            signal.setitimer(signal.ITIMER_REAL, 0)
        except _Timeout:
            stats["simplify-timeout"] = 1
        except Exception as e:  # noqa: BLE001
            signal.setitimer(signal.ITIMER_REAL, 0)
            fail("simplify", "exception", defined[0], exc=f"{type(e).__name__}: {e}")
        finally:
            signal.setitimer(signal.ITIMER_REAL, 0)
            signal.signal(signal.SIGALRM, old)
        out["simplify_s"] = time.time() - t0
        if sd is not None:
            out["simp_text"] = sd.value
            for i in defined:
                run("simplify", lambda: sd.evaluate(envs[i]), i, text_=f"simplify() = {sd.value!r}")
            if sd.value != text and sd.value is not None:
                try:
                    sd2 = ir.SymbolicDim(sd.value)
                    sd2.free_symbols()
                except Exception as e:  # noqa: BLE001
                    fail("reparse", "rejected", defined[0], text=sd.value, exc=f"{type(e).__name__}: {e}")
                else:
                    for i in defined:
                        run("reparse", lambda: sd2.evaluate(envs[i]), i, text_=sd.value)

    # (4) the printed form re-parses (this is what a saved model stores)
    reparse_ok = True
    try:
        d2 = ir.SymbolicDim(text)
        d2.free_symbols()
    except Exception as e:  # noqa: BLE001
        reparse_ok = False
        fail("reparse", "rejected", defined[0], text=text, exc=f"{type(e).__name__}: {e}")
    else:
        for i in defined:
            reparse_ok &= run("reparse", lambda: d2.evaluate(envs[i]), i, text_=text)

    # (5) ... also through serde: Shape -> TypeProto.dim_param -> bytes -> Shape -> Shape.evaluate
    #     (verdict only when the direct re-parse agreed: same text, same parser)
    try:
        import onnx

        v = ir.Value(name="x", type=ir.TensorType(ir.DataType.FLOAT), shape=ir.Shape([d, 7, d]))
        blob = ir.serde.serialize_value(v).SerializeToString()
        vp = onnx.ValueInfoProto.FromString(blob)
        if vp.type.tensor_type.shape.dim[0].dim_param != text:
            fail("serde", "dim-param-text", defined[0], text=text, got=vp.type.tensor_type.shape.dim[0].dim_param)
        v2 = ir.serde.deserialize_value_info_proto(vp, None)
        shp = v2.shape
        if reparse_ok:
            for i in defined:
                def f():
                    ev = shp.evaluate(envs[i])
                    if ev[1] != 7 or len(ev) != 3:
                        raise AssertionError(f"static dimension changed: {ev}")
                    a, c = ev[0], ev[2]
                    if type(a) is not type(c) or a != c:
                        raise AssertionError(f"the two copies of the dimension differ: {ev}")
                    return a
                run("serde", f, i, text_=text)
            sshp = ir.Shape([d, 7]).evaluate(envs[defined[0]])
            j = judge(sshp[0], vals[defined[0]], ir)
            if j is not None and not any(x["check"] == "evaluate" for x in fails):
                fail("serde", j[0], defined[0], got=j[1], text="Shape.evaluate")
    except Exception as e:  # noqa: BLE001
        if reparse_ok:
            fail("serde", "exception", defined[0], text=text, exc=f"{type(e).__name__}: {e}")
    return out


# ---------------------------------------------------------------------------------------------
# one text of the grammar
# ---------------------------------------------------------------------------------------------
def check_text(text, mvals, envs, ir):
    """ir.SymbolicDim(text).evaluate(b) against the specification's Meaning, for every binding."""
    fails, evals = [], 0
    defined = [i for i, q in enumerate(mvals) if q[1] != 0]
    if not defined:
        return fails, 0
    try:
        d = ir.SymbolicDim(text)
        d.free_symbols()
    except Exception as e:  # noqa: BLE001
        fails.append(dict(check="grammar", kind="rejected", env=None, expected=None, got=None, text=text,
                          exc=f"{type(e).__name__}: {e}"))
        return fails, 1
    for i in defined:
        evals += 1
        try:
            r = d.evaluate(envs[i])
        except Exception as e:  # noqa: BLE001
            fails.append(dict(check="grammar", kind="exception", env=envs[i], expected=_expected(mvals[i]),
                              got=None, text=text, exc=f"{type(e).__name__}: {e}"))
            continue
        j = judge(r, mvals[i], ir)
        if j is not None:
            fails.append(dict(check="grammar", kind=j[0], env=envs[i], expected=_expected(mvals[i]), got=j[1],
                              text=text, exc=None))
    return fails, evals


# ---------------------------------------------------------------------------------------------
# classification (signatures) - Python only decides HOW a failure is named, never WHETHER it is one
# ---------------------------------------------------------------------------------------------
_PREFIX_CTX = {"+", "-", "*", "/", "//", "%", "**", "(", ","}


def _primary_end(toks, j):
    """index after the primary starting at j (NUMBER | IDENT | IDENT(...) | (...)), or None."""
    if j >= len(toks):
        return None
    tk = toks[j]
    if tk == "(" or (j + 1 < len(toks) and toks[j + 1] == "(" and re.match(r"[A-Za-z_]", tk)):
        k = j if tk == "(" else j + 1
        depth = 0
        while k < len(toks):
            if toks[k] == "(":
                depth += 1
            elif toks[k] == ")":
                depth -= 1
                if depth == 0:
                    return k + 1
            k += 1
        return None
    if re.match(r"[A-Za-z_0-9]", tk):
        return j + 1
    return None


def fix_neg_pow(toks):
    """If a unary minus is applied directly to a power (-X**Y...), the same tokens with the power
    parenthesised: -(X**Y...).  None if the pattern does not occur."""
    toks = list(toks)
    changed = False
    i = 0
    while i < len(toks):
        if toks[i] == "-" and (i == 0 or toks[i - 1] in _PREFIX_CTX):
            j = i + 1
            e = _primary_end(toks, j)
            if e is not None and e < len(toks) and toks[e] == "**":
                # extent of the power chain: primary (** [-]* primary)*
                k = e
                while k < len(toks) and toks[k] == "**":
                    k += 1
                    while k < len(toks) and toks[k] == "-":
                        k += 1
                    k = _primary_end(toks, k)
                    if k is None:
                        break
                if k is not None:
                    toks[j:k] = ["("] + toks[j:k] + [")"]
                    changed = True
                    i = j
        i += 1
    return toks if changed else None


def paren_text(t) -> str:
    """Fully parenthesised text of a tree in the documented grammar (classification only)."""
    op = t["op"]
    if op == "sym":
        return t["s"]
    if op == "int":
        return str(t["k"])
    a = paren_text(t["a"])
    if op == "neg":
        return f"(-{a})"
    if op in ("floor", "sqrt"):
        return f"{op}({a})"
    if op == "ceil":
        return f"(-floor((-{a})))"
    if op == "trunc":
        return f"(max(floor({a}), 0) + min((-floor((-{a}))), 0))"
    b = paren_text(t["b"])
    if op in ("min", "max"):
        return f"{op}({a}, {b})"
    sym = {"add": "+", "sub": "-", "mul": "*", "truediv": "/", "floordiv": "//", "mod": "%", "pow": "**"}[op]
    return f"({a} {sym} {b})"


def _text_fails(text, t, envs, ir) -> bool:
    try:
        d = ir.SymbolicDim(text)
        for env in envs:
            q = py_eval(t, env)
            if q is not None and judge(d.evaluate(env), [q.numerator, q.denominator], ir) is not None:
                return True
    except Exception:  # noqa: BLE001
        return True
    return False


def localise_text(t, envs, ir):
    for k in ("a", "b"):
        c = t.get(k)
        if isinstance(c, dict) and c["op"] not in ("sym", "int") and _text_fails(paren_text(c), c, envs, ir):
            return localise_text(c, envs, ir)
    return t


def has_symbolic_exponent(t) -> bool:
    if t["op"] == "pow" and has_syms(t["b"]):
        return True
    return any(has_symbolic_exponent(t[k]) for k in ("a", "b") if k in t)


def classify_grammar(f, t, envs, ir, expected_by_env) -> str:
    """Signature of a failure of the grammar part (t: the tree the string means according to TLC)."""
    kind = f["kind"]
    if kind == "rejected":
        return classify(f, t["op"], ir, expected_by_env)
    sig = classify(f, t["op"], ir, expected_by_env)
    if sig.endswith(":unary-minus-power"):
        return sig
    if not _text_fails(paren_text(t), t, envs, ir):
        return f"C16:grammar:{kind}:precedence:{t['op']}"
    sub = localise_text(t, envs, ir)
    return (f"C16:grammar:{kind}:{sub['op']}" + (":symbolic-exponent" if has_symbolic_exponent(sub) else "")
            + (":nested-mod" if sub["op"] == "mod" and "mod" in tree_ops(sub["a"]) else ""))


def classify(f, root_op, ir, expected_by_env=None, nested_mod=False) -> str:
    """Structural signature of a failure."""
    check, kind = f["check"], f["kind"]
    if kind in ("rejected",) or (kind == "exception" and f.get("exc", "").startswith("ValueError: Unknown function")):
        m = re.search(r"Unknown function '([^']+)'", f.get("exc") or "")
        if m:
            return f"C16:{check}:rejected:unknown-function:{m.group(1)}"
        return f"C16:{check}:rejected:{(f.get('exc') or 'error').split(':')[0]}"
    if kind in ("wrong-value", "wrong-type") and check in ("reparse", "serde", "grammar") and f.get("text") and expected_by_env:
        toks = lex(f["text"])
        fixed = fix_neg_pow(toks) if toks else None
        if fixed is not None:
            try:
                d = ir.SymbolicDim("".join(fixed))
                if all(judge(d.evaluate(env), q, ir) is None for env, q in expected_by_env):
                    return f"C16:{check}:wrong-value:unary-minus-power"
            except Exception:  # noqa: BLE001
                pass
    if kind == "exception":
        return f"C16:{check}:exception:{(f.get('exc') or 'error').split(':')[0]}:{root_op}"
    return f"C16:{check}:{kind}:{root_op}" + (":nested-mod" if nested_mod else "")


def py_eval(t, env):
    """Exact value of a tree (Fraction) or None if undefined.  ONLY used to localise a failure that the
    specification's values already established at the root (which sub-tree is the smallest that fails)."""
    F = fractions.Fraction
    op = t["op"]
    if op == "sym":
        return F(env[t["s"]])
    if op == "int":
        return F(t["k"])
    a = py_eval(t["a"], env)
    if a is None:
        return None
    if op == "neg":
        return -a
    if op == "floor":
        return F(math.floor(a))
    if op == "ceil":
        return F(math.ceil(a))
    if op == "trunc":
        return F(math.trunc(a))
    if op == "sqrt":
        if a.denominator != 1 or a < 0 or math.isqrt(a.numerator) ** 2 != a.numerator:
            return None
        return F(math.isqrt(a.numerator))
    b = py_eval(t["b"], env)
    if b is None:
        return None
    if op == "add":
        return a + b
    if op == "sub":
        return a - b
    if op == "mul":
        return a * b
    if op == "min":
        return min(a, b)
    if op == "max":
        return max(a, b)
    if op == "pow":
        if b.denominator != 1 or abs(b) > 64 or (a == 0 and b < 0):
            return None
        return a ** int(b)
    if b == 0:
        return None
    if op == "truediv":
        return a / b
    if op == "floordiv":
        return F(math.floor(a / b))
    if op == "mod":
        return a - b * math.floor(a / b)
    return None


def localise(t, envs, ir):
    """Smallest sub-tree whose evaluate() already disagrees (classification only)."""
    for k in ("a", "b"):
        c = t.get(k)
        if not isinstance(c, dict) or c["op"] in ("sym", "int"):
            continue
        try:
            d = build_root(c, ir, {}, envs)
        except Exception:  # noqa: BLE001
            continue
        for env in envs:
            q = py_eval(c, env)
            if q is None:
                continue
            try:
                bad = judge(d.evaluate(env), [q.numerator, q.denominator], ir) is not None
            except Exception:  # noqa: BLE001
                bad = True
            if bad:
                return localise(c, envs, ir)
    return t


def tags(t) -> str:
    """structural qualifiers of a failing (sub-)tree used in signatures"""
    out = ""
    if t["op"] == "mod" and "mod" in tree_ops(t["a"]):
        out += ":nested-mod"
    if not has_syms(t):
        out += ":closed"
    return out


def has_syms(t) -> bool:
    return t["op"] == "sym" or any(has_syms(t[k]) for k in ("a", "b") if k in t)


# ---------------------------------------------------------------------------------------------
# pool worker
# ---------------------------------------------------------------------------------------------
def run_chunk(task) -> dict:
    import onnx_ir as ir

    envs = task["envs"]
    opts = task.get("opts", {})
    rng = random.Random(task.get("seed", 0))
    styles = task.get("styles", ["tight"])
    res = dict(trees=0, evals=0, texts=0, text_evals=0, viol={}, stats={}, blocked={}, printed=[], keys={},
               skipped_undef=0, nonint=0, simplify_s=0.0, simplify_max=0.0, residual_texts=0, samples=[],
               wall=0.0, undefined_everywhere=0)
    t00 = time.process_time()

    def add_violation(sig, detail):
        cur = res["viol"].get(sig)
        if cur is None:
            res["viol"][sig] = dict(detail, count=1)
        else:
            cur["count"] += 1
            if detail["size"] < cur["size"] or (detail["size"] == cur["size"] and str(detail["case"]) < str(cur["case"])):
                detail["count"] = cur["count"]
                res["viol"][sig] = detail

    for rec in task["recs"]:
        kind = rec["k"]
        t = rec["t"]
        root = t["op"]
        vals = rec["vals"]
        exp_all = [(envs[i], q) for i, q in enumerate(vals) if q[1] != 0]
        if kind == "tree" and task.get("operators", True):
            o = check_tree(rec, envs, ir, opts)
            res["trees"] += 1
            res["evals"] += o["evals"]
            res["skipped_undef"] += o["skipped_undef"]
            res["nonint"] += o["nonint"]
            res["simplify_s"] += o["simplify_s"]
            res["simplify_max"] = max(res["simplify_max"], o["simplify_s"])
            res["residual_texts"] += o["residual_texts"]
            if not exp_all:
                res["undefined_everywhere"] += 1
            for k, n in o["stats"].items():
                res["stats"][k] = res["stats"].get(k, 0) + n
            if o["blocked"]:
                w = o["blocked"]["why"]
                res["blocked"][w] = res["blocked"].get(w, 0) + 1
                res["blocked"].setdefault("sample:" + w, dict(tree=tree_str(t), msg=o["blocked"]["msg"]))
            if o["text"] is not None and exp_all:
                res["printed"].append(dict(id=rec["id"], text=o["text"]))
            key = shape_key(t) + ("|undef" if o["skipped_undef"] else "") + ("|frac" if o["nonint"] else "")
            res["keys"][key] = res["keys"].get(key, 0) + 1
            if len(res["samples"]) < 1 and rec.get("d", 0) >= 2 and o["text"] and o["nonint"] and has_syms(t):
                res["samples"].append(dict(tree=tree_str(t), printed=o["text"], simplified=o["simp_text"],
                                           values=[_expected(q) if q[1] else "undef" for q in vals]))
            seen = set()
            build_wrong = any(f["check"] == "evaluate" for f in o["fails"])
            where = None
            for f in o["fails"]:
                if build_wrong and f["check"] != "evaluate":
                    # the dimension itself is wrong: what is derived from it fails as a consequence
                    res["consequential"] = res.get("consequential", 0) + 1
                    continue
                if f["check"] == "evaluate" and f["kind"] in ("wrong-value", "wrong-type", "exception"):
                    if where is None:
                        where = localise(t, envs, ir)
                    exc = (f.get("exc") or "").split(" ")[0].split(":")[0]
                    sig = (f"C16:evaluate:{f['kind']}:" + (exc + ":" if f["kind"] == "exception" and exc else "") + where["op"]
                           + tags(where))
                    if sig in seen:
                        continue
                    seen.add(sig)
                    add_violation(sig, dict(
                        size=tree_size(t), case=dict(kind="tree", t=t, vals=vals, envs=envs), tree=tree_str(t), printed=o["text"],
                        smallest_failing_subtree=tree_str(where),
                        failure={k: v for k, v in f.items() if v is not None},
                        message=_message(f, tree_str(t), o["text"]) + f" [smallest failing sub-tree: {tree_str(where)}]"))
                    continue
                exp = exp_all
                if f["check"] == "reparse" and f.get("text") not in (None, o["text"], o["simp_text"]):
                    exp = None  # residual text: its own symbols; classified without the hypothesis test
                    if f["env"] is not None:
                        exp = [(f["env"], vals[envs.index(f["env"])])]
                sig = classify(f, root, ir, exp, nested_mod=(root == "mod" and "mod" in tree_ops(t["a"])))
                if (sig, f.get("text")) in seen:
                    continue
                seen.add((sig, f.get("text")))
                add_violation(sig, dict(
                    size=tree_size(t), case=dict(kind="tree", t=t, vals=vals, envs=envs), tree=tree_str(t), printed=o["text"],
                    failure={k: v for k, v in f.items() if v is not None},
                    message=_message(f, tree_str(t), o["text"])))
        # grammar texts of this record
        if task.get("grammar", True):
            variants = []
            if kind == "shape":
                for st in styles:
                    variants.append((rec["toks"], st))
                variants.append((rec["min"], "tight"))
            else:
                pick = styles if task.get("all_styles") else [styles[rec["id"] % len(styles)]]
                for st in pick:
                    variants.append((rec["toks"], st))
                if not task.get("one_text"):
                    st2 = styles[(rec["id"] + 1) % len(styles)]
                    variants.append((rec["full"], st2))
                    variants.append((rec["atoms"], styles[(rec["id"] + 2) % len(styles)]))
            mvals = rec["mvals"]
            mexp = [(envs[i], q) for i, q in enumerate(mvals) if q[1] != 0]
            done = set()
            for toks, st in variants:
                text = render(toks, st, rng)
                if text in done:
                    continue
                done.add(text)
                fails, ev = check_text(text, mvals, envs, ir)
                res["texts"] += 1
                res["text_evals"] += ev
                gk = "text:" + (shape_key(t) if kind != "shape" else "shape:" + "".join(rec["toks"]))
                res["keys"][gk] = res["keys"].get(gk, 0) + 1
                seen = set()
                for f in fails:
                    sig = classify_grammar(f, t, envs, ir, mexp)
                    if sig in seen:
                        continue
                    seen.add(sig)
                    add_violation(sig, dict(
                        size=len(toks), case=dict(kind="text", text=text, mvals=mvals, t=t, envs=envs), tree=tree_str(t),
                        printed=None, failure={k: v for k, v in f.items() if v is not None},
                        message=_message(f, tree_str(t), None)))
    res["wall"] = time.process_time() - t00
    res["chunk"] = task.get("chunk", 0)
    return res


def _message(f, tree, printed) -> str:
    where = f" under {f['env']}" if f.get("env") else ""
    if f["check"] == "grammar":
        head = f"ir.SymbolicDim({f['text']!r}).evaluate(..){where}"
        spec = f"the grammar's standard meaning ({tree}) gives {f.get('expected')}"
    else:
        head = f"{f['check']} of {tree} (printed {printed!r})" + (f" via {f['text']!r}" if f.get("text") else "") + where
        spec = f"the specification gives {f.get('expected')}"
    if f.get("exc"):
        return f"{head} raised {f['exc']}; {spec}"
    return f"{head} returned {f.get('got')}; {spec}"
