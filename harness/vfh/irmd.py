"""C19 binding: MultiDeviceMC.tla states replayed into a real ir.Model with device annotations."""

from __future__ import annotations

import json
import logging
import multiprocessing as mp
from collections import Counter

import onnx_ir as ir
from onnx_ir import _multi_device

from . import irdrive
from .irdrive import Universe, call_from_compact, obs_of_spec

logging.getLogger("onnx_ir").setLevel(logging.ERROR)

NAMES = ["a", "b", "c", "d"]
CONSTS = [True, True, False, True]
RANKS = [2, -1, -1, 2, 2, -1, 2]


class MDUniverse(Universe):
    def __init__(self, ng: int = 1):
        super().__init__(ng, NAMES, CONSTS)
        self.model = ir.Model(self.graphs[0], ir_version=11)
        self.model.graph.opset_imports[""] = 21
        self.cfgs: list = []          # every configuration object ever created
        for v, r in zip(self.values, RANKS):
            if r >= 0:
                v.shape = ir.Shape([3] * r)

    def _adopt_fresh_outputs(self, node) -> None:
        before = len(self.values)
        super()._adopt_fresh_outputs(node)
        for i in range(before, len(self.values)):
            r = RANKS[i] if i < len(RANKS) else -1
            if r >= 0:
                self.values[i].shape = ir.Shape([3] * r)

    def attach_nested(self) -> None:
        """Nested configuration: graph 2 is the body of the first node of graph 1 (its nodes capture values of graph 1)."""
        if len(self.graphs) > 1 and self.nodes and "body" not in self.nodes[0].attributes:
            self.nodes[0].attributes["body"] = ir.AttrGraph("body", self.graphs[1])

    def model_nodes(self, model=None):
        """Nodes of the model in serialization order: the main graph, then the body attached to its first node."""
        g = (model or self.model).graph
        out = list(g)
        for n in g:
            a = n.attributes.get("body")
            if a is not None and a.type == ir.AttributeType.GRAPH:
                out.extend(a.value)
        return out

    def cid(self, c) -> int:
        for i, x in enumerate(self.cfgs):
            if x is c:
                return i + 1
        return -1

    def _dispatch(self, c: dict) -> None:
        op = c["op"]
        if op == "Shard":
            stage = c["w"] - 2
            self.N(c["n"]).shard(self.V(c["v"]), configuration=self.cfgs[c["g"] - 1], axis=c["i"], num_shards=c["j"],
                                 device_indices=tuple(c["vs"]), pipeline_stage=None if stage == -1 else stage)
        elif op == "SetStage":
            self.N(c["n"]).set_pipeline_stage(self.cfgs[c["g"] - 1], c["i"])
        elif op == "AddCfg":
            cfg = self.model.add_device_configuration(c["name"], num_devices=c["i"])
            self.cfgs.append(cfg)
        elif op == "RemoveCfgObj":
            self.model.remove_device_configuration(self.cfgs[c["g"] - 1], cascade=True)
        elif op == "RemoveCfgName":
            self.model.remove_device_configuration(c["name"], cascade=True)
        else:
            super()._dispatch(c)

    def ann_of(self, node) -> list:
        out = []
        for dc in node.device_configurations:
            out.append({
                "cfg": self.cid(dc.configuration),
                "stage": -1 if dc.pipeline_stage is None else dc.pipeline_stage,
                "specs": [{"val": self.vid(sp.value), "axes": [d.axis for d in sp.sharded_dims], "devs": list(sp.device)}
                          for sp in dc.sharding_specs],
            })
        return out

    def project_m(self) -> dict:
        o = self.project()
        o["ann"] = [self.ann_of(n) for n in self.nodes]
        o["cfgs"] = [self.cid(c) for c in self.model.device_configurations]
        o["cname"] = [c.name for c in self.cfgs]
        o["cndev"] = [c.num_devices for c in self.cfgs]
        return o

    # ---- derived checks on the current state ------------------------------------------------------
    @staticmethod
    def ser_by_names(model) -> list:
        out = []
        nodes = list(model.graph)
        for n in model.graph:
            a = n.attributes.get("body")
            if a is not None and a.type == ir.AttributeType.GRAPH:
                nodes.extend(a.value)
        for node in nodes:
            ent = []
            for dc in node.device_configurations:
                ent.append({
                    "cfg": dc.configuration.name if dc.configuration is not None else None,
                    "stage": -1 if dc.pipeline_stage is None else dc.pipeline_stage,
                    "specs": [{"name": sp.value.name if sp.value is not None else None,
                               "axes": [d.axis for d in sp.sharded_dims], "devs": list(sp.device)} for sp in dc.sharding_specs],
                })
            out.append(ent)
        return out

    @staticmethod
    def ser_of_proto(proto) -> list:
        out = []
        nodes = list(proto.graph.node)
        for n in proto.graph.node:
            for a in n.attribute:
                if a.name == "body":
                    nodes.extend(a.g.node)
        for node in nodes:
            ent = []
            for dc in node.device_configurations:
                ent.append({
                    "cfg": dc.configuration_id,
                    "stage": dc.pipeline_stage if dc.HasField("pipeline_stage") else -1,
                    "specs": [{"name": sp.tensor_name, "axes": [d.axis for d in sp.sharded_dim], "devs": list(sp.device)}
                              for sp in dc.sharding_spec],
                })
            out.append(ent)
        return out

    def names_unique(self) -> bool:
        names = []
        g = self.model.graph
        for v in list(g.inputs) + list(g.initializers.values()):
            names.append(v.name)
        for n in self.model_nodes():
            for o in n.outputs:
                names.append(o.name)
        return all(names) and len(set(names)) == len(names)


def obs_of_ms(ms: dict) -> dict:
    o = obs_of_spec(ms["s"])
    o["ann"] = [[{"cfg": e["cfg"], "stage": e["stage"],
                  "specs": [{"val": sp["val"], "axes": list(sp["axes"]), "devs": list(sp["devs"])} for sp in e["specs"]]}
                 for e in n] for n in ms["ann"]]
    o["cfgs"] = list(ms["cfgs"])
    o["cname"] = list(ms["cname"])
    o["cndev"] = list(ms["cndev"])
    return o


def norm_ser(ser) -> list:
    return [[{"cfg": e["cfg"], "stage": e["stage"],
              "specs": [{"name": sp["name"], "axes": list(sp["axes"]), "devs": list(sp["devs"])} for sp in e["specs"]]}
             for e in n] for n in ser]


class MDReplayer:
    def __init__(self):
        self.findings, self.stats, self.kinds = [], Counter(), Counter()

    def finding(self, cls, sig, rec, row, **kw):
        self.findings.append(dict(cls=cls, signature=sig, history=rec["h"], call=row.get("c"), expected_out=row.get("out"), **kw))

    @staticmethod
    def build(h, ng: int = 1):
        u = MDUniverse(ng)
        for cc, _ in h:
            u.apply(call_from_compact(cc))
        u.attach_nested()
        return u

    def state_checks(self, u, ser_expected, rec, row, tag):
        """The clauses of C19 that are judged on a state: checker silent, serialized references by
        current names, round trip and clone keep the annotations."""
        self.stats["state_checks"] += 1
        errs = _multi_device._check_device_configurations(u.model)  # noqa: SLF001 - "the library's own check"
        if errs:
            self.finding("C19", f"C19:{tag}:checker-reports", rec, row, errors=errs[:3],
                         message=f"the library's device-configuration check reports: {errs[:2]}")
            return
        want = norm_ser(ser_expected)
        if not u.names_unique():
            self.stats["roundtrip_skipped_duplicate_names"] += 1
            return
        try:
            proto = ir.to_proto(u.model)
        except Exception as e:  # noqa: BLE001
            self.finding("DIV", f"DIV:{tag}:serialize-raises:{type(e).__name__}", rec, row, error=repr(e)[:200])
            return
        got = u.ser_of_proto(proto)
        if got != want:
            self.finding("C19", f"C19:{tag}:serialized-references", rec, row, got=got, want=want,
                         message="serialized annotations do not use the current names / configuration ids")
            return
        try:
            back = ir.from_proto(proto)
        except Exception as e:  # noqa: BLE001 - e.g. a graph that is not deserializable for unrelated reasons
            self.stats["roundtrip_skipped_deserialize_raises"] += 1
            back = None
        if back is None:
            pass
        elif u.ser_by_names(back) != want or _multi_device._check_device_configurations(back):  # noqa: SLF001
            self.finding("C19", f"C19:{tag}:roundtrip", rec, row, got=u.ser_by_names(back), want=want,
                         message="annotations differ (or dangle) after serialize/deserialize at IR version 11")
        for deep in (False, True):
            self._clone_check(u, rec, row, tag, want, deep)

    def _clone_check(self, u, rec, row, tag, want, deep):
        try:
            cl = u.model.clone(deep_copy=deep)
        except Exception:  # noqa: BLE001 - graph not clonable (outer-scope value, forward reference): not a C19 matter
            self.stats["clone_skipped_raises"] += 1
            return
        if u.ser_by_names(cl) != want or _multi_device._check_device_configurations(cl):  # noqa: SLF001
            self.finding("C19", f"C19:{tag}:clone" + (":deep_copy" if deep else ""), rec, row, got=u.ser_by_names(cl), want=want,
                         message=f"annotations differ (or dangle) after Model.clone(deep_copy={deep})")
        else:
            src_vals = {id(v) for v in u.values}
            for node in cl.graph:
                for dc in node.device_configurations:
                    for sp in dc.sharding_specs:
                        if id(sp.value) in src_vals:
                            self.finding("C19", f"C19:{tag}:clone-targets-original-value", rec, row,
                                         message="an annotation of the cloned model targets a value of the original model")

    def replay(self, rec):
        h = rec["h"]
        pre = obs_of_ms(rec["pre"])
        ng = len(rec["pre"]["s"]["gNodes"])
        u = self.build(h, ng)
        self.stats["states"] += 1
        if u.project_m() != pre:
            self.stats["pre_mismatch"] += 1
            return
        self.state_checks(u, list(rec["ser"]) + list(rec.get("ser2", [])), rec, {}, "state" if ng == 1 else "nested-state")
        dirty = False
        for row in rec["rows"]:
            if dirty:
                u = self.build(h, ng)
                dirty = False
                try:   # serialization is an observation that may happen between any two steps: nothing it
                    ir.to_proto(u.model)   # leaves behind (memoized protos, ...) may show in a later one
                except Exception:  # noqa: BLE001
                    pass
            c = call_from_compact(row["c"])
            exp = row["out"]
            got = u.apply(c)
            real = u.project_m()
            self.stats["calls"] += 1
            self.kinds[(c["op"], exp, got != "ok")] += 1
            dirty = real != pre
            if got != "ok":
                if real != pre:
                    d = irdrive.diff_obs(pre, real)
                    self.finding("C19", f"C19:{c['op']}:{exp}:rejected-with-effect:" + "+".join(d), rec, row, got=got,
                                 message=f"{c['op']} raised {got} but changed {d}")
                elif exp == "ok":
                    self.finding("DIV", f"DIV:{c['op']}:code-rejects", rec, row, got=got)
                continue
            exp_obs = obs_of_ms(row["post"]) if exp == "ok" else None
            if exp_obs is not None and real == exp_obs:
                if dirty and u.names_unique():
                    # the same objects were serialized before this call: the references must follow the edit
                    self.stats["post_serializations"] += 1
                    try:
                        gotser = u.ser_of_proto(ir.to_proto(u.model))
                    except Exception:  # noqa: BLE001 - judged (as a divergence) when the post state is visited
                        gotser = None
                    if gotser is not None and gotser != norm_ser(list(row["ser"]) + list(row.get("ser2", []))):
                        self.finding("C19", f"C19:{c['op']}:ok:serialized-references-after-edit", rec, row, got=gotser,
                                     want=norm_ser(list(row["ser"]) + list(row.get("ser2", []))),
                                     message=f"serializing again after {c['op']} (the model had been serialized before the "
                                             "call) does not use the current names / annotations")
                continue
            # divergence: judge the property directly on the real state
            bad = self.dangling(u)
            errs = _multi_device._check_device_configurations(u.model)  # noqa: SLF001
            if exp in ("axis-range", "axis-repeated", "num-shards", "stage-conflict", "stage-negative"):
                self.finding("C19", f"C19:{c['op']}:{exp}:invalid-request-accepted", rec, row, got=got,
                             message=f"an invalid annotation request ({exp}) was accepted instead of being rejected without effect")
            elif errs:
                self.finding("C19", f"C19:{c['op']}:{exp}:checker-reports", rec, row, got=got, errors=errs[:3],
                             message=f"after {c['op']} the library's device-configuration check reports: {errs[:2]}")
            elif bad:
                self.finding("C19", f"C19:{c['op']}:{exp}:dangling", rec, row, got=got, dangling=bad[:4],
                             message=f"after {c['op']} an annotation targets {bad[:2]}")
            else:
                tag = "post-differs" if exp == "ok" else "code-accepts"
                self.finding("DIV", f"DIV:{c['op']}:{exp}:{tag}", rec, row, got=got,
                             fields=irdrive.diff_obs(exp_obs if exp_obs is not None else pre, real))

    @staticmethod
    def dangling(u) -> list:
        bad = []
        reg = {id(c) for c in u.model.device_configurations}
        for node in u.model_nodes():
            io = {id(v) for v in list(node.inputs) + list(node.outputs) if v is not None}
            for dc in node.device_configurations:
                if id(dc.configuration) not in reg:
                    bad.append(f"unregistered configuration on node {u.nid(node)}")
                for sp in dc.sharding_specs:
                    if id(sp.value) not in io:
                        bad.append(f"value {u.vid(sp.value)} which is not an input/output of node {u.nid(node)}")
        return bad


def _work(lines):
    r = MDReplayer()
    for line in lines:
        try:
            rec = json.loads(json.loads(line))
        except ValueError:
            r.stats["unparsed"] += 1
            continue
        r.replay(rec)
    first = {}
    for f in r.findings:
        s = f["signature"]
        if s not in first:
            first[s] = dict(f, count=0)
        first[s]["count"] += 1
    return list(first.values()), dict(r.stats), {"|".join(map(str, k)): v for k, v in r.kinds.items()}


def replay_file(path, nproc=16, chunk=2):
    def chunks():
        buf = []
        with open(path, "r", errors="replace") as f:
            for line in f:
                if line.startswith('"'):
                    buf.append(line)
                    if len(buf) >= chunk:
                        yield buf
                        buf = []
        if buf:
            yield buf

    findings, stats, kinds = {}, Counter(), Counter()
    with mp.get_context("fork").Pool(nproc) as pool:
        for fs, st, kd in pool.imap_unordered(_work, chunks()):
            for f in fs:
                s = f["signature"]
                if s not in findings or len(f["history"]) < len(findings[s]["history"]):
                    f["count"] = f["count"] + (findings[s]["count"] if s in findings else 0)
                    findings[s] = f
                else:
                    findings[s]["count"] += f["count"]
            stats.update(st)
            kinds.update(kd)
    return findings, stats, kinds
