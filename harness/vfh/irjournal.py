"""C20 binding: JournalMC.tla states replayed as twin executions (plain vs inside real Journals)."""

from __future__ import annotations

import contextlib
import gc
import io
import json
import multiprocessing as mp
import weakref
from collections import Counter

from onnx_ir.journaling import Journal, _wrappers

from .irdrive import Universe, call_from_compact, compact, mk

NAMES4 = ["a", "b", "a", "<none>"]
CONSTS4 = [True, True, False, True]


def class_table() -> dict:
    """Identity of every instrumented class attribute (setter and getter functions unwrapped from properties)."""
    t = dict(_wrappers.get_original_methods())
    from onnx_ir import _core

    for cls, props in ((_core.Node, ("name", "domain", "version", "op_type", "overload", "graph")),
                       (_core.Value, ("name", "type", "shape", "const_value")),
                       (_core.Function, ("name", "domain", "overload"))):
        for p in props:
            t[f"{cls.__name__}.{p}.fget"] = getattr(cls, p).fget
    return t


PRISTINE = class_table()


def force_restore() -> None:
    _wrappers.restore_ir_classes(PRISTINE)


def is_subseq(a, b) -> bool:
    it = iter(b)
    return all(x in it for x in a)


def entry_tokens(j, start=0):
    return [f"{e.class_name}.{e.operation}" for e in j.entries[start:]]


class JournalReplayer:
    def __init__(self):
        self.findings, self.stats, self.kinds = [], Counter(), Counter()

    def finding(self, cls, sig, rec, row, **kw):
        self.findings.append(dict(cls=cls, signature=sig, history=rec["h"], step=row, **kw))

    # ---- plain pass ---------------------------------------------------------------------------
    @staticmethod
    def build_plain(h):
        u = Universe(2, NAMES4, CONSTS4)
        for s in h:
            if s["kind"] == "op":
                u.apply(call_from_compact(s["c"]))
        return u

    # ---- journal pass -------------------------------------------------------------------------
    def build_journaled(self, h, rec):
        u = Universe(2, NAMES4, CONSTS4)
        journals, active, snaps = [], [], []
        for s in h:
            if s["kind"] == "op":
                u.apply(call_from_compact(s["c"]))
            elif s["kind"] == "enter":
                snaps.append(class_table())
                j = Journal()
                j.__enter__()
                journals.append(j)
                active.append(j)
            else:
                self._exit(active, snaps, s["kind"], rec, s)
        return u, journals, active, snaps

    def _exit(self, active, snaps, kind, rec, row) -> None:
        j = active.pop()
        if kind == "exit_exc":
            try:
                raise ValueError("thrown from inside the journal block")
            except ValueError as e:
                swallowed = j.__exit__(type(e), e, e.__traceback__)
            if swallowed:
                # a context manager whose __exit__ returns a true value suppresses the exception: the program
                # inside the journal would continue where the program without one raises
                self.finding("C20", "C20:transparent:exception-suppressed", rec, row, returned=repr(swallowed),
                             message="leaving a journal by an exception suppresses the exception (Journal.__exit__ "
                                     f"returned {swallowed!r})")
        else:
            j.__exit__(None, None, None)
        want = snaps.pop()
        got = class_table()
        bad = sorted(k for k in want if want[k] is not got.get(k))
        if bad:
            self.finding("C20", "C20:restore:" + kind, rec, row, attributes=bad[:10],
                         message=f"after leaving a journal ({kind}) {len(bad)} instrumented class attributes are not what they were before entering it: {bad[:4]}")

    def unwind(self, active, snaps) -> None:
        while active:
            try:
                active.pop().__exit__(None, None, None)
            except Exception:  # noqa: BLE001
                pass
        snaps.clear()
        if any(PRISTINE[k] is not v for k, v in class_table().items()):
            force_restore()

    def replay(self, rec) -> None:
        h, rows = rec["h"], rec["rows"]
        self.stats["states"] += 1
        # harness-added probes (no entry prediction: only plain-vs-journaled equivalence is compared):
        # Graph.sort(), which internally re-appends every node through one-shot iterators
        rows = list(rows) + [dict(kind="op", c=compact(mk("GSort", g=1)), out="?", all=None, done=[], probe=True),
                             dict(kind="op", c=compact(mk("GSort", g=2)), out="?", all=None, done=[], probe=True)]
        one_shot = self.stats["states"] % 2 == 0
        # 1. plain pass: what every candidate step does without any journal
        plain = []
        u = self.build_plain(h)
        u.one_shot = one_shot
        pre = u.project()
        dirty = False
        for row in rows:
            if row["kind"] != "op":
                plain.append(None)
                continue
            if dirty:
                u = self.build_plain(h)
                u.one_shot = one_shot
            c = call_from_compact(row["c"])
            out = u.apply(c)
            post = u.project()
            plain.append((out, post, u.last_ret))
            dirty = post != pre
        # 2. journal pass
        u, journals, active, snaps = self.build_journaled(h, rec)
        u.one_shot = one_shot
        try:
            if u.project() != pre:
                self.finding("C20", "C20:transparent:history", rec, {}, message="IR state after the history differs inside journals")
                return
            # entries recorded so far must match the model's
            for ji, j in enumerate(journals):
                if entry_tokens(j) != list(rec["ent"][ji]):
                    want, got = list(rec["ent"][ji]), entry_tokens(j)
                    self.stats["history_entries_differ"] += 1
            dirty = False
            for row, pl in zip(rows, plain):
                if dirty:
                    self.unwind(active, snaps)
                    u, journals, active, snaps = self.build_journaled(h, rec)
                    u.one_shot = one_shot
                    dirty = False
                self.stats["calls"] += 1
                if row["kind"] == "enter":
                    snaps.append(class_table())
                    j = Journal()
                    j.__enter__()
                    journals.append(j)
                    active.append(j)
                    dirty = True
                    self.kinds[("enter", len(active))] += 1
                    continue
                if row["kind"] in ("exit", "exit_exc"):
                    self._exit(active, snaps, row["kind"], rec, row)
                    if not active and any(PRISTINE[k] is not v for k, v in class_table().items()):
                        self.finding("C20", "C20:restore:not-pristine", rec, row,
                                     message="all journals left but the IR classes are not the original ones")
                    dirty = True
                    self.kinds[(row["kind"], len(active))] += 1
                    continue
                c = call_from_compact(row["c"])
                before = [len(j.entries) for j in journals]
                out = u.apply(c)
                post = u.project()
                dirty = post != pre
                self.kinds[(c["op"], row["out"] != "ok", len(active))] += 1
                if (out, post) != pl[:2]:
                    what = "outcome" if out != pl[0] else "state"
                    self.finding("C20", f"C20:transparent:{c['op']}:{what}", rec, row, journaled=out, plain=pl[0],
                                 message=f"{c['op']} behaves differently inside a journal: {out} vs {pl[0]} ({what})")
                    continue
                if u.last_ret != pl[2]:
                    self.finding("C20", f"C20:transparent:{c['op']}:return-value", rec, row, journaled=u.last_ret, plain=pl[2],
                                 message=f"{c['op']} returns {u.last_ret} inside a journal and {pl[2]} without one")
                    continue
                if row.get("probe"):
                    continue
                if (row["out"] == "ok") != (out == "ok"):
                    # model and code disagree on the call itself (a matter of C01/C06, e.g. the known
                    # finding on Node(outputs=[graph input])): the entry prediction is void
                    self.finding("DIV", f"DIV:outcome:{c['op']}:{row['out']}", rec, row, got=out)
                    continue
                for ji, j in enumerate(journals):
                    delta = entry_tokens(j, before[ji])
                    if j not in active:
                        if delta:
                            self.finding("C20", f"C20:entries:{c['op']}:inactive-journal-grew", rec, row, got=delta)
                        continue
                    if delta == list(row["all"]):
                        continue
                    if not is_subseq(list(row["done"]), delta):
                        self.finding("C20", f"C20:entries:{c['op']}:{row['out']}:missing-or-misordered", rec, row, got=delta,
                                     message=f"entries recorded for {c['op']}: {delta}; completed instrumented operations: {row['done']}")
                    elif len(delta) > len(row["all"]):
                        self.finding("C20", f"C20:entries:{c['op']}:{row['out']}:extra", rec, row, got=delta,
                                     message=f"entries recorded for {c['op']}: {delta}; instrumented operations performed: {row['all']}")
                    else:
                        self.finding("DIV", f"DIV:entries:{c['op']}:{row['out']}", rec, row, got=delta)
                    if len(delta) != len(row["all"]):
                        dirty = True
            # weak references: dropping the IR objects must free them although journals hold entries
            if journals:
                refs = [weakref.ref(x) for x in u.nodes + u.values + u.graphs]
                keep = journals  # noqa: F841 - journals (and their entries) stay alive on purpose
                if self.stats["states"] % 2:
                    # reading the journal (every public accessor of the entries, the displays) while the objects
                    # are alive must not make the entries hold on to them
                    sink = io.StringIO()
                    with contextlib.redirect_stdout(sink), contextlib.redirect_stderr(sink):
                        for j in journals:
                            for e in j.entries:
                                for attr in ("obj", "ref", "class_", "class_name", "operation", "details", "timestamp", "stack_trace"):
                                    getattr(e, attr, None)
                                repr(e)
                                try:
                                    e.display()
                                except Exception:  # noqa: BLE001 - display problems are not what is judged here
                                    pass
                            try:
                                j.display()
                            except Exception:  # noqa: BLE001
                                pass
                    del sink
                self.unwind(active, snaps)
                del u
                gc.collect()
                alive = sum(1 for r in refs if r() is not None)
                if alive:
                    self.finding("C20", "C20:strong-ref", rec, {}, alive=alive,
                                 message=f"{alive} IR objects are kept alive by journal entries after all other references were dropped")
        finally:
            self.unwind(active, snaps)


def _work(lines):
    r = JournalReplayer()
    for line in lines:
        try:
            rec = json.loads(json.loads(line))
        except ValueError:
            r.stats["unparsed"] += 1
            continue
        r.replay(rec)
    first = {}
    for f in r.findings:
        s = f["signature"]
        if s not in first:
            first[s] = dict(f, count=0)
        first[s]["count"] += 1
    return list(first.values()), dict(r.stats), {"|".join(map(str, k)): v for k, v in r.kinds.items()}


def replay_file(path, nproc=16, chunk=4):
    def chunks():
        buf = []
        with open(path, "r", errors="replace") as f:
            for line in f:
                if line.startswith('"'):
                    buf.append(line)
                    if len(buf) >= chunk:
                        yield buf
                        buf = []
        if buf:
            yield buf

    findings, stats, kinds = {}, Counter(), Counter()
    with mp.get_context("fork").Pool(nproc) as pool:
        for fs, st, kd in pool.imap_unordered(_work, chunks()):
            for f in fs:
                s = f["signature"]
                if s not in findings or len(f["history"]) < len(findings[s]["history"]):
                    f["count"] = f["count"] + (findings[s]["count"] if s in findings else 0)
                    findings[s] = f
                else:
                    findings[s]["count"] += f["count"]
            stats.update(st)
            kinds.update(kd)
    return findings, stats, kinds
