"""Field-by-field comparison of two protobuf messages up to exactly the normalisations that C02's
statement documents as *insignificant differences of representation*:

  * the alias domain 'ai.onnx' is ''                        (NodeProto/FunctionProto/OperatorSetIdProto.domain)
  * opset-import / value-info / metadata entries may be reordered
      (ModelProto|FunctionProto.opset_import, GraphProto|FunctionProto.value_info, *.metadata_props,
       and the two other string-keyed entry lists of the same nature: TensorAnnotation.quant_parameter_tensor_names
       and GraphProto.quantization_annotation, which are keyed by name)
  * an unset optional scalar equals one set to its default value (never for members of a oneof:
       'dim_value: 0' is not an unknown dimension)

The *structural* normalisations (value info added for initializers, unreferenced value info dropped,
trailing unnamed node outputs trimmed) are NOT implemented here: they come from the specification's
Norm(p), whose concretisation is what the real output is compared with.

canon(msg)  -> nested tuples;  diff(a, b) -> list of (path, kind, detail) differences, path being
'MessageType.field' chains without indices (stable signatures).
"""

from __future__ import annotations

import collections
import struct

from google.protobuf.descriptor import FieldDescriptor as FD

UNORDERED = {
    ("ModelProto", "opset_import"),
    ("FunctionProto", "opset_import"),
    ("GraphProto", "value_info"),
    ("FunctionProto", "value_info"),
    ("GraphProto", "quantization_annotation"),
    ("TensorAnnotation", "quant_parameter_tensor_names"),
}
DOMAIN_FIELDS = {("NodeProto", "domain"), ("FunctionProto", "domain"), ("OperatorSetIdProto", "domain")}


def _is_unordered(msg_name, field_name):
    return field_name == "metadata_props" or (msg_name, field_name) in UNORDERED


def _scalar(fd, v):
    if fd.type == FD.TYPE_FLOAT:
        return ("f32", struct.pack("<f", v))
    if fd.type == FD.TYPE_DOUBLE:
        return ("f64", struct.pack("<d", v))
    if fd.type == FD.TYPE_BYTES:
        return bytes(v)
    return v


def canon(msg):
    """Canonical nested-tuple form of a message: (TypeName, ((field, value), ...))."""
    name = msg.DESCRIPTOR.name
    out = []
    for fd in msg.DESCRIPTOR.fields:
        if fd.is_repeated:
            items = getattr(msg, fd.name)
            if len(items) == 0:
                continue
            if fd.type == FD.TYPE_MESSAGE:
                vals = [canon(x) for x in items]
            else:
                vals = [_scalar(fd, x) for x in items]
            if _is_unordered(name, fd.name):
                vals = sorted(vals, key=repr)
            out.append((fd.name, tuple(vals)))
        elif fd.type == FD.TYPE_MESSAGE:
            if msg.HasField(fd.name):
                out.append((fd.name, canon(getattr(msg, fd.name))))
        else:
            in_oneof = fd.containing_oneof is not None
            if fd.has_presence:
                if not msg.HasField(fd.name):
                    continue
                v = getattr(msg, fd.name)
                if not in_oneof and v == fd.default_value:
                    continue  # set to the default == unset
            else:
                v = getattr(msg, fd.name)
                if v == fd.default_value:
                    continue
            if (name, fd.name) in DOMAIN_FIELDS and v == "ai.onnx":
                continue  # '' after alias normalisation, i.e. the default
            out.append((fd.name, _scalar(fd, v)))
    return (name, tuple(out))


def _is_msg(c):
    return isinstance(c, tuple) and len(c) == 2 and isinstance(c[0], str) and isinstance(c[1], tuple) and c[0][:1].isupper() and all(
        isinstance(x, tuple) and len(x) == 2 and isinstance(x[0], str) for x in c[1]
    )


def diff(a, b, path="", out=None, limit=40):
    """Differences between two canonical messages a (expected) and b (actual)."""
    if out is None:
        out = []
    if a == b or len(out) >= limit:
        return out
    if _is_msg(a) and _is_msg(b) and a[0] == b[0]:
        name = a[0]
        fa, fb = dict(a[1]), dict(b[1])
        for f in list(dict.fromkeys([k for k, _ in a[1]] + [k for k, _ in b[1]])):
            p = f"{name}.{f}"
            if f not in fb:
                out.append((p, "lost", _short(fa[f])))
            elif f not in fa:
                out.append((p, "added", _short(fb[f])))
            elif fa[f] != fb[f]:
                va, vb = fa[f], fb[f]
                if isinstance(va, tuple) and isinstance(vb, tuple) and not _is_msg(va) and not _is_msg(vb) and not (va and va[0] in ("f32", "f64")):
                    _diff_repeated(name, f, va, vb, p, out, limit)
                else:
                    diff(va, vb, p, out, limit)
        return out
    out.append((path or "?", "changed", f"{_short(a)} -> {_short(b)}"))
    return out


def _diff_repeated(name, f, va, vb, p, out, limit):
    if _is_unordered(name, f) or len(va) != len(vb):
        ca, cb = collections.Counter(va), collections.Counter(vb)
        missing = ca - cb
        extra = cb - ca
        if _is_unordered(name, f) or (missing and not extra) or (extra and not missing):
            # pair up entries that are the same message with a changed interior (same first field = key/name)
            mk = {_key(x): x for x in missing}
            for x in list(extra):
                k = _key(x)
                if k in mk and _is_msg(x) and k is not None:
                    diff(mk[k], x, p, out, limit)
                    missing[mk[k]] -= 1
                    extra[x] -= 1
            for x, n in missing.items():
                if n > 0:
                    out.append((p, "lost", _short(x)))
            for x, n in extra.items():
                if n > 0:
                    out.append((p, "duplicated" if ca[x] > 0 else "added", _short(x)))
            return
    if len(va) != len(vb):
        out.append((p, "length", f"{len(va)} -> {len(vb)}"))
        return
    for x, y in zip(va, vb):
        if x != y:
            if _is_msg(x) and _is_msg(y):
                diff(x, y, p, out, limit)
            else:
                out.append((p, "changed", f"{_short(x)} -> {_short(y)}"))


def _key(c):
    if _is_msg(c) and c[1]:
        k, v = c[1][0]
        if k in ("name", "key", "tensor_name", "domain"):
            return (k, v)
    return None


def _short(x, n=160):
    s = repr(x)
    return s if len(s) <= n else s[:n] + "..."


def signature(d):
    path, kind, _ = d
    return f"{path}:{kind}"
