"""./vf entry point.  Exit codes: 0 held (maybe KNOWN-FINDING lines), 1 VIOLATION, 2 machinery failure."""

from __future__ import annotations

import argparse
import glob
import importlib
import json
import os
import sys
import traceback

from . import tlc
from .common import SPECS, VERIF, MachineryError, assert_repo_binding, eprint, scratch_dir, seed_from_env
from .report import Ctx


def _check_module(pid: str):
    return importlib.import_module(f"vfh.checks.{pid.lower()}")


def cmd_check(args) -> int:
    pid = args.property.upper()
    tier = args.tier or os.environ.get("VERIF_TIER") or "quick"
    if tier not in ("quick", "thorough"):
        tier = "quick"
    seed = seed_from_env() if args.seed is None else args.seed
    try:
        assert_repo_binding()
        mod = _check_module(pid)
        with scratch_dir(f"vf-{pid}-") as sd:
            ctx = Ctx(pid, tier, seed, sd, level=getattr(mod, "LEVEL", "model_checking"))
            mod.run(ctx)
            return ctx.finish()
    except MachineryError as e:
        eprint(f"MACHINERY-FAILURE property={pid}: {e}")
        return 2
    except Exception:  # noqa: BLE001
        eprint(f"MACHINERY-FAILURE property={pid}: unexpected exception")
        traceback.print_exc()
        return 2


def cmd_replay(args) -> int:
    with open(args.path) as f:
        rp = json.load(f)
    pid = rp["property"]
    try:
        assert_repo_binding()
        mod = _check_module(pid)
        if not hasattr(mod, "replay"):
            print(json.dumps(rp, indent=1))
            return 0
        with scratch_dir(f"vf-{pid}-rp-") as sd:
            ctx = Ctx(pid, rp.get("tier", "quick"), rp.get("seed", 0), sd)
            if isinstance(rp["detail"], dict):
                rp["detail"].setdefault("_signature", rp.get("signature", ""))
            still = mod.replay(ctx, rp["detail"])
        if still:
            print(f"VIOLATION property={pid} replay={args.path}")
            return 1
        print(f"replay of {args.path}: no longer violates")
        return 0
    except MachineryError as e:
        eprint(f"MACHINERY-FAILURE replay: {e}")
        return 2


def cmd_setup(_args) -> int:
    """Parse every spec with SANY, byte-compile the harness, check tool versions. Offline."""
    bad = 0
    for tla in sorted(glob.glob(os.path.join(SPECS, "**", "*.tla"), recursive=True)):
        ok, out = tlc.sany(tla)
        print(("ok   " if ok else "FAIL ") + os.path.relpath(tla, VERIF))
        if not ok:
            print(out)
            bad += 1
    for py in sorted(glob.glob(os.path.join(VERIF, "harness", "**", "*.py"), recursive=True)):
        try:
            with open(py) as f:
                compile(f.read(), py, "exec")
        except SyntaxError as e:
            print("FAIL", py, e)
            bad += 1
    try:
        assert_repo_binding()
    except MachineryError as e:
        print("FAIL", e)
        bad += 1
    os.makedirs(os.path.join(VERIF, "evidence"), exist_ok=True)
    return 1 if bad else 0


def cmd_list(_args) -> int:
    for p in sorted(glob.glob(os.path.join(os.path.dirname(__file__), "checks", "c[0-9]*.py"))):
        print(os.path.basename(p)[:-3].upper())
    return 0


def main(argv=None) -> int:
    ap = argparse.ArgumentParser(prog="vf")
    sub = ap.add_subparsers(dest="cmd", required=True)
    c = sub.add_parser("check")
    c.add_argument("property")
    c.add_argument("--tier", choices=["quick", "thorough"])
    c.add_argument("--seed", type=int)
    c.set_defaults(fn=cmd_check)
    r = sub.add_parser("replay")
    r.add_argument("path")
    r.set_defaults(fn=cmd_replay)
    s = sub.add_parser("setup")
    s.set_defaults(fn=cmd_setup)
    l = sub.add_parser("list")
    l.set_defaults(fn=cmd_list)
    args = ap.parse_args(argv)
    return args.fn(args)


if __name__ == "__main__":
    sys.exit(main())
