"""C15 part B - binding of the NameFixPass transcription (specs/names/Names.tla, prefix F) to the
real pass.  A structure record emitted by TLC (lists of value / node ids per graph) plus a naming is
turned into a real ir.Model (main graph or function, subgraphs as GRAPH attributes), the real
NameFixPass is run, and names / initializer keys / a digest of everything that is not a name are
observed before and after."""

from __future__ import annotations

import hashlib
import json
import multiprocessing as mp

import onnx_ir as ir
from onnx_ir.passes.common import naming

NONE = "<none>"


def _nm(x):
    return None if x == NONE else x


def _tok(x):
    return NONE if x is None else x


class Built:
    __slots__ = ("model", "values", "nodes", "graphs", "top")


def build(S: dict, vname: list, nname: list) -> Built:
    """S: StructRec of the spec (1-based ids). Names are assigned AFTER construction because
    Graph() itself names unnamed nodes and values (part A)."""
    nv = S["nv"]
    ng = len(S["hold"])
    nn = len(S["nin"])
    values = [None] * nv
    nodes = [None] * nn
    graphs = [None] * ng
    init_ids = {v for g in range(ng) for v in S["ginit"][g]}
    for v in range(1, nv + 1):
        if v in init_ids:
            t = ir.tensor([float(v)], name=vname[v - 1])
            values[v - 1] = ir.Value(name=vname[v - 1], const_value=t)
        else:
            values[v - 1] = ir.Value(name=f"tmp{v}")

    def build_graph(g: int):
        for n in S["gnodes"][g - 1]:
            attrs = []
            for h in S["nsub"][n - 1]:
                build_graph(h)
                attrs.append(ir.AttrGraph(f"body{h}", graphs[h - 1]))
            nodes[n - 1] = ir.Node(
                "", "If" if attrs else "Op", [values[v - 1] for v in S["nin"][n - 1]], attrs,
                outputs=[values[v - 1] for v in S["nout"][n - 1]], name=f"tmpn{n}",
            )
        graphs[g - 1] = ir.Graph(
            [values[v - 1] for v in S["gin"][g - 1]],
            [values[v - 1] for v in S["gout"][g - 1]],
            nodes=[nodes[n - 1] for n in S["gnodes"][g - 1]],
            initializers=[values[v - 1] for v in S["ginit"][g - 1]],
            name=f"g{g}",
            opset_imports={"": 20},
        )

    build_graph(1)
    b = Built()
    if S["top"] == "function":
        fn = ir.Function("dom", "f", graph=graphs[0], attributes=())
        main = ir.Graph([], [], nodes=[], name="main", opset_imports={"": 20})
        b.model = ir.Model(main, ir_version=10, functions=[fn])
        b.top = fn
    else:
        b.model = ir.Model(graphs[0], ir_version=10)
        b.top = graphs[0]
    for v in range(nv):
        if (v + 1) not in init_ids:
            values[v].name = _nm(vname[v])
    # registering an initializer again under its own name changes nothing (alternating over the instances:
    # item assignment / register_initializer / add)
    how = (nv + nn + len(graphs)) % 4
    if how:
        for g in graphs:
            for key, val in list(g.initializers.items()):
                if how == 1:
                    g.initializers[key] = val
                elif how == 2:
                    g.register_initializer(val)
                else:
                    g.initializers.add(val)
    for n in range(nn):
        nodes[n].name = _nm(nname[n])
    b.values, b.nodes, b.graphs = values, nodes, graphs
    return b


def _sig(b: Built) -> str:
    """Digest of everything observable that is not a name (structure, ownership, payload identity)."""
    vid = {id(v): i + 1 for i, v in enumerate(b.values)}
    nid = {id(n): i + 1 for i, n in enumerate(b.nodes)}
    gid = {id(g): i + 1 for i, g in enumerate(b.graphs)}
    lines = []
    for i, g in enumerate(b.graphs):
        lines.append((
            "g", i + 1, [vid.get(id(v), -1) for v in g.inputs], [vid.get(id(v), -1) for v in g.outputs],
            sorted(vid.get(id(v), -1) for v in g.initializers.values()), [nid.get(id(n), -1) for n in g],
            g.name, sorted(g.opset_imports.items()), g.doc_string,
        ))
    for i, n in enumerate(b.nodes):
        attrs = []
        for k, a in n.attributes.items():
            attrs.append((k, str(a.type), gid.get(id(a.value), -1) if isinstance(a.value, ir.Graph) else repr(a.value)))
        lines.append((
            "n", i + 1, n.op_type, n.domain, n.overload, [vid.get(id(v), 0) if v is not None else 0 for v in n.inputs],
            [vid.get(id(v), -1) for v in n.outputs], attrs, gid.get(id(n.graph), 0), n.doc_string, n.version,
        ))
    for i, v in enumerate(b.values):
        p = v.producer()
        c = v.const_value
        lines.append((
            "v", i + 1, nid.get(id(p), 0) if p is not None else 0, v.index(), v.is_graph_input(), v.is_graph_output(),
            v.is_initializer(), gid.get(id(v.graph), 0) if v.graph is not None else 0, str(v.type), str(v.shape),
            id(c) if c is not None else 0, c.tobytes().hex() if c is not None else "",
            sorted((nid.get(id(u.node), -1), u.idx) for u in v.uses()),
        ))
    m = b.model
    lines.append(("m", sorted(map(str, m.functions.keys())), m.ir_version, len(m.graph), id(m.graph)))
    return hashlib.sha1(json.dumps(lines, default=str).encode()).hexdigest()[:16]


def observe(b: Built) -> dict:
    vid = {id(v): i + 1 for i, v in enumerate(b.values)}
    keys = []
    for i, g in enumerate(b.graphs):
        if i == 0 and isinstance(b.top, ir.Function):
            keys.append([])  # a function has no initializers (its wrapped graph's dict is not visited)
            continue
        keys.append([[_tok(k), vid.get(id(v), -1)] for k, v in g.initializers.items()])
    return {
        "vname": [_tok(v.name) for v in b.values],
        "nname": [_tok(n.name) for n in b.nodes],
        "keys": keys,
        "sig": _sig(b),
    }


def run_instance(S: dict, vname: list, nname: list) -> dict:
    b = build(S, vname, nname)
    pre = observe(b)
    if pre["vname"] != list(vname) or pre["nname"] != list(nname):
        return {"error": f"could not build the instance: wanted {vname} {nname}, got {pre['vname']} {pre['nname']}"}
    out, exc, mod = "ok", None, None
    try:
        res = naming.NameFixPass()(b.model)
        mod = bool(res.modified)
    except Exception as e:  # noqa: BLE001 - the outcome class is part of the observation
        out, exc = "raise", f"{type(e).__name__}: {e}"
    post = observe(b)
    post["out"] = out
    return {"pre": pre, "post": post, "exc": exc, "mod": mod}


def run_composite(parts: list) -> dict:
    """One model made of several enumerated instances: parts[0] (top = graph) is the main graph, the others
    (top = function) are functions of the same model (Names.tla, FModel). The pass runs once; every top is
    observed separately."""
    bs = [build(S, vn, nn) for S, vn, nn in parts]
    pres = [observe(b) for b in bs]
    for k, b in enumerate(bs[1:], 1):
        b.top.name = f"f{k}"
    model = ir.Model(bs[0].top, ir_version=10, functions=[b.top for b in bs[1:]])
    for b in bs:
        b.model = model
    for (S, vn, nn), pre in zip(parts, pres):
        if pre["vname"] != list(vn) or pre["nname"] != list(nn):
            return {"error": "could not build a part of the composite"}
    pres = [observe(b) for b in bs]   # the signature now covers the common model
    out, exc, mod = "ok", None, None
    try:
        res = naming.NameFixPass()(model)
        mod = bool(res.modified)
    except Exception as e:  # noqa: BLE001
        out, exc = "raise", f"{type(e).__name__}: {e}"
    posts = [observe(b) for b in bs]
    return {"pres": pres, "posts": posts, "out": out, "exc": exc, "mod": mod}


def _composite_chunk(items):
    res = []
    for parts, preds in items:
        o = run_composite(parts)
        if "error" in o:
            res.append({"error": o["error"]})
            continue
        # FModel: tops are independent; the run stops at the first top predicted to raise
        stop = next((k for k, p in enumerate(preds) if p["out"] == "raise"), None)
        raised_at = None
        if o["out"] == "raise":
            raised_at = stop if stop is not None else next(
                (k for k, (post, pred) in enumerate(zip(o["posts"], preds))
                 if post["vname"] != pred["vname"] or post["nname"] != pred["nname"]), 0)
        tops = []
        for k, (pre, post, pred) in enumerate(zip(o["pres"], o["posts"], preds)):
            post = dict(post)
            if stop is not None and k > stop:
                want = {"out": "ok", "vname": pre["vname"], "nname": pre["nname"], "keys": pre["keys"]}
                post["out"] = "ok"
            else:
                want = pred
                post["out"] = "raise" if k == raised_at else "ok"
            conf = (post["vname"] == want["vname"] and post["nname"] == want["nname"] and post["keys"] == want["keys"]
                    and (o["out"] == "raise") == (stop is not None))
            tops.append({"pre": pre, "post": post, "conf": conf, "untouched_expected": stop is not None and k > stop})
        want_mod = None if stop is not None else any(p["mod"] for p in preds)
        res.append({"tops": tops, "exc": o["exc"], "mod": o["mod"], "want_mod": want_mod})
    return res


def replay_composites(items: list, nproc: int, pool=None) -> list:
    step = max(1, len(items) // (nproc * 4) + 1)
    chunks = [items[i:i + step] for i in range(0, len(items), step)]
    res = []
    own = pool is None
    if own:
        pool = mp.get_context("fork").Pool(nproc)
    try:
        for r in pool.imap(_composite_chunk, chunks):
            res += r
    finally:
        if own:
            pool.terminate()
    return res


# ---- replay of a TLC output file ------------------------------------------------------------
def load_tlc_output(path: str):
    structs, runs = {}, []
    with open(path, "r", errors="replace") as f:
        for line in f:
            if not line.startswith('"['):
                continue
            try:
                r = json.loads(json.loads(line))
            except ValueError:
                return None, None
            if r[0] == "S":
                structs[json.dumps(r[1])] = r[2]
            elif r[0] == "R":
                runs.append(r)
    return structs, runs


def _chunk(args):
    structs, runs = args
    out = []
    for r in runs:
        key = json.dumps(r[1])
        S = structs[key]
        o = run_instance(S, r[2], r[3])
        if "error" in o:
            out.append({"key": key, "error": o["error"]})
            continue
        pred = r[4]
        conf = (
            o["post"]["out"] == pred["out"] and o["post"]["vname"] == pred["vname"] and o["post"]["nname"] == pred["nname"]
            # initializer dict ORDER is not part of the property; compared for conformance only
            and o["post"]["keys"] == pred["keys"]
            and (o["mod"] is None or o["mod"] == pred["mod"])
        )
        out.append({"key": key, "pre": o["pre"], "post": o["post"], "exc": o["exc"], "conf": conf,
                    "pred": pred, "pbroken": r[5]})
    return out


def replay(structs: dict, runs: list, nproc: int, pool=None) -> list:
    step = max(1, len(runs) // (nproc * 4) + 1)
    chunks = []
    for i in range(0, len(runs), step):
        part = runs[i:i + step]
        keys = {json.dumps(r[1]) for r in part}
        chunks.append(({k: structs[k] for k in keys}, part))
    res = []
    own = pool is None
    if own:
        pool = mp.get_context("fork").Pool(nproc)
    try:
        for r in pool.imap(_chunk, chunks):
            res += r
    finally:
        if own:
            pool.terminate()
    return res


# ---- code -> spec: random larger instances (judged and checked for conformance by TLC) --------
RV_POOL = [NONE, NONE, "", "v", "v", "v_1", "v_2", "v_1_1", "w", "w_1", "x"]
RN_POOL = [NONE, "", "", "node", "node", "node_1", "node_2", "node_1_1", "n", "m"]


def derive_lists(raw: dict) -> dict:
    """StructRec of NamesFixMC recomputed from the raw instance (ids 1-based). Used for random
    instances only; TLC re-derives everything from `raw` when it checks conformance."""
    nv, nn, ng = len(raw["vrole"]), len(raw["nodeG"]), len(raw["hold"])
    role = raw["vrole"]

    def home(v):
        r = role[v - 1]
        return raw["nodeG"][r["n"] - 1] if r["k"] == "out" else r["g"]

    V = range(1, nv + 1)
    gin = [[v for v in V if role[v - 1]["k"] in ("in", "ii") and role[v - 1]["g"] == g] for g in range(1, ng + 1)]
    ginit = [[v for v in V if role[v - 1]["k"] in ("init", "ii") and role[v - 1]["g"] == g] for g in range(1, ng + 1)]
    gout = [[v for v in V if raw["vout"][v - 1] and home(v) == g] for g in range(1, ng + 1)]
    gnodes = [[n for n in range(1, nn + 1) if raw["nodeG"][n - 1] == g] for g in range(1, ng + 1)]
    nout = [[v for v in V if role[v - 1]["k"] == "out" and role[v - 1]["n"] == n] for n in range(1, nn + 1)]
    nsub = [[h for h in range(1, ng + 1) if raw["hold"][h - 1] == n] for n in range(1, nn + 1)]

    def visible(g):
        h = raw["hold"][g - 1]
        if h == 0:
            return set()
        p = raw["nodeG"][h - 1]
        s = set(gin[p - 1]) | set(ginit[p - 1])
        s |= {v for v in V if role[v - 1]["k"] == "out" and raw["nodeG"][role[v - 1]["n"] - 1] == p and role[v - 1]["n"] < h}
        return s | visible(p)

    nin = []
    for n in range(1, nn + 1):
        g = raw["nodeG"][n - 1]
        s = set(gin[g - 1]) | set(ginit[g - 1]) | visible(g)
        s |= {v for v in V if role[v - 1]["k"] == "out" and raw["nodeG"][role[v - 1]["n"] - 1] == g and role[v - 1]["n"] < n}
        nin.append(sorted(s))
    return {"top": raw["top"], "hold": raw["hold"], "gin": gin, "gout": gout, "ginit": ginit, "gnodes": gnodes,
            "nin": nin, "nout": nout, "nsub": nsub, "nv": nv, "raw": raw}


def random_instance(rng, max_v=8, max_n=5):
    top = rng.choice(["graph", "graph", "function"])
    nn = rng.randint(0, max_n)
    ng = 1
    nodeG, hold = [], [0]
    for n in range(1, nn + 1):
        g = rng.randint(1, ng)
        nodeG.append(g)
        if ng < 3 and rng.random() < 0.45:
            ng += 1
            hold.append(n)  # node n (in graph g < new id) holds the new graph
    nv = rng.randint(1, max_v)
    vrole, vout = [], []
    for _ in range(nv):
        ks = ["in", "init", "ii"] + (["out", "out", "out"] if nn else [])
        k = rng.choice(ks)
        if k == "out":
            vrole.append({"k": "out", "g": 0, "n": rng.randint(1, nn)})
        else:
            g = rng.randint(1, ng)
            if g == 1 and top == "function" and k != "in":
                k = "in"
            vrole.append({"k": k, "g": g, "n": 0})
        vout.append(rng.random() < 0.3)
    raw = {"top": top, "nodeG": nodeG, "hold": hold, "vrole": vrole, "vout": vout}
    vname = []
    used = {}
    for v in range(nv):
        r = vrole[v]
        if r["k"] in ("init", "ii"):
            taken = used.setdefault(r["g"], set())
            cand = [x for x in RV_POOL if x not in (NONE, "") and x not in taken]
            if cand:
                nm = rng.choice(cand)
            else:  # pool exhausted: initializer names of one graph must be distinct
                nm = f"u{v}"
            taken.add(nm)
        else:
            nm = rng.choice(RV_POOL)
        vname.append(nm)
    nname = [rng.choice(RN_POOL) for _ in range(nn)]
    return derive_lists(raw), vname, nname
