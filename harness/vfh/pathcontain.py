"""Binding of specs/extdata/PathContain.tla to onnx_ir (property C10).

The specification (TLC) is the oracle: for every (file-system instance, base spelling, location)
it prints the verdict of ExternalTensor's containment check followed by open() - accept + inode
of the file whose bytes are returned, or reject + layer/errno - together with the kernel's open
result and os.path.realpath of the joined path.  This module

* materialises each instance (exactly the entries printed by the spec) in a private directory,
  every regular file holding 16 distinct canary bytes,
* builds the tensor directly (ir.ExternalTensor) or through ir.load of a model saved in base,
* calls every read entry point on a fresh tensor under an audit hook that records open() calls,
* compares accept/reject, returned bytes, opened files, and (environment model) the real
  kernel / os.path.realpath with the spec's predictions,
* replays the call histories of the protocol mode step by step.

Verdict rules (see AGENT_BRIEF): a VIOLATION is an accepted read whose bytes are not those of a
legitimate file (singly linked regular file inside the resolved base) while base_dir is non-empty
(for ir.load: whatever base_dir the loader derived), an open() of a regular file that is not
legitimate, a plain name inside base that cannot be read, or a loaded model whose tensors do not
get a non-empty spelling of the model's directory.  Every other difference between specification
and code is a divergence (reported, never exit 1).
"""

from __future__ import annotations

import errno
import io
import json
import os
import re
import shutil
import sys

ENTRIES = ("numpy", "array", "tobytes", "tofile_file", "tofile_mem", "convert")
ROTATION = (("numpy", "tofile_file"), ("array", "tofile_mem"), ("tobytes", "convert"))
NBYTES = 16
MODEL_INO = 9

# ------------------------------------------------------------------------------------------------
# parsing of the TLC output


def parse_enum(out_path: str):
    """-> (roots {(i,s): root record}, groups {(i,s): [case tuples]})"""
    roots, groups = {}, {}
    with open(out_path, "r", errors="replace") as f:
        for line in f:
            if not line.startswith('"'):
                continue
            try:
                r = json.loads(json.loads(line))
            except ValueError:
                continue
            if not isinstance(r, dict):
                continue
            if r.get("t") == "root":
                roots[(r["i"], r["s"])] = r
            elif r.get("t") == "cases":
                groups.setdefault((r["i"], r["s"]), []).extend(r["cs"])
    return roots, groups


_RE_GROUP = re.compile(r'^"\{\\"t\\":\\"cases\\",\\"i\\":(\d+),\\"s\\":(\d+)')


def split_enum(out_path: str, dest_dir: str):
    """Streaming variant for large runs: root records are parsed, the "cases" lines are appended
    unparsed to one file per (instance, spelling).  -> (roots, {(i,s): file})"""
    os.makedirs(dest_dir, exist_ok=True)
    roots, files, handles = {}, {}, {}
    with open(out_path, "r", errors="replace") as f:
        for line in f:
            if not line.startswith('"'):
                continue
            m = _RE_GROUP.match(line)
            if m:
                k = (int(m.group(1)), int(m.group(2)))
                h = handles.get(k)
                if h is None:
                    files[k] = os.path.join(dest_dir, f"cases-{k[0]}-{k[1]}.jl")
                    h = handles[k] = open(files[k], "w")
                h.write(line)
                continue
            try:
                r = json.loads(json.loads(line))
            except ValueError:
                continue
            if isinstance(r, dict) and r.get("t") == "root":
                roots[(r["i"], r["s"])] = r
    for h in handles.values():
        h.close()
    return roots, files


def load_cases(path: str):
    cases = []
    with open(path) as f:
        for line in f:
            cases.extend(json.loads(json.loads(line))["cs"])
    return cases


def parse_proto(out_path: str):
    roots, hists = {}, []
    with open(out_path, "r", errors="replace") as f:
        for line in f:
            if not line.startswith('"'):
                continue
            try:
                r = json.loads(json.loads(line))
            except ValueError:
                continue
            if isinstance(r, dict) and r.get("t") == "root":
                roots[(r["i"], r["s"])] = r
            elif isinstance(r, dict) and r.get("t") == "hist":
                hists.append(r)
    return roots, hists


# ------------------------------------------------------------------------------------------------
# strings and the file system


def render(comps, root: str) -> str:
    """Path string of the spec ("/"-separated pieces) with the component R (after leading
    separators only) replaced by the real instance root."""
    comps = list(comps)
    n = 0
    while n < len(comps) and comps[n] == "":
        n += 1
    if 0 < n < len(comps) and comps[n] == "R":
        comps[n] = root.lstrip("/")
    return "/".join(comps)


def phys(pcomps, root: str) -> str:
    """Real path of a physical path of the model (<<"R", ...>>; <<>> is "/")."""
    if not pcomps:
        return "/"
    if pcomps[0] == "R":
        return os.path.join(root, *pcomps[1:]) if len(pcomps) > 1 else root
    return "/" + "/".join(pcomps)


def canary(ino: int) -> bytes:
    return (b"C10-canary-%02d-" % ino).ljust(NBYTES, b"#")[:NBYTES]


def materialise(fs_entries, root: str):
    """Create the instance under `root`.  -> ({os inode: model ino}, {model ino: bytes})"""
    os.makedirs(root)
    first = {}
    for e in fs_entries:
        if e["k"] == "dir" and e["p"] and e["p"][0] == "R" and len(e["p"]) > 1:
            os.makedirs(phys(e["p"], root), exist_ok=True)
    for e in fs_entries:
        if e["k"] != "file":
            continue
        path = phys(e["p"], root)
        if e["ino"] in first:
            os.link(first[e["ino"]], path)
        else:
            with open(path, "wb") as f:
                f.write(canary(e["ino"]))
            first[e["ino"]] = path
    for e in fs_entries:
        if e["k"] == "link":
            os.symlink(render(e["to"], root), phys(e["p"], root))
    inomap = {os.stat(p).st_ino: ino for ino, p in first.items()}
    contents = {ino: canary(ino) for ino in first}
    # the model agrees with the real file system on link counts
    for ino, p in first.items():
        want = sum(1 for e in fs_entries if e["k"] == "file" and e["ino"] == ino)
        if os.stat(p).st_nlink != want:
            raise RuntimeError(f"materialise: st_nlink of {p} is {os.stat(p).st_nlink}, model says {want}")
    return inomap, contents, first


def check_environment(root: str, names) -> None:
    """The model's "/" has no child but R: none of the alphabet names may exist in an ancestor."""
    d = os.path.dirname(root)
    while True:
        for n in names:
            if n and n not in (".", "..") and os.path.lexists(os.path.join(d, n)):
                raise RuntimeError(f"environment: {os.path.join(d, n)} exists, the model assumes it does not")
        if d == "/":
            break
        d = os.path.dirname(d)
    if os.path.realpath(root) != root:
        raise RuntimeError(f"environment: instance root {root} is reached through a symbolic link")


# ------------------------------------------------------------------------------------------------
# audit hook (installed once per worker process)

_REC = None
_HOOKED = False


def _hook(event, args):
    if _REC is not None and event == "open":
        _REC.append(args[0])


def install_hook() -> None:
    global _HOOKED
    if not _HOOKED:
        sys.addaudithook(_hook)
        _HOOKED = True


# ------------------------------------------------------------------------------------------------
# reading


def _imports():
    import numpy as np
    import onnx
    import onnx_ir as ir

    return np, onnx, ir


def make_tensor(ir, loc: str, base: str):
    return ir.ExternalTensor(
        location=loc, offset=0, length=NBYTES, dtype=ir.DataType.UINT8,
        shape=ir.Shape([NBYTES]), name="t", base_dir=base,
    )


def read_entry(np, ir, t, entry: str, destf) -> bytes:
    """One read entry point; returns the bytes obtained."""
    if entry == "numpy":
        a = t.numpy()
        b = a.tobytes()
        del a
        return b
    if entry == "array":
        a = np.asarray(t)  # array protocol: __array__
        b = a.tobytes()
        del a
        return b
    if entry == "tobytes":
        return bytes(t.tobytes())
    if entry == "tofile_file":
        destf.seek(0)
        destf.truncate()
        t.tofile(destf)
        destf.flush()
        destf.seek(0)
        return destf.read()
    if entry == "tofile_mem":
        bio = io.BytesIO()
        t.tofile(bio)
        return bio.getvalue()
    if entry == "convert":
        mem = ir.external_data.convert_tensors_from_external([t])[0]
        return bytes(ir.serde.serialize_tensor(mem).raw_data)
    raise ValueError(entry)


def classify_exc(e: BaseException) -> str:
    if isinstance(e, OSError) and e.errno is not None:
        return errno.errorcode.get(e.errno, f"errno{e.errno}")
    msg = str(e)
    if isinstance(e, ValueError):
        if "multiple hard links" in msg:
            return "nlink"
        if "resolves via symlink" in msg:
            return "realpath"
        if "outside the base directory" in msg:
            return "lexical"
        if "invalidated" in msg:
            return "invalid"
    return "other:" + type(e).__name__


def observe(np, ir, t, entry, destf):
    """-> (kind 'acc'|'rej', bytes|None, why, [opened paths])"""
    global _REC
    _REC = []
    try:
        try:
            data = read_entry(np, ir, t, entry, destf)
            out = ("acc", data, "-")
        except Exception as e:  # noqa: BLE001 - every exception is a rejection
            out = ("rej", None, classify_exc(e))
    finally:
        opens, _REC = _REC, None
    return out + (opens,)


class Judge:
    """Classifies one observation against the specification's verdict."""

    def __init__(self, root, inomap, contents, legit, base_nonempty, route, spname, inst, sp):
        self.root, self.inomap, self.contents = root, inomap, contents
        self.bytes2ino = {v: k for k, v in contents.items()}
        self.legit, self.base_nonempty = set(legit), base_nonempty
        self.route, self.spname, self.inst, self.sp = route, spname, inst, sp
        self.violations = {}   # signature -> detail (entries aggregated)
        self.divergences = {}  # signature -> count
        self.samples = {}
        self._statcache = {}

    def _opened_ino(self, p):
        """model inode of a regular file reached by an opened path; 0: none/other; -1: unknown regular file"""
        if not isinstance(p, (str, bytes)):
            return 0
        if p in self._statcache:
            return self._statcache[p]
        try:
            st = os.stat(p)
        except OSError:
            r = 0
        else:
            import stat as _st

            r = self.inomap.get(st.st_ino, -1) if _st.S_ISREG(st.st_mode) else 0
        self._statcache[p] = r
        return r

    def _viol(self, sig, entry, case, locstr, msg, extra=None):
        d = self.violations.get(sig)
        if d is None:
            d = dict(
                message=msg, inst=self.inst, spelling=self.sp, spelling_name=self.spname, route=self.route,
                loc=case[0], location=locstr, spec=dict(k=case[1], f=case[2], why=case[3]), entries=[], cases=0,
            )
            if extra:
                d.update(extra)
            self.violations[sig] = d
        if entry not in d["entries"]:
            d["entries"].append(entry)
        d["cases"] += 1

    def _div(self, sig, case, entry, got):
        self.divergences[sig] = self.divergences.get(sig, 0) + 1
        if sig not in self.samples:
            self.samples[sig] = dict(inst=self.inst, spelling=self.sp, loc=case[0], entry=entry,
                                     spec=case[1:6], got=got)

    def judge(self, case, locstr, entry, obs, plain):
        loc, vk, vf, vwhy, of_, oerr, _rp = case
        kind, data, why, opens = obs
        tag = f"{self.route}:{self.spname}"
        # --- opened files: never a regular file that is not legitimate (base_dir non-empty) ---------
        opened = [self._opened_ino(p) for p in opens]
        if self.base_nonempty:
            for oi in opened:
                if oi != 0 and oi not in self.legit:
                    self._viol(f"C10:open-outside:{tag}:{vwhy}", entry, case, locstr,
                               f"{entry}: a file outside the base directory (model inode {oi}) was opened for location {locstr!r}",
                               dict(opened=oi))
        # --- returned bytes -----------------------------------------------------------------------
        if kind == "acc":
            ino = self.bytes2ino.get(data, -1)
            if self.base_nonempty and ino not in self.legit:
                self._viol(f"C10:escape:{tag}:{vwhy}", entry, case, locstr,
                           f"{entry}: location {locstr!r} returned the bytes of "
                           + (f"model inode {ino} ({data!r})" if ino != -1 else f"an unknown file ({data!r})")
                           + ", which is not a singly-linked regular file inside the base directory",
                           dict(got_ino=ino))
            elif vk == "acc" and vf == ino:
                pass
            elif not self.base_nonempty and ino == -1:
                self._div(f"DIV:bytes-unknown:{tag}", case, entry, repr(data))
            else:
                self._div(f"DIV:accept:{tag}:spec={vk}/{vwhy}", case, entry, ino)
        else:
            if vk == "acc":
                if plain and self.base_nonempty:
                    self._viol(f"C10:over-reject:{tag}:plain-name", entry, case, locstr,
                               f"{entry}: the plain location {locstr!r} inside the base directory was refused ({why})",
                               dict(got_why=why))
                else:
                    self._div(f"DIV:reject:{tag}:got={why}", case, entry, why)
            else:
                ok = why == vwhy or (vwhy == "dir" and why in ("nlink", "EISDIR"))
                if not ok:
                    self._div(f"DIV:reason:{tag}:spec={vwhy}:got={why}", case, entry, why)
        # --- opens predicted by the model: none when a layer rejects, one otherwise ----------------
        layer = vk == "rej" and vwhy in ("lexical", "realpath", "nlink", "invalid")
        if layer and opened:
            self._div(f"DIV:open-after-reject:{tag}:{vwhy}", case, entry, len(opened))
        if not layer and vwhy != "dir" and len(opened) != 1:
            self._div(f"DIV:open-count:{tag}:{vk}/{vwhy}:n={len(opened)}", case, entry, len(opened))


def is_plain(loc, fs_paths, base_phys):
    """Documented allowed case: only plain names, no link on the way (physical lookup)."""
    if not loc or any(c in ("", ".", "..") for c in loc):
        return False
    return tuple(base_phys + list(loc)) in fs_paths


# ------------------------------------------------------------------------------------------------
# one batch = one (instance, spelling) group, run in a worker process


# where the n-th external tensor of the model sits (PathContain.tla, Placements); position 0 of the cycle is the
# plain initializer so that single-tensor models (load_to_model path) keep their shape
PLACEMENTS = ["initializer", "node-attribute", "subgraph-initializer", "function-node-attribute",
              "tensors-attribute", "subgraph-node-attribute", "function-subgraph-initializer",
              "nested-subgraph-node-attribute", "nested-subgraph-initializer"]


def _ext_tensor_proto(onnx, name, loc):
    tp = onnx.TensorProto()
    tp.name = name
    tp.data_type = onnx.TensorProto.UINT8
    tp.dims.append(NBYTES)
    tp.data_location = onnx.TensorProto.EXTERNAL
    for k, v in (("location", loc), ("offset", "0"), ("length", str(NBYTES))):
        e = tp.external_data.add()
        e.key, e.value = k, v
    return tp


def build_model(onnx, locs, path, placements=True):
    """A model file whose n-th external tensor (name t<n>) sits at PLACEMENTS[n % 9] (all initializers when
    placements is False)."""
    h = onnx.helper
    by = {pl: [] for pl in PLACEMENTS}
    for n, loc in enumerate(locs):
        by[PLACEMENTS[n % len(PLACEMENTS)] if placements else "initializer"].append(_ext_tensor_proto(onnx, f"t{n}", loc))

    def consts(tps, pre):
        return [h.make_node("Constant", [], [f"{pre}_{tp.name}"], value=tp) for tp in tps]

    def body(name, nodes, inits=()):
        return h.make_graph(nodes + [h.make_node("Identity", ["a"], [f"{name}_o"])], name, [],
                            [h.make_tensor_value_info(f"{name}_o", onnx.TensorProto.UINT8, [NBYTES])], initializer=list(inits))

    nodes = consts(by["node-attribute"], "c")
    if by["tensors-attribute"]:
        nodes.append(h.make_node("Multi", [], ["multi_o"], domain="vf.custom", tensors=by["tensors-attribute"]))
    if (by["subgraph-initializer"] or by["subgraph-node-attribute"] or by["nested-subgraph-node-attribute"]
            or by["nested-subgraph-initializer"]):
        inner = body("inner", consts(by["nested-subgraph-node-attribute"], "n"), by["nested-subgraph-initializer"])
        then_nodes = consts(by["subgraph-node-attribute"], "s")
        if by["nested-subgraph-node-attribute"] or by["nested-subgraph-initializer"]:
            then_nodes.append(h.make_node("If", ["cond"], ["inner_if_o"], then_branch=inner, else_branch=body("inner_else", [])))
        nodes.append(h.make_node("If", ["cond"], ["if_o"], then_branch=body("then", then_nodes, by["subgraph-initializer"]),
                                 else_branch=body("else", [])))
    functions = []
    if by["function-node-attribute"] or by["function-subgraph-initializer"]:
        fnodes = consts(by["function-node-attribute"], "f")
        if by["function-subgraph-initializer"]:
            fnodes.append(h.make_node("If", ["cond"], ["fif_o"],
                                      then_branch=body("fthen", [], by["function-subgraph-initializer"]),
                                      else_branch=body("felse", [])))
        fnodes.append(h.make_node("Identity", ["a"], ["fo"]))
        functions.append(h.make_function("vf.local", "F", ["a", "cond"], ["fo"], fnodes, [h.make_opsetid("", 20)]))
        nodes.append(h.make_node("F", ["a", "cond"], ["f_o"], domain="vf.local"))
    graph = h.make_graph(nodes, "g",
                         [h.make_tensor_value_info("a", onnx.TensorProto.UINT8, [NBYTES]),
                          h.make_tensor_value_info("cond", onnx.TensorProto.BOOL, [])],
                         [], initializer=by["initializer"])
    model = h.make_model(graph, opset_imports=[h.make_opsetid("", 20), h.make_opsetid("vf.custom", 1),
                                               h.make_opsetid("vf.local", 1)], functions=functions)
    model.ir_version = 10
    with open(path, "wb") as f:
        f.write(model.SerializeToString())


def model_tensors(ir, model):
    """Every tensor object of a loaded model by name -> (tensor, placement), found by the harness's own walk over
    graphs, node attributes (TENSOR, TENSORS, GRAPH, GRAPHS) and functions."""
    found = {}

    def graph(g, where, depth):
        for v in (g.initializers.values() if hasattr(g, "initializers") else ()):
            if v.const_value is not None:
                found[v.const_value.name] = (v.const_value, where + ("nested-subgraph-" if depth > 1 else "subgraph-" if depth else "")
                                             + "initializer")
        for node in g:
            for a in node.attributes.values():
                if a.is_ref() or a.value is None:
                    continue
                pre = where + ("nested-subgraph-" if depth > 1 else "subgraph-" if depth else "")
                if a.type == ir.AttributeType.TENSOR:
                    found[a.value.name] = (a.value, pre + "node-attribute")
                elif a.type == ir.AttributeType.TENSORS:
                    for t in a.value:
                        found[t.name] = (t, pre + "tensors-attribute" if depth else where + "tensors-attribute")
                elif a.type == ir.AttributeType.GRAPH:
                    graph(a.value, where, depth + 1)
                elif a.type == ir.AttributeType.GRAPHS:
                    for sg in a.value:
                        graph(sg, where, depth + 1)

    graph(model.graph, "", 0)
    for fn in model.functions.values():
        graph(fn, "function-", 0)
    return found


def run_batch(task):
    """task: dict(root_rec, cases, workdir, entries, env_check). Returns a result dict."""
    install_hook()
    np, onnx, ir = _imports()
    rr, workdir = task["root"], task["workdir"]
    cases = task["cases"] if "cases" in task else load_cases(task["cases_file"])
    inst, sp = rr["i"], rr["s"]
    root = os.path.join(workdir, f"i{inst}s{sp}")
    res = dict(key=[inst, sp], evaluations=0, reads=0, violations={}, divergences={}, samples={}, env=0,
               kinds={}, error=None, loadbase=None)
    cwd0 = os.getcwd()
    try:
        inomap, contents, first = materialise(rr["fs"], root)
        check_environment(root, rr["units"])
        cwd = phys(rr["cwd"], root)
        os.chdir(cwd)
        route = rr["route"]
        expected_base = render(rr["b"], root)
        base_phys = None
        # legit per the OS (cross-check of the model's file system): files strictly inside realpath(base), nlink 1
        if expected_base:
            rb = os.path.realpath(expected_base)
            os_legit = set()
            for ino, p in first.items():
                allp = [phys(e["p"], root) for e in rr["fs"] if e["k"] == "file" and e["ino"] == ino]
                if len(allp) == 1 and allp[0].startswith(rb + os.sep):
                    os_legit.add(ino)
            if os_legit != set(rr["legit"]):
                raise RuntimeError(f"legit set: model {sorted(rr['legit'])}, file system {sorted(os_legit)}")
            base_phys = [c for c in os.path.relpath(rb, root).split(os.sep)]
            base_phys = ["R"] + ([] if base_phys == ["."] else base_phys)
        fs_paths = {tuple(e["p"]) for e in rr["fs"] if e["k"] == "file"}
        destpath = os.path.join(workdir, f"dest-{inst}-{sp}.bin")
        destf = open(destpath, "w+b")
        locstrs = [render(c[0], root) for c in cases]
        base_nonempty = True if route == "load" else bool(expected_base)
        judge = Judge(root, inomap, contents, rr["legit"], base_nonempty, route, rr["name"], inst, sp)

        # ---- environment model: the spec's kernel walk and realpath against the real ones ---------
        if task.get("env_check", True):
            for c, ls in zip(cases, locstrs):
                joined = os.path.join(expected_base, ls)
                want_rp = phys(c[6], root)
                got_rp = os.path.realpath(joined)
                try:
                    fd = os.open(joined, os.O_RDONLY)
                except OSError as e:
                    got = (0, errno.errorcode.get(e.errno, str(e.errno)))
                else:
                    st = os.fstat(fd)
                    import stat as _st

                    got = (inomap.get(st.st_ino, -1), "-") if _st.S_ISREG(st.st_mode) else (0, "EISDIR")
                    os.close(fd)
                if c[6] and c[6][0] == "R":
                    rp_ok = got_rp == want_rp
                else:  # above the instance root the model is abstract ("/" has no child but R)
                    rp_ok = got_rp != root and not got_rp.startswith(root + os.sep)
                if got != (c[4], c[5]) or not rp_ok:
                    res["env"] += 1
                    if res["error"] is None:
                        res["error"] = (f"environment model mismatch inst={inst} sp={sp} path={joined!r}: kernel {got} vs spec "
                                        f"{(c[4], c[5])}; realpath {got_rp!r} vs spec {want_rp!r}")
            if res["env"]:
                return res

        entries = task.get("entries", ENTRIES)
        rotate = task.get("rotate_boring", False)

        def entries_for(n, c):
            """quick tier: configurations where the check passes and open() fails for a missing
            component get one _load-based and one tofile-based entry point, rotating"""
            if rotate and c[1] == "rej" and c[3] in ("ENOENT", "ENOTDIR"):
                return ROTATION[n % 3]
            return entries

        if route == "direct":
            for n, (c, ls) in enumerate(zip(cases, locstrs)):
                plain = base_phys is not None and is_plain(c[0], fs_paths, base_phys)
                for entry in entries_for(n, c):
                    t = make_tensor(ir, ls, expected_base)
                    obs = observe(np, ir, t, entry, destf)
                    judge.judge(c, ls, entry, obs, plain)
                    del t
                    res["reads"] += 1
                k = f"{c[1]}/{c[3]}"
                res["kinds"][k] = res["kinds"].get(k, 0) + 1
                res["evaluations"] += 1
        else:
            mp = render(rr["mp"], root)
            mfile = os.path.join(root, "base", "m.onnx")
            build_model(onnx, locstrs, mfile)
            # the base directory the loader derives, for every tensor of the model wherever it sits
            model = ir.load(mp)
            found = model_tensors(ir, model)
            if len(found) != len(cases):
                raise RuntimeError(f"loaded model has {len(found)} tensors, built with {len(cases)}")
            model_dir = os.path.join(root, "base")
            got_bases, bad_pl = set(), set()
            for nm, (t, pl) in found.items():
                want_pl = PLACEMENTS[int(nm[1:]) % len(PLACEMENTS)]
                if pl != want_pl:
                    raise RuntimeError(f"tensor {nm} found at {pl}, built at {want_pl}")
                gb = str(t.base_dir)
                got_bases.add(gb)
                if gb == "" or os.path.realpath(gb) != model_dir:
                    bad_pl.add(pl)
            lb = dict(mp=mp, got=sorted(got_bases), want=expected_base, ok=not bad_pl, placements=sorted(bad_pl))
            lb["same_spelling"] = got_bases == {expected_base}
            res["loadbase"] = lb
            base_phys = ["R", "base"]
            for entry in entries:
                model = ir.load(mp)
                found = model_tensors(ir, model)
                if len(found) != len(cases):
                    raise RuntimeError("loaded model lost tensors")
                for n, (c, ls) in enumerate(zip(cases, locstrs)):
                    if entry not in entries_for(n, c):
                        continue
                    t = found[f"t{n}"][0]
                    if not isinstance(t, ir.ExternalTensor) or str(t.location) != ls:
                        raise RuntimeError(f"loaded tensor for {ls!r} is {t!r}")
                    plain = is_plain(c[0], fs_paths, base_phys)
                    obs = observe(np, ir, t, entry, destf)
                    judge.judge(c, ls, entry, obs, plain)
                    res["reads"] += 1
                del model, found
            for c in cases:
                k = f"{c[1]}/{c[3]}"
                res["kinds"][k] = res["kinds"].get(k, 0) + 1
            res["evaluations"] += len(cases)
            # ---- the genuine load_to_model + serialize_model path on single-initializer models -----
            small = [(c, ls) for c, ls in zip(cases, locstrs) if len(c[0]) <= 1 or c[0] in task.get("l2m_extra", [])]
            for c, ls in small:
                build_model(onnx, [ls], mfile, placements=False)
                model = ir.load(mp)
                global _REC
                _REC = []
                try:
                    try:
                        ir.external_data.load_to_model(model)
                        proto = ir.serde.serialize_model(model)
                        out = ("acc", bytes(proto.graph.initializer[0].raw_data), "-")
                    except Exception as e:  # noqa: BLE001
                        out = ("rej", None, classify_exc(e))
                finally:
                    opens, _REC = _REC, None
                opens = [p for p in opens if not (isinstance(p, str) and p.endswith("m.onnx"))]
                judge.judge(c, ls, "load_to_model", out + (opens,), is_plain(c[0], fs_paths, base_phys))
                res["reads"] += 1
                del model
        destf.close()
        res["violations"], res["divergences"], res["samples"] = judge.violations, judge.divergences, judge.samples
        lb = res["loadbase"]
        if lb is not None and not lb["ok"]:
            # the loader derived a base_dir that is not the model's directory: every difference of
            # this group follows from that one violation, it says nothing about the model
            res["consequential"] = sum(judge.divergences.values())
            res["divergences"], res["samples"] = {}, {}
    except Exception as e:  # noqa: BLE001 - reported as machinery failure by the parent
        import traceback

        res["error"] = f"batch inst={inst} sp={sp}: {type(e).__name__}: {e}\n{traceback.format_exc()[-1500:]}"
    finally:
        os.chdir(cwd0)
        shutil.rmtree(root, ignore_errors=True)
    return res


# ------------------------------------------------------------------------------------------------
# protocol replay: one task = a list of histories over the same (instance, initial spelling)


def run_proto(task):
    install_hook()
    np, onnx, ir = _imports()
    rr, hists, workdir = task["root"], task["hists"], task["workdir"]
    inst, sp = rr["i"], rr["s"]
    root = os.path.join(workdir, f"p{inst}s{sp}")
    res = dict(key=[inst, sp], histories=0, steps=0, violations={}, divergences={}, samples={}, error=None, kinds={})
    cwd0 = os.getcwd()
    try:
        inomap, contents, first = materialise(rr["fs"], root)
        os.chdir(phys(rr["cwd"], root))
        spells = rr["spells"]
        bytes2ino = {v: k for k, v in contents.items()}
        destf = open(os.path.join(workdir, f"pdest-{inst}-{sp}.bin"), "w+b")
        legit_cache = {}

        def legit_of(bstr):
            if bstr not in legit_cache:
                rb = os.path.realpath(bstr)
                s = set()
                for ino in first:
                    allp = [phys(e["p"], root) for e in rr["fs"] if e["k"] == "file" and e["ino"] == ino]
                    if len(allp) == 1 and allp[0].startswith(rb + os.sep):
                        s.add(ino)
                legit_cache[bstr] = s
            return legit_cache[bstr]

        import stat as _st

        for h in hists:
            ls = render(h["l"], root)
            t = make_tensor(ir, ls, render(rr["b"], root))
            checked = set()  # (base string, ino) read through a checked open so far
            for n, st in enumerate(h["h"]):
                call, want = st["c"], st["r"]
                global _REC
                _REC = []
                got = None
                try:
                    try:
                        if call in ENTRIES:
                            data = read_entry(np, ir, t, call, destf)
                            got = ("acc", bytes2ino.get(data, -1), "-")
                        elif call == "release":
                            t.release()
                            got = ("ok", 0, "-")
                        elif call == "invalidate":
                            t.invalidate()
                            got = ("ok", 0, "-")
                        elif call == "setbase":
                            t.base_dir = render(spells[st["a"] - 1]["b"], root)
                            got = ("ok", 0, "-")
                        else:
                            raise RuntimeError(f"unknown call {call}")
                    except RuntimeError:
                        raise
                    except Exception as e:  # noqa: BLE001
                        got = ("rej", 0, classify_exc(e))
                finally:
                    opens, _REC = _REC, None
                res["steps"] += 1
                k = f"{call}|{want['k']}/{want['why']}|{'cached' if not st['ev'] and want['k'] == 'acc' else len(st['ev'])}"
                res["kinds"][k] = res["kinds"].get(k, 0) + 1
                opened = []
                for p in opens:
                    try:
                        s_ = os.stat(p)
                        opened.append(inomap.get(s_.st_ino, -1) if _st.S_ISREG(s_.st_mode) else 0)
                    except (OSError, TypeError, ValueError):
                        opened.append(0)
                want_open = [e["f"] for e in st["ev"] if e["e"] == "open"]
                bstr = str(t.base_dir)
                ctxd = dict(inst=inst, spelling=sp, loc=h["l"], location=ls, step=n + 1,
                            history=[[x["c"], x["a"]] for x in h["h"][: n + 1]], hist=h["h"][: n + 1], spec=want, got=list(got),
                            opened=opened, spec_opened=want_open)
                # property: an open of a regular file that is not legitimate for the current non-empty base
                if bstr:
                    for oi in opened:
                        if oi != 0 and oi not in legit_of(bstr):
                            sig = f"C10:open-outside:protocol:{call}:{want['why']}"
                            res["violations"].setdefault(sig, dict(ctxd, message=f"history step {n + 1} ({call}) opened a file outside the current base directory"))
                for oi in opened:
                    if oi > 0:
                        checked.add((bstr, oi))
                # property: returned bytes come from a file that was legitimately opened under some base
                if got[0] == "acc":
                    ok_src = any(oi == got[1] and (b == "" or got[1] in legit_of(b)) for b, oi in checked)
                    if not ok_src:
                        sig = f"C10:escape:protocol:{call}:{want['why']}"
                        res["violations"].setdefault(sig, dict(ctxd, message=f"history step {n + 1} ({call}) returned bytes of model inode {got[1]} that never passed a containment check"))
                # conformance with the model: outcome and opened files
                if (got[0], got[1]) != (want["k"], want["f"]) or (got[0] == "rej" and got[2] != want["why"]
                                                                   and not (want["why"] == "dir" and got[2] in ("nlink", "EISDIR"))):
                    sig = f"DIV:protocol:{call}:spec={want['k']}/{want['why']}:got={got[0]}/{got[2]}"
                    res["divergences"][sig] = res["divergences"].get(sig, 0) + 1
                    res["samples"].setdefault(sig, ctxd)
                    break  # the real object left the model's state: stop this history
                if [o for o in opened] != [f for f in want_open]:
                    sig = f"DIV:protocol-opens:{call}:spec={want_open}:got={opened}"
                    res["divergences"][sig] = res["divergences"].get(sig, 0) + 1
                    res["samples"].setdefault(sig, ctxd)
            res["histories"] += 1
            try:
                t.release()
            except Exception:  # noqa: BLE001
                pass
            del t
        destf.close()
    except Exception as e:  # noqa: BLE001
        import traceback

        res["error"] = f"protocol inst={inst} sp={sp}: {type(e).__name__}: {e}\n{traceback.format_exc()[-1500:]}"
    finally:
        os.chdir(cwd0)
        shutil.rmtree(root, ignore_errors=True)
    return res
