"""Binding for Rewrite.tla: abstract program  <->  real ONNX model.

concretize(P)  : abstract program (as emitted by RewriteMC) -> checker-valid onnx.ModelProto
abstract(model): real ir.Model -> abstract program in the same JSON shape (positional references,
                 attribute pairs with schema defaults removed, constants as content tokens)
"""

from __future__ import annotations

import hashlib

import numpy as np
import onnx
import onnx.defs
import onnx_ir as ir
from onnx import TensorProto, helper, numpy_helper

OPSET = 20
OPSETS = (20, 17)     # the default-domain operator set version rotates over the programs (per-version schemas differ:
                      # Split has num_outputs from 18, Cast has saturate from 19)


def opset_of(variant: int) -> int:
    return OPSETS[(variant // 2) % len(OPSETS)]
LOCAL = "local"
CONSTS = {
    "c1": np.array([[1.0, 2.0]], dtype=np.float32),
    "c2": np.array([[3.0, 4.0]], dtype=np.float32),
    "s1": np.array(5.0, dtype=np.float32),
    # per-channel parameters of the normalisation operators (rank 1)
    "b1": np.array([1.5, 0.5], dtype=np.float32),
    # two integer constants with identical bytes and shape, different element types
    "k1": np.array([[-1, 1]], dtype=np.int8),
    "k2": np.array([[255, 1]], dtype=np.uint8),
}
EXTRA_DOMAINS = {"ai.onnx.ml": 3}
IN_SHAPE = [1, 2]     # every value is a rank-2 tensor [1, 2] (so that BatchNormalization applies) except the scalar s1,
                      # the per-channel parameters b1 and the running statistics BatchNormalization returns (rank 1)


def _tok_of_array(a: np.ndarray, dtype_name: str) -> str:
    for k, v in CONSTS.items():
        if a.dtype == v.dtype and a.shape == v.shape and a.tobytes() == v.tobytes():
            return k
    return f"c:{dtype_name}:{list(a.shape)}:{hashlib.sha1(a.tobytes()).hexdigest()[:10]}"


# ---------------------------------------------------------------------------------------------
# abstract -> concrete
# ---------------------------------------------------------------------------------------------
class _Namer:
    """Value names. With `collide` the values local to function bodies and to control-flow bodies
    share one short naming scheme (legal: a function body is its own namespace, sibling bodies are
    separate scopes), which is what exposes renaming/inlining mistakes."""

    def __init__(self, P, collide: bool = False, reverse_bodies: bool = False):
        self.P = P
        self.collide = collide
        self.reverse_bodies = reverse_bodies
        self.fbodies = {f["body"] for f in P["f"]}
        # then/else bodies of the same If must not collide with each other's enclosing scope, only
        # with function-internal names: then-bodies use the scheme, else-bodies stay unique
        self.then_bodies = {n["subs"][0] for g in P["g"] for n in g["nodes"] if n["subs"]}
        # the second main-graph input is called "w" too in the colliding variant - the name of the initializers of the
        # control-flow bodies (an inner initializer may shadow an outer input) - unless a body captures that input,
        # which the shadowing name would then hide from it
        nf = len(P["f"])
        bodies = [g for k, g in enumerate(P["g"], start=1) if k != 1 and k not in self.fbodies]
        captured = any(tuple(r[:3]) == ("in", 1, 2) for g in bodies for n in g["nodes"] for r in n["ins"]) or \
            any(tuple(r[:3]) == ("in", 1, 2) for g in bodies for r in g["outs"])
        self.in2 = "w" if (collide and any(g["inits"] for g in bodies) and not captured) else "in2"

    def out(self, g, i, o) -> str:
        if self.collide and (g in self.fbodies or g in self.then_bodies):
            return f"t{i}_{o}"
        if self.collide and g == 1:
            # main-graph values named like the names a pass derives from "w" (w_1, w_2, ...): the initializers of
            # the control-flow bodies are all called "w" in this variant (sibling scopes may repeat a name)
            return f"w_{i}" if o == 1 else f"w_{i}_{o}"
        return f"g{g}_n{i}_o{o}"

    def ref(self, r) -> str:
        kind, g, i, o = r
        if kind == "none":
            return ""
        if kind == "in":
            if g == 1:
                return ["in1", self.in2, "cond"][i - 1]
            return f"g{g}_x{i}"
        if kind == "init":
            if self.collide and g != 1 and g not in self.fbodies and i == 1:
                return "w"
            return f"g{g}_init{i}"
        return self.out(g, i, o)


def _attrs(node, variant: int):
    """Concrete attributes of an abstract node."""
    op = node["op"]
    out = {}
    if op == "Constant":
        arr = CONSTS[node["attr"][0][1]]
        if variant % 2 == 0 or arr.ndim != 1 or arr.dtype != np.float32:
            out["value"] = numpy_helper.from_array(arr, name="")
        else:
            out["value_floats"] = [float(x) for x in arr]
    elif not node["fn"]:
        if op == "Split" and opset_of(variant_of_model[0]) >= 18:
            out["num_outputs"] = 2
        for name, val in node["attr"]:      # plain attributes of the other operators (integers or floats)
            if isinstance(val, str) and not val.startswith("@"):
                out[name] = int(val) if val.lstrip("-").isdigit() else float(val)
    return out


def _split_op(op: str):
    """'domain::Op' -> (domain, Op); operators of the default domain have no prefix."""
    return tuple(op.split("::", 1)) if "::" in op else ("", op)


def _dtype_of_ref(P, r) -> int:
    """Element type of a referenced value: float everywhere except the typed constants."""
    if r[0] == "out":
        n = P["g"][r[1] - 1]["nodes"][r[2] - 1]
        if n["op"] == "Constant":
            return helper.np_dtype_to_tensor_dtype(CONSTS[n["attr"][0][1]].dtype)
    return TensorProto.FLOAT


def _rank_of_ref(P, r) -> int:
    if r[0] == "out":
        n = P["g"][r[1] - 1]["nodes"][r[2] - 1]
        if n["op"] == "BatchNormalization" and r[3] > 1:
            return 1
    if r[0] == "init":
        return CONSTS[P["g"][r[1] - 1]["inits"][r[2] - 1]].ndim
    return 2


def _vinfo(P, nm, r):
    return helper.make_tensor_value_info(nm.ref(r), _dtype_of_ref(P, r), [None] * _rank_of_ref(P, r))


def _domains_of(P, gid) -> set:
    ds = set()
    for n in P["g"][gid - 1]["nodes"]:
        if n["fn"]:
            ds.add(LOCAL)
        elif "::" in n["op"]:
            ds.add(n["op"].split("::", 1)[0])
        for sg in n["subs"]:
            ds |= _domains_of(P, sg)
    return ds


def _make_nodes(P, gid, nm: _Namer, variant: int, in_function: bool):
    nodes = []
    for i, n in enumerate(P["g"][gid - 1]["nodes"], start=1):
        ins = [nm.ref(r) for r in n["ins"]]
        while ins and ins[-1] == "":
            ins.pop()
        omitted = {int(v) for k, v in n["attr"] if k == "__omit"}      # outputs the call leaves unnamed
        outs = ["" if o in omitted else nm.out(gid, i, o) for o in range(1, n["nout"] + 1)]
        kw = _attrs(n, variant + i)
        domain, opname = _split_op(n["op"])
        if n["fn"]:
            domain = LOCAL
            for name, val in n["attr"]:
                if name != "__omit":
                    kw[name] = float(val)
        if n["op"] == "If":
            kw["then_branch"] = _make_graph(P, n["subs"][0], nm, variant)
            kw["else_branch"] = _make_graph(P, n["subs"][1], nm, variant)
        node = helper.make_node(opname, ins, outs, name=f"g{gid}_node{i}", domain=domain, **kw)
        for name, val in n["attr"]:
            if isinstance(val, str) and val.startswith("@") and not n["fn"]:
                a = node.attribute.add()
                a.name = name
                a.ref_attr_name = val[1:]
                a.type = onnx.AttributeProto.FLOAT
        nodes.append(node)
    return nodes


def _make_graph(P, gid, nm: _Namer, variant: int):
    g = P["g"][gid - 1]
    nodes = _make_nodes(P, gid, nm, variant, False)
    if nm.reverse_bodies:
        nodes = list(reversed(nodes))     # an unsorted nested body (input for the sorting pass only)
    outs = [_vinfo(P, nm, r) for r in g["outs"]]
    inits = [numpy_helper.from_array(CONSTS[t], name=nm.ref(("init", gid, k, 0))) for k, t in enumerate(g["inits"], start=1)]
    return helper.make_graph(nodes, f"graph{gid}", [], outs, initializer=inits)


variant_of_model = [0]     # the variant of the model being concretised (read by _attrs for version-dependent attributes)


def concretize(P: dict, variant: int = 0, reverse_bodies: bool = False) -> onnx.ModelProto:
    variant_of_model[0] = variant
    opset = opset_of(variant)
    nm = _Namer(P, collide=(variant % 3 == 1), reverse_bodies=reverse_bodies)
    main = P["g"][0]
    nodes = _make_nodes(P, 1, nm, variant, False)
    inputs = [
        helper.make_tensor_value_info("in1", TensorProto.FLOAT, IN_SHAPE),
        helper.make_tensor_value_info(nm.in2, TensorProto.FLOAT, IN_SHAPE),
        helper.make_tensor_value_info("cond", TensorProto.BOOL, []),
    ]
    # a graph output may alias an input/initializer directly (valid ONNX); duplicates are kept
    outs = [_vinfo(P, nm, r) for r in main["outs"]]
    inits = [numpy_helper.from_array(CONSTS[t], name=f"g1_init{k}") for k, t in enumerate(main["inits"], start=1)]
    if variant % 4 == 2 and inits:
        # the first initializer is also a graph input: callers may override it (IR version >= 4)
        inputs.append(helper.make_tensor_value_info(inits[0].name, TensorProto.FLOAT, list(inits[0].dims)))
    graph = helper.make_graph(nodes, "main", inputs, outs, initializer=inits, doc_string="corpus program")
    for node in graph.node[:1]:
        node.doc_string = "first node"
        node.metadata_props.add(key="vf.tag", value="n1")
    funcs = []
    for fi, f in enumerate(P["f"], start=1):
        body = P["g"][f["body"] - 1]
        fnodes = _make_nodes(P, f["body"], nm, variant, True)
        fn = helper.make_function(
            LOCAL, f"F{fi}", [f"g{f['body']}_x{k}" for k in range(1, f["nin"] + 1)], [nm.ref(r) for r in body["outs"]],
            fnodes, opset_imports=[helper.make_opsetid("", opset)] + [
                helper.make_opsetid(d, 1 if d == LOCAL else EXTRA_DOMAINS[d]) for d in sorted(_domains_of(P, f["body"]))],
            attributes=sorted({v[1:] for n in body["nodes"] for _, v in n["attr"] if isinstance(v, str) and v.startswith("@")}),
        )
        funcs.append(fn)
    model = helper.make_model(graph, opset_imports=[helper.make_opsetid("", opset), helper.make_opsetid(LOCAL, 1)] + [
                                  helper.make_opsetid(d, EXTRA_DOMAINS[d]) for d in sorted(_domains_of(P, 1) - {LOCAL})],
                              functions=funcs, ir_version=10, producer_name="vf")
    return model


# ---------------------------------------------------------------------------------------------
# concrete -> abstract
# ---------------------------------------------------------------------------------------------
_DEFAULT_CACHE: dict = {}


def _schema_defaults(op_type: str, domain: str, version: int) -> dict:
    key = (op_type, domain, version)
    if key not in _DEFAULT_CACHE:
        d = {}
        try:
            schema = onnx.defs.get_schema(op_type, version, domain)
            for name, a in schema.attributes.items():
                if a.default_value is not None and a.default_value.type != onnx.AttributeProto.UNDEFINED:
                    d[name] = helper.get_attribute_value(a.default_value)
        except Exception:  # noqa: BLE001 - unknown op: no defaults
            pass
        _DEFAULT_CACHE[key] = d
    return _DEFAULT_CACHE[key]


def _attr_value_str(attr: ir.Attr) -> str:
    t = attr.type
    if t == ir.AttributeType.TENSOR:
        ten = attr.value
        return "t:" + _tok_of_array(ten.numpy(), ten.dtype.name)
    v = attr.value
    if isinstance(v, float):
        return repr(float(np.float32(v)))
    if isinstance(v, (list, tuple)):
        return "[" + ",".join(repr(float(np.float32(x))) if isinstance(x, float) else repr(x) for x in v) + "]"
    if isinstance(v, bytes):
        return v.decode("utf8", "replace")
    return repr(v) if not isinstance(v, str) else v


def _const_token(node: ir.Node):
    """Content token of a Constant node, whatever attribute form it uses."""
    a = node.attributes
    if "value" in a:
        t = a["value"].value
        return _tok_of_array(t.numpy(), t.dtype.name)
    if "value_floats" in a:
        return _tok_of_array(np.array(a["value_floats"].value, dtype=np.float32), "FLOAT")
    if "value_float" in a:
        return _tok_of_array(np.array(a["value_float"].value, dtype=np.float32), "FLOAT")
    if "value_ints" in a:
        return _tok_of_array(np.array(a["value_ints"].value, dtype=np.int64), "INT64")
    if "value_int" in a:
        return _tok_of_array(np.array(a["value_int"].value, dtype=np.int64), "INT64")
    return "c:?"


class Abstractor:
    def __init__(self, model: ir.Model):
        self.model = model
        self.graphs: list = []      # ir graphs in id order (index+1 = gid)
        self.gid: dict = {}
        self.P = {"nin": 0, "g": [], "f": []}
        self.vref: dict = {}        # id(value) -> ref
        self.opset = model.graph.opset_imports.get("", OPSET)

    def _alloc(self, graph) -> int:
        self.graphs.append(graph)
        self.gid[id(graph)] = len(self.graphs)
        self.P["g"].append({"nodes": [], "outs": [], "inits": []})
        return len(self.graphs)

    def run(self) -> dict:
        m = self.model
        main = self._alloc(m.graph)
        fids = {}
        fgraphs = []
        for k, (ident, fn) in enumerate(m.functions.items(), start=1):
            gid = self._alloc(fn)
            fids[ident] = k
            fgraphs.append((fn, gid))
            self.P["f"].append({"body": gid, "nin": len(fn.inputs)})
        self.fids = fids
        # (graph ids: main graph, function bodies, graphs nested in function bodies, graphs nested in the main graph -
        # the order in which RewriteMC builds a program)
        for fn, gid in fgraphs:
            self._declare(fn, gid, is_main=False)
        self._declare(m.graph, main, is_main=True)
        self._fill(m.graph, main)
        for fn, gid in fgraphs:
            self._fill(fn, gid)
        return self.P

    def _declare(self, graph, gid, is_main):
        """Give every value defined by the graph (recursively) its reference."""
        k = 0
        inits = getattr(graph, "initializers", {})
        init_ids = {id(v) for v in inits.values()}
        for v in graph.inputs:
            if id(v) in init_ids:
                continue
            k += 1
            self.vref[id(v)] = ["in", gid, k, 0]
        if is_main:
            self.P["nin"] = k
        for j, v in enumerate(inits.values(), start=1):
            self.vref[id(v)] = ["init", gid, j, 0]
            cv = v.const_value
            tok = "c:none" if cv is None else _tok_of_array(cv.numpy(), cv.dtype.name)
            if is_main and v.is_graph_input():
                # an initializer listed as graph input can be overridden by the caller: it denotes its own
                # (named) default, not the bare constant
                tok = f"ovr:{v.name}:{tok}"
            self.P["g"][gid - 1]["inits"].append(tok)
        for i, n in enumerate(graph, start=1):
            for o, v in enumerate(n.outputs, start=1):
                self.vref[id(v)] = ["out", gid, i, o]
        # nested graphs get ids in traversal order
        for n in graph:
            for a in self._graph_attrs(n):
                if a.type == ir.AttributeType.GRAPH:
                    self._declare(a.value, self._alloc(a.value), False)
                elif a.type == ir.AttributeType.GRAPHS:
                    for sg in a.value:
                        self._declare(sg, self._alloc(sg), False)

    @staticmethod
    def _graph_attrs(n):
        attrs = [a for a in n.attributes.values() if a.type in (ir.AttributeType.GRAPH, ir.AttributeType.GRAPHS)]
        if n.op_type == "If" and n.domain == "" and "then_branch" in n.attributes and "else_branch" in n.attributes:
            return [n.attributes["then_branch"], n.attributes["else_branch"]]
        return sorted(attrs, key=lambda a: a.name)

    def _ref(self, v):
        if v is None:
            return ["none", 0, 0, 0]
        return self.vref.get(id(v), ["dangling", 0, 0, 0])

    def _fill(self, graph, gid):
        G = self.P["g"][gid - 1]
        for n in graph:
            subs = []
            pairs = []
            fn = self.fids.get(n.op_identifier(), 0)
            defaults = {} if fn else _schema_defaults(n.op_type, n.domain, n.version or self.opset)
            for name in sorted(n.attributes):
                a = n.attributes[name]
                if a.type == ir.AttributeType.GRAPH:
                    subs.append(self.gid[id(a.value)])
                    continue
                if a.type == ir.AttributeType.GRAPHS:
                    subs.extend(self.gid[id(sg)] for sg in a.value)
                    continue
                if a.is_ref():
                    pairs.append([name, "@" + a.ref_attr_name])
                    continue
                if n.op_type == "Constant" and n.domain == "":
                    continue
                if n.op_type == "Split" and n.domain == "" and name == "num_outputs":
                    continue   # determined by the number of outputs
                if name in defaults and _same_default(a, defaults[name]):
                    continue
                pairs.append([name, _attr_value_str(a)])
            if n.op_type == "If" and n.domain == "":
                # order then/else
                subs = [self.gid[id(n.attributes["then_branch"].value)], self.gid[id(n.attributes["else_branch"].value)]]
            if n.op_type == "Constant" and n.domain == "":
                pairs = [["const", _const_token(n)]]
            if fn:
                pairs = [["__omit", str(o)] for o, v in enumerate(n.outputs, start=1) if not v.name] + pairs
            ins = [self._ref(v) for v in n.inputs]
            while ins and ins[-1][0] == "none":
                ins.pop()
            G["nodes"].append({"op": n.op_type if n.domain in ("", LOCAL) else f"{n.domain}::{n.op_type}", "attr": pairs, "ins": ins,
                               "nout": len(n.outputs), "subs": subs, "fn": fn})
            for sgid in subs:
                self._fill(self.graphs[sgid - 1], sgid)
        G["outs"] = [self._ref(v) for v in graph.outputs]


def _same_default(attr: ir.Attr, default) -> bool:
    v = attr.value
    try:
        if isinstance(default, bytes):
            default = default.decode()
        if isinstance(v, float) or isinstance(default, float):
            return float(np.float32(v)) == float(np.float32(default))
        if isinstance(v, (list, tuple)):
            return list(v) == list(default)
        return v == default
    except Exception:  # noqa: BLE001
        return False


def abstract(model: ir.Model) -> dict:
    return Abstractor(model).run()


def strip_overridable(P: dict) -> dict:
    """Abstraction with 'overridable initializer' tokens reduced to their content (for comparing with a generated program)."""
    import copy

    Q = copy.deepcopy(P)
    for g in Q["g"]:
        g["inits"] = [t.split(":", 2)[2] if t.startswith("ovr:") else t for t in g["inits"]]
    return Q


def trim_trailing_none(P: dict) -> dict:
    """Normal form used when comparing a generated program with the abstraction of its concretisation."""
    import copy

    Q = copy.deepcopy(P)
    for g in Q["g"]:
        for n in g["nodes"]:
            n["ins"] = [list(r) for r in n["ins"]]
            while n["ins"] and n["ins"][-1][0] == "none":
                n["ins"].pop()
            n["attr"] = [list(p) for p in n["attr"]]
        g["outs"] = [list(r) for r in g["outs"]]
    return Q
