"""C15 part A - binding of the name-authority model (specs/names/Names.tla, prefix A) to the real
ir.Graph / ir.Function / ir.Node / ir.Value objects.

spec -> code : every transition TLC explored (history of calls + predicted names) is re-executed
               from scratch through the public API and the observable names are compared.
code -> spec : long seeded random call sequences are executed on the real objects, one event per
               call is logged, and NamesAuthTrace.tla validates the log (TLC evaluates Fresh / Kept
               on the OBSERVED names and conformance with the model).
"""

from __future__ import annotations

import json
import multiprocessing as mp
import random

import onnx_ir as ir

NONE = "<none>"
FIELDS = ("op", "g", "n", "ns", "opt", "name", "names", "names2", "v")


def _nm(x):
    return None if x == NONE else x


def _tok(x):
    return NONE if x is None else x


class Universe:
    """Real objects numbered in creation order, driven by the spec's call records."""

    def __init__(self, ng: int, function_graphs=()):
        self.ng = ng
        self.graphs: list = [None] * ng  # ir.Graph
        self.handles: list = [None] * ng  # what the calls go through (ir.Graph or ir.Function)
        self.function_graphs = set(function_graphs)
        self.nodes: list = []
        self.values: list = []
        self.dead = False  # a constructor failed unexpectedly: later calls cannot be executed

    # -- the public calls -------------------------------------------------------------------
    def apply(self, c) -> str:
        op, g, n, ns, opt, name, names, names2, v = c
        if self.dead:
            return "dead"
        try:
            if op == "Graph":
                ins = [ir.Value(name=_nm(x)) for x in names]
                ws = [ir.Value(name=_nm(x)) for x in names2]
                self.values += ins + ws
                gr = ir.Graph(ins, [], nodes=[self.nodes[i - 1] for i in ns], initializers=ws, name=f"g{g}")
                self.graphs[g - 1] = gr
                self.handles[g - 1] = (
                    ir.Function("dom", f"f{g}", graph=gr, attributes=()) if g in self.function_graphs else gr
                )
            elif op == "Node":
                if names and all(x == NONE for x in names) and len(self.nodes) % 2 == 0:
                    kw = {"num_outputs": len(names)}  # the usual way unnamed outputs come to exist
                else:
                    kw = {"outputs": [ir.Value(name=_nm(x)) for x in names]}
                # the objects are registered first so that numbering does not depend on the outcome
                node = ir.Node("", opt, [], name=_nm(name), **kw)
                self.nodes.append(node)
                self.values += list(node.outputs)
                if g:
                    self.handles[g - 1].append(node)  # Node(graph=g) does exactly this
            elif op == "Append":
                self.handles[g - 1].append(self.nodes[n - 1])
            elif op == "Extend":
                self.handles[g - 1].extend([self.nodes[i - 1] for i in ns])
            elif op == "InsertBefore":
                self.handles[g - 1].insert_before(self.nodes[n - 1], [self.nodes[i - 1] for i in ns])
            elif op == "InsertAfter":
                self.handles[g - 1].insert_after(self.nodes[n - 1], [self.nodes[i - 1] for i in ns])
            elif op == "Remove":
                self.handles[g - 1].remove([self.nodes[i - 1] for i in ns])
            elif op == "SetNodeName":
                self.nodes[n - 1].name = _nm(name)
            elif op == "SetValName":
                self.values[v - 1].name = _nm(name)
            else:
                raise AssertionError(op)
        except ValueError:
            return "raise"
        except Exception as e:  # noqa: BLE001 - an unexpected exception is an observation, not a harness failure
            if op in ("Graph", "Node"):
                self.dead = True
            return f"raise:{type(e).__name__}"
        return "ok"

    def project(self) -> dict:
        gidx = {id(g): i + 1 for i, g in enumerate(self.graphs) if g is not None}
        return {
            "vName": [_tok(v.name) for v in self.values],
            "nName": [_tok(n.name) for n in self.nodes],
            "nGraph": [gidx.get(id(n.graph), 0) if n.graph is not None else 0 for n in self.nodes],
        }


def node_graph_first(c) -> bool:
    """Node(..., graph=g) is one call in the model; the harness creates the node and appends it."""
    return c[0] == "Node" and c[1] != 0


# ---- spec -> code ------------------------------------------------------------------------------
def replay_record(rec: dict, ng: int):
    """Re-execute one emitted transition. Returns (conforms, events) where events is the observed
    trace [{c, out, post}] of the whole history (used for the TLC judgement of a mismatch)."""
    u = Universe(ng)
    events = []
    out = "ok"
    for c in rec["h"]:
        out = u.apply(c)
        events.append({"c": c, "out": out, "post": u.project()})
    ok = out == rec["o"] and events[-1]["post"] == rec["p"]
    return ok, events


def _replay_chunk(args):
    lines, ng = args
    n = 0
    bad = []
    kinds = {}
    sample = None
    for line in lines:
        try:
            rec = json.loads(json.loads(line))
        except ValueError:
            return {"unparsed": 1}
        ok, events = replay_record(rec, ng)
        n += 1
        last = rec["h"][-1]
        gen = sum(1 for a, b in zip(events[-2]["post"]["vName"] if len(events) > 1 else [], events[-1]["post"]["vName"])
                  if a == NONE and b != NONE)
        k = f"{last[0]}|{rec['o']}|{'gen' if gen or (last[0] in ('Node', 'Graph') and NONE in (last[6] + [last[5]])) else 'nogen'}"
        kinds[k] = kinds.get(k, 0) + 1
        if sample is None and len(rec["h"]) >= 4:
            sample = {"history": rec["h"], "predicted": rec["p"], "outcome": rec["o"]}
        if not ok:
            bad.append({"rec": rec, "events": events})
            if len(bad) > 50:
                break
    return {"n": n, "bad": bad, "kinds": kinds, "sample": sample}


def replay_file(out_path: str, ng: int, nproc: int, pool=None):
    """Replay every record of a TLC output file. Returns stats dict."""
    lines = []
    with open(out_path, "r", errors="replace") as f:
        for line in f:
            if line.startswith('"{'):
                lines.append(line)
    if not lines:
        return {"n": 0, "bad": [], "kinds": {}, "sample": None, "unparsed": 0}
    step = max(1, len(lines) // (nproc * 4) + 1)
    chunks = [(lines[i:i + step], ng) for i in range(0, len(lines), step)]
    tot = {"n": 0, "bad": [], "kinds": {}, "sample": None, "unparsed": 0}
    own = pool is None
    if own:
        pool = mp.get_context("fork").Pool(nproc)
    try:
        for r in pool.imap(_replay_chunk, chunks):
            tot["unparsed"] += r.get("unparsed", 0)
            tot["n"] += r.get("n", 0)
            tot["bad"] += r.get("bad", [])
            for k, v in r.get("kinds", {}).items():
                tot["kinds"][k] = tot["kinds"].get(k, 0) + v
            if tot["sample"] is None:
                tot["sample"] = r.get("sample")
    finally:
        if own:
            pool.terminate()
    return tot


# ---- code -> spec ------------------------------------------------------------------------------
VPOOL = [NONE, NONE, NONE, "a", "b", "", "val_0", "val_1", "val_2", "val_3", "val_5", "val_7", "node_Op_0"]
NPOOL = [NONE, NONE, "n", "", "node_Op_0", "node_Op_1", "node_Op_3", "node_Id_1", "node_Id_2", "val_0"]
OPS = ["Op", "Id", "Op"]


def _mk(op, g=0, n=0, ns=(), opt="", name=NONE, names=(), names2=(), v=0):
    return [op, g, n, list(ns), opt, name, list(names), list(names2), v]


def random_call(rng: random.Random, u: Universe, max_nodes: int):
    nn, nv = len(u.nodes), len(u.values)
    unbuilt = [i + 1 for i, g in enumerate(u.graphs) if g is None]
    built = [i + 1 for i, g in enumerate(u.graphs) if g is not None]
    if unbuilt and (not built or rng.random() < 0.25):
        g = unbuilt[0]
        ins = [rng.choice(VPOOL) for _ in range(rng.randint(0, 3))]
        ws = list(dict.fromkeys(rng.choice(VPOOL[3:5] + VPOOL[6:]) for _ in range(rng.randint(0, 2))))
        det = [i + 1 for i, n in enumerate(u.nodes) if n.graph is None]
        rng.shuffle(det)
        return _mk("Graph", g=g, names=ins, names2=ws, ns=det[: rng.randint(0, 2)])
    ops = [("Node", 10 if nn < max_nodes else 0), ("Append", 6), ("Extend", 4), ("InsertBefore", 3), ("InsertAfter", 3),
           ("Remove", 7), ("SetNodeName", 4), ("SetValName", 5)]
    if nn == 0:
        ops = [("Node", 1)]
    if nv == 0:
        ops = [o for o in ops if o[0] != "SetValName"]
    names, weights = zip(*ops)
    op = rng.choices(names, weights)[0]
    G = lambda: rng.choice(built)  # noqa: E731
    Nn = lambda: rng.randint(1, nn)  # noqa: E731

    def in_graph(g):
        return [i + 1 for i, n in enumerate(u.nodes) if n.graph is u.graphs[g - 1]]

    def some_nodes(g, k):
        # mostly nodes that can legally be added (detached or already in g), sometimes a foreign one
        ok = [i + 1 for i, n in enumerate(u.nodes) if n.graph is None or n.graph is u.graphs[g - 1]]
        pool = ok if (ok and rng.random() < 0.85) else list(range(1, nn + 1))
        rng.shuffle(pool)
        return pool[:k]

    if op == "Node":
        outs = [rng.choice(VPOOL) for _ in range(rng.choice([0, 1, 1, 2, 2, 3]))]
        return _mk("Node", g=rng.choice([0] + built + built), opt=rng.choice(OPS), name=rng.choice(NPOOL), names=outs)
    if op == "Append":
        g = G()
        return _mk("Append", g=g, n=some_nodes(g, 1)[0])
    if op == "Extend":
        g = G()
        return _mk("Extend", g=g, ns=some_nodes(g, rng.randint(1, 3)))
    if op in ("InsertBefore", "InsertAfter"):
        g = G()
        inside = in_graph(g)
        a = rng.choice(inside) if inside and rng.random() < 0.9 else Nn()
        ns = [x for x in some_nodes(g, rng.randint(1, 2)) if x != a]
        if not ns:
            return _mk("Append", g=g, n=a)
        return _mk(op, g=g, n=a, ns=ns)
    if op == "Remove":
        g = G()
        inside = in_graph(g)
        if inside and rng.random() < 0.9:
            rng.shuffle(inside)
            return _mk("Remove", g=g, ns=inside[: rng.randint(1, 2)])
        return _mk("Remove", g=g, ns=[Nn()])
    if op == "SetNodeName":
        return _mk("SetNodeName", n=Nn(), name=rng.choice(NPOOL))
    if op == "SetValName":
        cand = [i + 1 for i, v in enumerate(u.values) if not v.is_initializer()]
        if not cand:
            return _mk("SetNodeName", n=Nn(), name=rng.choice(NPOOL))
        return _mk("SetValName", v=rng.choice(cand), name=rng.choice(VPOOL))
    raise AssertionError(op)


def record_trace(seed: int, length: int, ng: int = 3, max_nodes: int = 8) -> list:
    rng = random.Random(seed)
    u = Universe(ng, function_graphs=(2,))  # graph 2 is driven through an ir.Function
    events = []
    for _ in range(length):
        c = random_call(rng, u, max_nodes)
        out = u.apply(c)
        events.append({"c": c, "out": out, "post": u.project()})
        if u.dead:
            break
    return events


def write_trace_file(path: str, traces: list, ng: int) -> None:
    with open(path, "w") as f:
        json.dump({"ng": ng, "traces": traces}, f)


def parse_reports(res) -> dict:
    rep = {"acc": set(), "div": {}, "fresh": [], "kept": []}
    for r in res.records():
        if not isinstance(r, list) or not r:
            continue
        if r[0] == "acc":
            rep["acc"].add(r[1])
        elif r[0] == "div":
            rep["div"][r[1]] = r[2]
        elif r[0] == "fresh":
            rep["fresh"].append((r[1], r[2], r[3]))
        elif r[0] == "kept":
            rep["kept"].append((r[1], r[2]))
    return rep
