"""C13 binding: IRClone.tla states replayed into real onnx_ir objects (clone + edits on either copy)."""

from __future__ import annotations

import json
import logging
import multiprocessing as mp
from collections import Counter

import numpy as np
import onnx_ir as ir

from . import irdrive
from .irdrive import Universe, call_from_compact, check_invariants, obs_of_spec

NOSHAPE = [-9]
logging.getLogger("onnx_ir").setLevel(logging.ERROR)


class CloneUniverse(Universe):
    def __init__(self, ng, names, consts):
        super().__init__(ng, names, consts)
        self.shared_on_clone: list = []   # objects a clone shares with its source (identity check)
        self.clone_refs_source: list = []  # clone references values defined by the source graph

    def _add_graph(self, g) -> int:
        self.graphs.append(g)
        self._gid[id(g)] = len(self.graphs)
        return len(self.graphs)

    def _annotate(self, src) -> None:
        """Give the nodes of the graph about to be cloned device annotations (they are not part of the abstract state):
        two configurations per node, the first with a sharding spec bound to one of the node's values, the last one
        placement-only."""
        if not hasattr(self, "_cfgs"):
            holder = ir.Model(ir.Graph([], [], nodes=[], name="cfg_holder"), ir_version=11)
            self._cfgs = (holder, holder.add_device_configuration("ca", num_devices=2),
                          holder.add_device_configuration("cb", num_devices=2))
        _, ca, cb = self._cfgs
        for node in self._all_nodes(src):
            if node.device_configurations:
                continue
            vals = [v for v in list(node.inputs) + list(node.outputs) if v is not None]
            if not vals:
                continue
            try:
                node.shard(vals[0], configuration=ca, axis=0, num_shards=2, device_indices=(0, 1))
                node.set_pipeline_stage(cb, 1)
            except Exception:  # noqa: BLE001 - e.g. a scalar value: no annotation on this node
                pass

    @staticmethod
    def _subgraphs(node):
        out = []
        for a in node.attributes.values():
            if a.type == ir.AttributeType.GRAPH:
                out.append(a.value)
            elif a.type == ir.AttributeType.GRAPHS:
                out.extend(a.value)
        return out

    def _walk_register(self, g) -> None:
        """Number the objects of a cloned graph in the order the specification allocates them."""
        def reg_value(v):
            if id(v) not in self._vid:
                self._add_value(v)
        for v in g.inputs:
            reg_value(v)
        for v in g.initializers.values():
            reg_value(v)
        for n in g:
            for sg in self._subgraphs(n):
                self._walk_register(sg)
            if id(n) not in self._nid:
                self._add_node(n)
            for o in n.outputs:
                reg_value(o)
        for v in g.outputs:
            reg_value(v)
        if id(g) not in self._gid:
            self._add_graph(g)

    def _defined_by(self, g, acc=None):
        acc = set() if acc is None else acc
        for v in list(g.inputs) + list(g.initializers.values()):
            acc.add(id(v))
        for n in g:
            for o in n.outputs:
                acc.add(id(o))
            for sg in self._subgraphs(n):
                self._defined_by(sg, acc)
        return acc

    def _identity_tokens(self, g, acc=None):
        """ids of every container object the statement requires to be new in a clone."""
        acc = {} if acc is None else acc
        def val(v):
            acc[id(v)] = "value"
            if v.shape is not None:
                acc[id(v.shape)] = "shape"
            t = v.type
            while t is not None:
                acc[id(t)] = "type"
                t = t.elem_type if isinstance(t, (ir.SequenceType, ir.OptionalType)) else None
            if v._metadata_props is not None:  # noqa: SLF001 - identity of the container, not content
                acc[id(v._metadata_props)] = "value.metadata_props"
            if v._metadata is not None:  # noqa: SLF001
                acc[id(v._metadata)] = "value.meta"
        acc[id(g)] = "graph"
        for v in list(g.inputs) + list(g.initializers.values()) + list(g.outputs):
            val(v)
        for n in g:
            acc[id(n)] = "node"
            acc[id(n.attributes)] = "node.attributes"
            if n._metadata_props is not None:  # noqa: SLF001
                acc[id(n._metadata_props)] = "node.metadata_props"
            for o in n.outputs:
                val(o)
            for sg in self._subgraphs(n):
                self._identity_tokens(sg, acc)
        return acc

    def _dispatch(self, c: dict) -> None:
        op = c["op"]
        if op == "Clone":
            src = self.G(c["g"])
            self.shared_on_clone, self.clone_refs_source = [], []
            variant = c.get("_variant", 0)
            self._annotate(src)
            if variant == 1 and not c["flag"]:
                new = ir.GraphView(list(src.inputs), list(src.outputs), nodes=list(src), initializers=list(src.initializers.values()),
                                   name=src.name, doc_string=src.doc_string, opset_imports=src.opset_imports,
                                   metadata_props=dict(src.metadata_props)).clone()
            elif variant == 2 and not c["flag"]:
                new = ir.Model(src, ir_version=10).clone().graph
            elif variant == 3 and not c["flag"]:
                new = ir.Function("d", "f", graph=src, attributes=()).clone().graph
            else:
                new = src.clone(allow_outer_scope_values=bool(c["flag"]))
            src_ids = self._identity_tokens(src)
            new_ids = self._identity_tokens(new)
            self.shared_on_clone = sorted({new_ids[i] for i in new_ids if i in src_ids})
            src_def = self._defined_by(src)
            self.scope_invalid_refs = 0
            for sgn in self._all_nodes(new):
                for v in sgn.inputs:
                    if v is not None and id(v) in src_def:
                        if self._scope_invalid_use(src, sgn, v, new):
                            # the SOURCE already uses a value of an inner scope from an outer scope (not valid
                            # ONNX scoping): outside what a clone is expected to handle, recorded as divergence
                            self.scope_invalid_refs += 1
                        else:
                            self.clone_refs_source.append(self.vid(v))
            for v in new.outputs:
                if id(v) in src_def:
                    self.clone_refs_source.append(self.vid(v))
            # device annotations are references too: a sharding spec of a cloned node must target a value of the clone
            # (a captured outer-scope value stays the same object when capturing is allowed - as for node inputs,
            # only values DEFINED by the cloned graphs count)
            for sgn in self._all_nodes(new):
                io = {id(v) for v in list(sgn.inputs) + list(sgn.outputs) if v is not None}
                for dc in sgn.device_configurations:
                    for sp in dc.sharding_specs:
                        if sp.value is not None and id(sp.value) in src_def and id(sp.value) not in io:
                            self.clone_refs_source.append(self.vid(sp.value))
            under = self._graphs_under(src)
            outs_under = {id(v) for g2 in under for v in g2.outputs}
            foreign_output = any(id(v) in src_def and v.is_graph_output() and id(v) not in outs_under for v in self.values)
            try:
                if foreign_output:
                    # a value defined by the source is an output of an unrelated graph: serialization of the
                    # source then omits its value-info; not a cloning matter, comparison skipped
                    raise LookupError("skip")
                a = ir.to_proto(src).SerializeToString(deterministic=True)
                b = ir.to_proto(new).SerializeToString(deterministic=True)
                self.clone_proto_equal = a == b
            except LookupError:
                self.clone_proto_equal = True
            except Exception as e:  # noqa: BLE001
                self.clone_proto_equal = f"serialize raised {type(e).__name__}"
            self._walk_register(new)
        elif op == "AttachSub":
            self.N(c["n"]).attributes["body" + str(len(self._subgraphs(self.N(c["n"]))))] = ir.AttrGraph(
                "body" + str(len(self._subgraphs(self.N(c["n"])))), self.G(c["g"]))
        elif op == "SetType":
            if c["name"].startswith("SEQ:"):
                self.V(c["v"]).type = ir.SequenceType(ir.TensorType(ir.DataType[c["name"][4:]]))
            else:
                self.V(c["v"]).type = ir.TensorType(ir.DataType[c["name"]])
        elif op == "SetDtype":
            self.V(c["v"]).dtype = ir.DataType[c["name"]]
        elif op == "SetShape":
            self.V(c["v"]).shape = ir.Shape([("N" if d == -1 else d) for d in c["vs"]])      # -1: a symbolic dimension
        elif op == "MergeShapes":
            self.V(c["v"]).merge_shapes(ir.Shape([("N" if d == -1 else d) for d in c["vs"]]))
        elif op == "SetDim":
            v = self.V(c["v"])
            if v.shape is None:
                raise ValueError("no shape")
            v.shape[c["i"]] = c["j"]
        elif op == "SetDenot":
            v = self.V(c["v"])
            if v.shape is None:
                raise ValueError("no shape")
            v.shape.set_denotation(c["i"], c["name"])
        elif op == "MetaPut":
            self.V(c["v"]).metadata_props[c["name"]] = "x"
        elif op == "MetaInvalidate":
            self.V(c["v"]).meta.invalidate(c["name"])
        elif op == "ValMetaPut":
            self.V(c["v"]).meta[c["name"]] = "x"
        elif op == "NodeMetaPut":
            self.N(c["n"]).metadata_props[c["name"]] = "x"
        elif op == "GraphMetaPut":
            self.G(c["g"]).metadata_props[c["name"]] = "x"
        elif op == "AttrUpdate2":
            self.N(c["n"]).attributes.update({c["name"]: ir.AttrInt64(c["name"], 1),
                                              c["k"]: ir.AttrInt64(c["k"], 2) if c["flag"] else 5})
        elif op == "AttrPut":
            self.N(c["n"]).attributes[c["name"]] = ir.AttrInt64(c["name"], 1)
        elif op == "AttrDel":
            del self.N(c["n"]).attributes[c["name"]]
        elif op == "SetConst":
            self.V(c["v"]).const_value = ir.Tensor(np.array([2.0], dtype=np.float32)) if c["flag"] else None
        else:
            super()._dispatch(c)

    def _scope_invalid_use(self, src, clone_node, v, clone_root) -> bool:
        """True when value v (defined by the source) is defined in a graph that is NOT the graph of the
        using node or one of its enclosing graphs - i.e. an inner-scope value used from outside."""
        # depth of the defining graph of v inside the source
        def depth_of(graph_root, target_graph, d=0):
            if graph_root is target_graph:
                return d
            for n in graph_root:
                for sg in self._subgraphs(n):
                    r = depth_of(sg, target_graph, d + 1)
                    if r is not None:
                        return r
            return None
        p = v.producer()
        defining = p.graph if p is not None else v.graph
        dv = depth_of(src, defining)
        du = depth_of(clone_root, clone_node.graph)
        if dv is None or du is None:
            return False
        if dv > du:
            return True
        # same depth or shallower: it must be an ancestor-or-self chain; compare positions by walking up is
        # not possible without parent links, so check containment: the using node's graph must lie inside
        # the defining graph's clone-equivalent subtree; with depth <= 2 a sibling at the same depth > 0 is invalid
        if dv == du and dv > 0:
            # sibling bodies cannot see each other's values
            idx_def = [id(g) for g in self._graphs_under(src)].index(id(defining))
            idx_use = [id(g) for g in self._graphs_under(clone_root)].index(id(clone_node.graph))
            return idx_def != idx_use
        return False

    def _graphs_under(self, g, acc=None):
        acc = [] if acc is None else acc
        acc.append(g)
        for n in g:
            for sg in self._subgraphs(n):
                self._graphs_under(sg, acc)
        return acc

    def _all_nodes(self, g):
        for n in g:
            yield n
            for sg in self._subgraphs(n):
                yield from self._all_nodes(sg)

    VALUE_COLS = ("vProd", "vIdx", "vUses", "vGraph", "vIsIn", "vIsOut", "vIsInit", "vName", "vConst", "ty", "sh", "dn", "md", "mt", "mi")
    NODE_COLS = ("nIn", "nOut", "nGraph", "sub", "nmd", "nat")
    GRAPH_COLS = ("gNodes", "gIn", "gOut", "gInitK", "gInitV", "gmd")

    def root_views(self) -> dict:
        """For every root graph (a graph that is not the body of a node): the cells of the projection that belong to
        objects under it, and its serialization (None when it cannot be serialized in this state)."""
        bodies = {id(sg) for n in self.nodes for sg in self._subgraphs(n)}
        out = {}
        for gi, g in enumerate(self.graphs, 1):
            if id(g) in bodies:
                continue
            members = set()
            for sg in self._graphs_under(g):
                members.add(("g", self.gid(sg)))
                for v in list(sg.inputs) + list(sg.outputs) + list(sg.initializers.values()):
                    members.add(("v", self.vid(v)))
                for n in sg:
                    members.add(("n", self.nid(n)))
                    for v in list(n.inputs) + list(n.outputs):
                        if v is not None:
                            members.add(("v", self.vid(v)))
            try:
                ser = ir.to_proto(g).SerializeToString(deterministic=True)
            except Exception:  # noqa: BLE001 - unnamed values, ...: nothing to compare
                ser = None
            out[gi] = (members, ser)
        return out

    def project_c(self) -> dict:
        o = self.project()
        o["vConst"] = [v.const_value is not None for v in self.values]
        o["sub"] = [[self.gid(g) for g in self._subgraphs(n)] for n in self.nodes]
        o["ty"] = [("" if v.type is None else ("SEQ:" if isinstance(v.type, ir.SequenceType) else "") + v.dtype.name) for v in self.values]
        o["sh"] = [(NOSHAPE if v.shape is None else [d if isinstance(d, int) else -1 for d in v.shape.dims]) for v in self.values]
        o["dn"] = [([] if v.shape is None else [(v.shape.get_denotation(i) or "") for i in range(len(v.shape))]) for v in self.values]
        o["md"] = [sorted(v.metadata_props) for v in self.values]
        o["mt"] = [sorted(v.meta) for v in self.values]
        o["mi"] = [sorted(k for k in ("k1", "k2", "k3") if not v.meta.is_valid(k)) for v in self.values]
        o["nmd"] = [sorted(n.metadata_props) for n in self.nodes]
        o["nat"] = [sorted(k for k, a in n.attributes.items() if a.type not in (ir.AttributeType.GRAPH, ir.AttributeType.GRAPHS)) for n in self.nodes]
        o["gmd"] = [sorted(g.metadata_props) for g in self.graphs]
        return o


def obs_of_cs(cs: dict) -> dict:
    o = obs_of_spec(cs["s"])
    o["vConst"] = list(cs["s"]["vConst"])
    o["sub"] = [list(x) for x in cs["sub"]]
    o["ty"] = list(cs["ty"])
    o["sh"] = [list(x) for x in cs["sh"]]
    o["dn"] = [list(x) for x in cs["dn"]]
    for k in ("md", "mt", "mi", "nmd", "nat", "gmd"):
        o[k] = [sorted(x) for x in cs[k]]
    return o


def cells(o: dict):
    out = {}
    for k, col in o.items():
        for i, x in enumerate(col):
            out[(k, i + 1)] = x
    return out


class CloneReplayer:
    def __init__(self, names, consts):
        self.names, self.consts = names, consts
        self.findings, self.stats, self.kinds = [], Counter(), Counter()

    def build(self, h):
        u = CloneUniverse(2, self.names, self.consts)
        for cc, _ in h:
            u.apply(call_from_compact(cc))
        return u

    def finding(self, cls, sig, rec, row, **kw):
        self.findings.append(dict(cls=cls, signature=sig, history=rec["h"], call=row["c"], expected_out=row["out"], **kw))

    def replay(self, rec):
        h = rec["h"]
        pre_obs = obs_of_cs(rec["pre"])
        u = self.build(h)
        self.stats["states"] += 1
        if u.project_c() != pre_obs:
            self.stats["pre_mismatch"] += 1
            return
        after_clone = any(cc[0] == "Clone" and out == "ok" for cc, out in h)
        dirty = False
        views = u.root_views() if after_clone else None
        for vi, row in enumerate(rec["rows"]):
            if dirty:
                u = self.build(h)
                dirty = False
                views = u.root_views() if after_clone else None
            c = call_from_compact(row["c"])
            c["_variant"] = (vi + self.stats["states"]) % 4
            exp = row["out"]
            got = u.apply(c)
            real = u.project_c()
            self.stats["calls"] += 1
            self.kinds[(c["op"], exp, "raise" if got != "ok" else "ok", after_clone)] += 1
            # (SetConst on a value that already has a constant swaps the tensor: the projection stays, serializations do
            # not - the next row must not inherit that)
            # ... and a Clone row annotates the nodes of its source before cloning, whether the clone succeeds or not
            dirty = real != pre_obs or (c["op"] == "SetConst" and got == "ok") or c["op"] == "Clone"
            if c["op"] == "Clone":
                if got == "ok":
                    if u.shared_on_clone:
                        self.finding("C13", "C13:Clone:shares:" + "+".join(u.shared_on_clone), rec, row, got=got,
                                     message=f"the clone shares {u.shared_on_clone} objects with its source")
                    if u.clone_refs_source:
                        self.finding("C13", f"C13:Clone:{exp}:references-source-values", rec, row, got=got,
                                     values=sorted(set(u.clone_refs_source)),
                                     message="a reference inside the clone points to a value defined by the source graph")
                    if u.clone_proto_equal is not True and not u.clone_refs_source:
                        self.finding("C13", "C13:Clone:serializes-differently", rec, row, got=got, detail=str(u.clone_proto_equal),
                                     message="to_proto(clone) != to_proto(source)")
                    if getattr(u, "scope_invalid_refs", 0):
                        self.finding("DIV", f"DIV:Clone:{exp}:source-uses-inner-scope-value-from-outside", rec, row, got=got)
                        continue
                    if exp == "ok" and real != obs_of_cs(row["post"]):
                        d = irdrive.diff_obs(obs_of_cs(row["post"]), real)
                        bad = check_invariants(real)
                        if bad:
                            self.finding("C13", "C13:Clone:invariants:" + "+".join(bad), rec, row, got=got, fields=d,
                                         message=f"after clone the IR invariants {bad} are broken")
                        else:
                            self.finding("DIV", "DIV:Clone:post-differs:" + "+".join(d), rec, row, got=got, fields=d)
                    elif exp != "ok" and not u.clone_refs_source:
                        self.finding("DIV", f"DIV:Clone:{exp}:code-accepts", rec, row, got=got)
                else:
                    if real != pre_obs:
                        # a failed clone(allow_outer_scope_values=True) leaves the nodes it had already created
                        # registered as users of the outer-scope values; the statement does not speak about
                        # failed clones, so this is recorded as a divergence only
                        d = irdrive.diff_obs(pre_obs, real)
                        self.finding("DIV", f"DIV:Clone:{exp}:raised-but-changed:" + "+".join(d), rec, row, got=got, fields=d)
                    elif exp == "ok":
                        self.finding("DIV", "DIV:Clone:code-rejects", rec, row, got=got)
                continue
            # an edit: whatever changed on the code must be a cell the model changes too
            exp_obs = obs_of_cs(row["post"]) if exp == "ok" else pre_obs
            if exp != "ok" and got != "ok" and real != pre_obs:
                # (C06, judged by the C06 check on its own configuration: a rejected edit that left a trace)
                d = irdrive.diff_obs(pre_obs, real)
                self.finding("C06", f"C06:{c['op']}:{exp}:changed:" + "+".join(d), rec, row, got=got, fields=d,
                             message=f"{c['op']} raised {got} but changed {d}")
                continue
            if after_clone and real != pre_obs and got == "ok":
                self.serialization_independence(u, views, pre_obs, real, rec, row, c)
            if real == exp_obs:
                continue
            rc, pc, mc = cells(real), cells(pre_obs), cells(exp_obs)
            extra = sorted({k for k in rc if rc[k] != pc.get(k) and mc.get(k) == pc.get(k)})
            if extra and after_clone:
                comps = sorted({k[0] for k in extra})
                self.finding("C13", f"C13:{c['op']}:also-changed:" + "+".join(comps), rec, row, got=got, cells=[list(k) for k in extra][:8],
                             message=f"editing one object through {c['op']} also changed {extra[:4]} which the model leaves untouched (shared state between clone and source)")
            else:
                self.finding("DIV", f"DIV:{c['op']}:{exp}:post-differs", rec, row, got=got,
                             fields=irdrive.diff_obs(exp_obs, real))


def _changed_objects(pre: dict, post: dict) -> set:
    kind = {**{k: "v" for k in CloneUniverse.VALUE_COLS}, **{k: "n" for k in CloneUniverse.NODE_COLS},
            **{k: "g" for k in CloneUniverse.GRAPH_COLS}}
    pc, rc = cells(pre), cells(post)
    return {(kind[k[0]], k[1]) for k in set(pc) | set(rc) if pc.get(k) != rc.get(k) and k[0] in kind}


def _serialization_independence(self, u, views, pre_obs, real, rec, row, c):
    """The serialization of a copy is an observable of that copy: an edit that touches no object under a root graph must
    leave that graph's serialization byte for byte as it was (tensors may be shared between the copies, their
    bytes and the names they are written under may not follow the other copy's edits)."""
    changed = _changed_objects(pre_obs, real)
    after = u.root_views()
    for gi, (members, ser) in views.items():
        if gi not in after or ser is None:
            continue
        members2, ser2 = after[gi]
        if ser2 is None or changed & (members | members2):
            continue
        self.stats["independent_serializations"] += 1
        if ser != ser2:
            self.finding("C13", f"C13:{c['op']}:serialization-of-untouched-copy-changed", rec, row, graph=gi,
                         message=f"{c['op']} touched no object of graph {gi}, yet that graph now serializes differently "
                                 "(state shared between the copies shows in the serialization)")


CloneReplayer.serialization_independence = _serialization_independence


def _work(args):
    lines, cfg = args
    r = CloneReplayer(cfg["names"], cfg["consts"])
    for line in lines:
        try:
            rec = json.loads(json.loads(line))
        except ValueError:
            r.stats["unparsed"] += 1
            continue
        r.replay(rec)
    first = {}
    for f in r.findings:
        s = f["signature"]
        if s not in first:
            first[s] = dict(f, count=0)
        first[s]["count"] += 1
    return list(first.values()), dict(r.stats), {"|".join(map(str, k)): v for k, v in r.kinds.items()}


def replay_file(path, cfg, nproc=16, chunk=4):
    def chunks():
        buf = []
        with open(path, "r", errors="replace") as f:
            for line in f:
                if line.startswith('"'):
                    buf.append(line)
                    if len(buf) >= chunk:
                        yield (buf, cfg)
                        buf = []
        if buf:
            yield (buf, cfg)

    findings, stats, kinds = {}, Counter(), Counter()
    with mp.get_context("fork").Pool(nproc) as pool:
        for fs, st, kd in pool.imap_unordered(_work, chunks()):
            for f in fs:
                s = f["signature"]
                if s not in findings or len(f["history"]) < len(findings[s]["history"]):
                    f["count"] = f["count"] + (findings[s]["count"] if s in findings else 0)
                    findings[s] = f
                else:
                    findings[s]["count"] += f["count"]
            stats.update(st)
            kinds.update(kd)
    return findings, stats, kinds
