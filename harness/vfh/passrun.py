"""Run every built-in pass on concretised abstract programs and record what the C05 / C14 checks
need: abstractions before/after (for TLC's denotation comparison), contract facts (for TLC's
contract formulas), observable projections (for TLC's C01 invariants), concrete witnesses."""

from __future__ import annotations

import json
import logging
import multiprocessing as mp
import random
import zlib

import numpy as np
import onnx
import onnx_ir as ir
import onnx_ir.passes.common as cp

from . import irobs, rewrite

logging.getLogger("onnx_ir").setLevel(logging.ERROR)
logging.getLogger("onnx_ir.passes").setLevel(logging.CRITICAL)

PASSES = {
    "RemoveUnusedNodes": lambda: cp.RemoveUnusedNodesPass(),
    "RemoveUnusedFunctions": lambda: cp.RemoveUnusedFunctionsPass(),
    "RemoveUnusedOpsets": lambda: cp.RemoveUnusedOpsetsPass(),
    "IdentityElimination": lambda: cp.IdentityEliminationPass(),
    "CSE": lambda: cp.CommonSubexpressionEliminationPass(),
    "DeduplicateInitializers": lambda: cp.DeduplicateInitializersPass(),
    "DeduplicateHashedInitializers": lambda: cp.DeduplicateHashedInitializersPass(),
    "LiftConstantsToInitializers": lambda: cp.LiftConstantsToInitializersPass(lift_all_constants=True, size_limit=0),
    "LiftSubgraphInitializers": lambda: cp.LiftSubgraphInitializersToMainGraphPass(),
    "AddInitializersToInputs": lambda: cp.AddInitializersToInputsPass(),
    "RemoveInitializersFromInputs": lambda: cp.RemoveInitializersFromInputsPass(),
    "Inline": lambda: cp.InlinePass(),
    "NameFix": lambda: cp.NameFixPass(),
    "OutputFix": lambda: cp.OutputFixPass(),
    "TopologicalSort": lambda: cp.TopologicalSortPass(),
    "AddDefaultAttributes": lambda: cp.AddDefaultAttributesPass(),
    "ClearMetadataAndDocString": lambda: cp.ClearMetadataAndDocStringPass(),
    "ShapeInference": lambda: cp.ShapeInferencePass(),
    "Checker": lambda: cp.CheckerPass(),
    "CloneFunctional": lambda: _CloneFunctional(),
}


class _CloneFunctional(ir.passes.FunctionalPass):
    """A functional pass of the harness: returns a clone of its input (so that sequences can end functionally)."""

    def call(self, model):
        return ir.passes.PassResult(model.clone(), modified=False)

ANALYSIS = {"Checker"}
SEQUENCES = [
    ("Inline", "CSE", "RemoveUnusedNodes"),
    ("LiftConstantsToInitializers", "DeduplicateInitializers", "RemoveUnusedNodes"),
    ("IdentityElimination", "CSE", "IdentityElimination"),
    ("AddInitializersToInputs", "RemoveInitializersFromInputs"),
    ("LiftSubgraphInitializers", "DeduplicateHashedInitializers", "NameFix"),
    ("Inline", "IdentityElimination", "TopologicalSort", "RemoveUnusedFunctions", "RemoveUnusedOpsets"),
    # a side-effect-only pass first, then an in-place pass, then a functional one
    ("Checker", "ClearMetadataAndDocString", "CloneFunctional"),
    ("Checker", "NameFix"),
]


# the pass manager (a pass itself): (name, passes, steps, early_stop)
def _pm(names, steps, early):
    return (f"PM({','.join(names)};steps={steps};{'stop' if early else 'nostop'})", names, steps, early)


MANAGERS = [
    _pm(("RemoveUnusedNodes", "TopologicalSort"), 2, False),
    _pm(("IdentityElimination", "RemoveUnusedNodes"), 3, True),
    _pm(("NameFix",), 1, False),
    _pm(("CSE", "RemoveUnusedNodes", "RemoveUnusedFunctions"), 2, True),
    # a FUNCTIONAL composition (its first member returns a copy) with early stop: at the fixpoint the very first step
    # reports no modification, and the result must still be another model object
    _pm(("CloneFunctional", "RemoveUnusedNodes"), 2, True),
]


_LONG_LIVED: dict = {}     # job -> (pass object, passes): pipeline objects that live as long as the worker process


def make_pass(job, reuse: bool = False):
    """The pass object of a job: a single pass, a Sequential, or a PassManager ('PM...' first element).
    reuse: the worker's long-lived object for this job (a pipeline object applied to one model after the other - what
    it did to earlier models must have no influence) instead of a fresh one."""
    if reuse:
        if tuple(job) not in _LONG_LIVED:
            _LONG_LIVED[tuple(job)] = make_pass(job)
        return _LONG_LIVED[tuple(job)]
    if job[0].startswith("PM"):
        name, names, steps, early = next(m for m in MANAGERS if m[0] == job[0])
        return ir.passes.PassManager([PASSES[n]() for n in names], steps=steps, early_stop=early), [PASSES[n]() for n in names]
    passes = [PASSES[n]() for n in job]
    return (passes[0] if len(passes) == 1 else ir.passes.Sequential(*passes)), passes


def variant_for(P: dict, pid: int) -> int:
    """Concretisation variant of a program: normally its index; a program whose control-flow bodies hold initializers
    always gets the colliding naming scheme (that is where lifting / renaming passes meet name clashes)."""
    nf = len(P["f"])
    body_inits = any(g["inits"] for g in P["g"][1 + nf:])
    return 3 * pid + 1 if body_inits else pid


def ser(model) -> bytes:
    return ir.to_proto(model).SerializeToString(deterministic=True)


def is_sorted(model) -> bool:
    """Every node comes after the same-graph producers of what it (or anything nested in it) uses."""
    def graph_ok(g) -> bool:
        pos = {id(n): i for i, n in enumerate(g)}
        def uses(n):
            for v in n.inputs:
                if v is not None:
                    yield v
            for a in n.attributes.values():
                subs = [a.value] if a.type == ir.AttributeType.GRAPH else (a.value if a.type == ir.AttributeType.GRAPHS else [])
                for sg in subs:
                    for m in sg:
                        yield from uses(m)
        for i, n in enumerate(g):
            for v in uses(n):
                p = v.producer()
                if p is not None and id(p) in pos and pos[id(p)] >= i and p is not n:
                    return False
            for a in n.attributes.values():
                subs = [a.value] if a.type == ir.AttributeType.GRAPH else (a.value if a.type == ir.AttributeType.GRAPHS else [])
                for sg in subs:
                    if not graph_ok(sg):
                        return False
        return True
    return graph_ok(model.graph) and all(graph_ok(f) for f in model.functions.values())


def names_ok(model) -> bool:
    """Every value that serialization must name has a non-empty name."""
    def g_ok(g):
        for v in list(g.inputs) + list(g.outputs):
            if not v.name:
                return False
        for n in g:
            for v in n.inputs:
                if v is not None and not v.name:
                    return False
            for a in n.attributes.values():
                subs = [a.value] if a.type == ir.AttributeType.GRAPH else (a.value if a.type == ir.AttributeType.GRAPHS else [])
                if not all(g_ok(sg) for sg in subs):
                    return False
        return True
    return g_ok(model.graph) and all(g_ok(f) for f in model.functions.values())


def size_of(model) -> int:
    n = sum(1 for _ in model.graph.all_nodes()) + len(model.graph.initializers) + len(model.functions)
    for f in model.functions.values():
        n += sum(1 for _ in f.all_nodes())
    return n


def overridable(proto) -> set:
    names = {i.name for i in proto.graph.input}
    return {i.name for i in proto.graph.initializer if i.name in names}


def evaluate(proto: onnx.ModelProto, seed: int, override=frozenset()):
    """Concrete outputs on seeded inputs; None when no evaluator can run the model."""
    rng = np.random.default_rng(seed)
    outs = []
    for cond in (True, False):
        feeds = {"in1": rng.normal(size=rewrite.IN_SHAPE).astype(np.float32), "in2": rng.normal(size=rewrite.IN_SHAPE).astype(np.float32),
                 "cond": np.array(cond)}
        names = {i.name for i in proto.graph.input}
        if "in2" not in names and "w" in names and "w" not in {i.name for i in proto.graph.initializer}:
            feeds["w"] = feeds.pop("in2")       # the colliding naming variant calls the second input "w"
        feeds = {k: v for k, v in feeds.items() if k in names}
        # initializers listed as inputs are overridable: feed them too (same values for the same name)
        for init in proto.graph.initializer:
            if init.name in names and init.name in override:
                arr = onnx.numpy_helper.to_array(init)
                r2 = np.random.default_rng(abs(hash(init.name)) % (2**31) + seed)
                feeds[init.name] = r2.normal(size=arr.shape).astype(arr.dtype)
        res = None
        try:
            from onnx.reference import ReferenceEvaluator
            res = ReferenceEvaluator(proto).run(None, feeds)
        except Exception:  # noqa: BLE001
            try:
                import onnxruntime as ort
                so = ort.SessionOptions()
                so.log_severity_level = 4
                so.graph_optimization_level = ort.GraphOptimizationLevel.ORT_DISABLE_ALL
                res = ort.InferenceSession(proto.SerializeToString(), so, providers=["CPUExecutionProvider"]).run(None, feeds)
            except Exception:  # noqa: BLE001
                return None
        outs.append([np.asarray(x) for x in res])
    return outs


def outputs_differ(a, b) -> bool:
    if a is None or b is None:
        return False
    for ra, rb in zip(a, b):
        if len(ra) != len(rb):
            return True
        for x, y in zip(ra, rb):
            if x.shape != y.shape or not np.allclose(x, y, rtol=1e-5, atol=1e-6, equal_nan=True):
                return True
    return False


def checker_ok(proto) -> bool:
    try:
        onnx.checker.check_model(proto, full_check=False)
        return True
    except Exception:  # noqa: BLE001
        return False


def run_functionalized(P: dict, pid: int) -> dict:
    """Only the functionalize() probe of every pass object on one program (C13)."""
    out = {"apps": [], "bad_corpus": None}
    proto = rewrite.concretize(P, variant=variant_for(P, pid))
    if not checker_ok(proto):
        out["bad_corpus"] = "concretised program rejected by onnx.checker"
        return out
    proto_bytes = proto.SerializeToString()
    jobs = [(name,) for name in PASSES if name != "CloneFunctional"] + list(SEQUENCES) + [(m[0],) for m in MANAGERS]
    for ji, job in enumerate(jobs):
        if (pid + ji) % 3:
            continue
        fm = ir.from_proto(onnx.load_from_string(proto_bytes))
        b0 = ser(fm)
        rec = {"inplace": True, "same": True, "modified": False, "changed": False, "rounds": [{"modified": False, "changed": False}],
               "size": 1, "invariantsOK": True, "sortedBefore": True, "sortedAfter": True, "namesOK": True, "reloadOK": True, "analysis": False}
        try:
            fr = ir.passes.functionalize(make_pass(job)[0])(fm)
            rec.update(funcTried=True, funcRaised=False, funcInputSame=ser(fm) == b0, funcFresh=fr.model is not fm)
        except Exception:  # noqa: BLE001
            rec.update(funcTried=True, funcRaised=True, funcInputSame=True, funcFresh=True)
        out["apps"].append({"id": f"{pid}:{'+'.join(job)}", "a": rec})
    return out


def run_program(P: dict, pid: int, seed: int, pass_names=None, with_sequences=True) -> dict:
    """Returns {'pairs': [...], 'apps': [...], 'obs': [...], 'raised': [...], 'bad_corpus': str|None}."""
    out = {"pairs": [], "apps": [], "obs": [], "raised": [], "bad_corpus": None, "witness": {}, "invalid_after": []}
    proto = rewrite.concretize(P, variant=variant_for(P, pid))
    if not checker_ok(proto):
        out["bad_corpus"] = "concretised program rejected by onnx.checker"
        return out
    proto_bytes = proto.SerializeToString()
    fresh = lambda: ir.from_proto(onnx.load_from_string(proto_bytes))  # noqa: E731 - proto-backed tensors alias their proto
    base = fresh()
    if rewrite.strip_overridable(rewrite.abstract(base)) != rewrite.trim_trailing_none(P):
        out["bad_corpus"] = "abstract(concretize(P)) != P"
        return out
    before_abs = rewrite.abstract(base)
    ser_before = ser(base)
    before_eval = None
    jobs = [(name,) for name in (pass_names or PASSES) if name != "CloneFunctional"]
    if with_sequences:
        jobs += [s for s in SEQUENCES if pid % len(SEQUENCES) == SEQUENCES.index(s)]
        jobs += [(m[0],) for m in MANAGERS if pid % len(MANAGERS) == MANAGERS.index(m)]
    for job in jobs:
        key = f"{pid}:{'+'.join(job)}"
        model = fresh()
        sorted_before = is_sorted(model)
        the_pass, passes = make_pass(job, reuse=(pid % 2 == 0))     # every second program meets a used pipeline object
        try:
            res = the_pass(model)
        except Exception as e:  # noqa: BLE001
            out["raised"].append({"id": key, "error": f"{type(e).__name__}: {str(e)[:160]}", "cause": type(e.__cause__).__name__ if e.__cause__ else ""})
            continue
        after = res.model
        ser_after = ser(after) if after is model else None
        try:
            after_bytes = ser(after)
        except Exception as e:  # noqa: BLE001
            out["raised"].append({"id": key, "error": f"serialize-after: {type(e).__name__}: {str(e)[:160]}", "cause": ""})
            continue
        changed = after_bytes != ser_before
        # convergence: re-apply until it reports no modification and changes nothing
        rounds = [{"modified": bool(res.modified), "changed": changed}]
        cur, cur_bytes = after, after_bytes
        bound = size_of(base) + 1
        try:
            for _ in range(bound + 1):
                if not rounds[-1]["modified"] and not rounds[-1]["changed"]:
                    break
                r2 = (the_pass if pid % 2 == 0 else make_pass(job)[0])(cur)     # (the long-lived object keeps going)
                nb = ser(r2.model)
                rounds.append({"modified": bool(r2.modified), "changed": nb != cur_bytes})
                cur, cur_bytes = r2.model, nb
        except Exception as e:  # noqa: BLE001
            out["raised"].append({"id": key + ":round", "error": f"{type(e).__name__}: {str(e)[:160]}", "cause": ""})
        # functionalize(pass): the caller's model must stay as it is, the result must be another model
        func = {"funcTried": False, "funcRaised": False, "funcInputSame": True, "funcFresh": True}
        if zlib.crc32(key.encode()) % 2 == 0:
            fm = fresh()
            try:
                fr = ir.passes.functionalize(make_pass(job)[0])(fm)
                func = {"funcTried": True, "funcRaised": False, "funcInputSame": ser(fm) == ser_before, "funcFresh": fr.model is not fm}
            except Exception:  # noqa: BLE001 - the same failure as the plain application (recorded there)
                func = {"funcTried": True, "funcRaised": True, "funcInputSame": True, "funcFresh": True}
        # the result can be read back (the names it is written under are usable): only asked of models that could
        # be read back before the pass
        reload_ok = True
        if changed:
            try:
                ir.from_proto(onnx.load_from_string(after_bytes))
            except Exception:  # noqa: BLE001
                reload_ok = False
        obs = irobs.project_model(after)
        out["obs"].append((key, obs))
        in_place = all(p.in_place for p in passes)
        out["apps"].append({"id": key, "a": {
            "inplace": bool(in_place), "same": after is model, "modified": bool(res.modified), "changed": bool(changed),
            "rounds": rounds, "size": bound - 1, "invariantsOK": True, "sortedBefore": bool(sorted_before),
            "sortedAfter": bool(is_sorted(after)), "namesOK": bool(names_ok(after)), "reloadOK": reload_ok,
            "analysis": all(n in ANALYSIS for n in job) and not job[0].startswith("PM"), **func}})
        if changed and not checker_ok(onnx.load_from_string(after_bytes)):
            try:
                onnx.checker.check_model(onnx.load_from_string(after_bytes))
                msg = "?"
            except Exception as e:  # noqa: BLE001
                msg = str(e).strip().splitlines()[0][:160]
            out["invalid_after"].append({"id": key, "error": msg})
        if changed:
            after_abs = rewrite.abstract(after)
            if after_abs != before_abs:
                out["pairs"].append({"id": key, "before": before_abs, "after": after_abs})
                # keep what a concrete witness needs
                out["witness"][key] = after_bytes
    out["proto"] = proto_bytes
    # the sorting pass is also given the same program with its nested bodies in reverse node order
    # (not checker-valid, so only the contract clauses are recorded, no before/after pair)
    if any(len(g["nodes"]) > 1 for g in P["g"][len(P["f"]) + 1:]) and (pass_names is None or "TopologicalSort" in pass_names):
        rp = rewrite.concretize(P, variant=variant_for(P, pid), reverse_bodies=True).SerializeToString()
        model = ir.from_proto(onnx.load_from_string(rp))
        b0 = ser(model)
        try:
            res = PASSES["TopologicalSort"]()(model)
            b1 = ser(res.model)
            out["apps"].append({"id": f"{pid}:TopologicalSort@unsorted-body", "a": {
                "inplace": True, "same": res.model is model, "modified": bool(res.modified), "changed": b1 != b0,
                "rounds": [{"modified": False, "changed": False}], "size": 1, "invariantsOK": True, "sortedBefore": False,
                "sortedAfter": bool(is_sorted(res.model)), "namesOK": True, "reloadOK": True, "analysis": False,
                "funcTried": False, "funcRaised": False, "funcInputSame": True, "funcFresh": True}})
        except Exception as e:  # noqa: BLE001
            out["raised"].append({"id": f"{pid}:TopologicalSort@unsorted-body", "error": f"{type(e).__name__}: {str(e)[:160]}", "cause": ""})
    return out


def concrete_witness(proto_bytes: bytes, after_bytes: bytes, seed: int) -> dict:
    before = onnx.load_from_string(proto_bytes)
    after = onnx.load_from_string(after_bytes)
    w = {}
    if len(before.graph.output) != len(after.graph.output):
        w["arity"] = [len(before.graph.output), len(after.graph.output)]
    init_b = {i.name for i in before.graph.initializer}
    init_a = {i.name for i in after.graph.initializer}
    if [i.name for i in before.graph.input if i.name not in init_b] != [i.name for i in after.graph.input if i.name not in init_a]:
        w["inputs"] = True
    if checker_ok(before) and not checker_ok(after):
        try:
            onnx.checker.check_model(after)
        except Exception as e:  # noqa: BLE001
            w["checker"] = str(e)[:200]
    if not w:
        # initializers that both models expose as inputs are fed as well (a caller may override them)
        both = overridable(before) & overridable(after)
        a, b = evaluate(before, seed, both), evaluate(after, seed, both)
        if a is not None and b is None:
            w["not-evaluable-after"] = True
        elif outputs_differ(a, b):
            w["outputs-differ"] = True
    return w


def _work(args):
    items, seed, pass_names, func_only = args
    res = []
    for pid, P in items:
        res.append((pid, run_functionalized(P, pid) if func_only else run_program(P, pid, seed, pass_names)))
    return res


def run_corpus(programs, seed, nproc=16, pass_names=None, chunk=8, func_only=False):
    items = list(programs)
    chunks = [(items[i:i + chunk], seed, pass_names, func_only) for i in range(0, len(items), chunk)]
    with mp.get_context("fork").Pool(nproc) as pool:
        for part in pool.imap_unordered(_work, chunks):
            yield from part


def load_programs(out_path: str, cap: int | None, seed: int):
    progs = []
    with open(out_path, "r", errors="replace") as f:
        for line in f:
            if line.startswith('"{'):
                progs.append(line)
    progs.sort()        # TLC's output order depends on worker scheduling; the sample must not
    if cap is not None and len(progs) > cap:
        # stratified by the multiset of main-graph operators: every operator combination of the catalogue is
        # represented, the seed decides which members of a stratum are taken
        random.Random(seed).shuffle(progs)
        strata = {}
        for l in progs:
            P = json.loads(json.loads(l))
            # (operator with its attribute values: Constant:const=k1 and Constant:const=k2 are different members)
            key = tuple(sorted(n["op"] + ":" + ",".join(f"{a[0]}={a[1]}" for a in n["attr"]) for n in P["g"][0]["nodes"]))
            strata.setdefault(key, []).append(l)
        picked, depth = [], 0
        keys = sorted(strata)
        while len(picked) < cap:
            took = False
            for k in keys:
                if depth < len(strata[k]) and len(picked) < cap:
                    picked.append(strata[k][depth])
                    took = True
            if not took:
                break
            depth += 1
        progs = sorted(picked)
    return [(i, json.loads(json.loads(l))) for i, l in enumerate(progs)]
