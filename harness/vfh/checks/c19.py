"""C19 - device annotations follow object identity and never dangle."""
import os
import re

from .. import irmd
from ..common import NCPU, SPECS, MachineryError

LEVEL = "model_checking"
IR = os.path.join(SPECS, "ir")


def run(ctx):
    thorough = ctx.tier == "thorough"
    src = open(os.path.join(IR, "MultiDeviceMC.cfg")).read()
    src = re.sub(r"MaxDepth = \d+", f"MaxDepth = {4 if thorough else 3}", src)
    cfg = os.path.join(ctx.scratch, "MultiDeviceMC_v.cfg")
    open(cfg, "w").write(src)
    res = ctx.tlc(os.path.join(IR, "MultiDeviceMC.tla"), cfg, tag="mc-md", timeout=6000, heap="28g" if thorough else "8g")
    if not res.ok:
        raise MachineryError(f"design spec check failed: {res.violated} {res.errors[:2]}\n{res.tail(25)}")
    findings, stats, kinds = irmd.replay_file(res.out_path, nproc=NCPU)
    if stats.get("unparsed"):
        raise MachineryError(f"{stats['unparsed']} emitted records could not be parsed")
    os.unlink(res.out_path)
    # nested configuration: the second node lives in the body of the first one and captures values of the main graph
    cfgn = os.path.join(ctx.scratch, "MultiDeviceMC_nested.cfg")
    open(cfgn, "w").write(re.sub(r"MaxDepth = \d+", f"MaxDepth = {4 if thorough else 3}", src).replace("Nested = FALSE", "Nested = TRUE"))
    resn = ctx.tlc(os.path.join(IR, "MultiDeviceMC.tla"), cfgn, tag="mc-md-nested", timeout=6000, heap="28g" if thorough else "8g")
    if not resn.ok:
        raise MachineryError(f"design spec check failed (nested): {resn.violated} {resn.errors[:2]}\n{resn.tail(25)}")
    f2, st2, k2 = irmd.replay_file(resn.out_path, nproc=NCPU)
    if st2.get("unparsed"):
        raise MachineryError(f"{st2['unparsed']} emitted records could not be parsed (nested)")
    if st2.get("pre_mismatch", 0) == st2.get("states", 0):
        raise MachineryError("nested configuration: no state could be rebuilt on the real objects")
    for sig, f in f2.items():
        sig2 = sig if ":nested" in sig else sig + ":nested"
        if sig2 not in findings:
            findings[sig2] = dict(f, nested=True)
    for k, v in st2.items():
        stats[k] = stats.get(k, 0) + v
    stats["nested_states"] = st2.get("states", 0)
    kinds.update({"nested|" + str(k): v for k, v in k2.items()})
    divs = {}
    for sig, f in findings.items():
        if f["cls"] == "C19":
            ctx.violation(sig, f)
        else:
            divs[sig] = f.get("count", 1)
    ctx.replayed += stats.get("states", 0)
    ctx.evaluations += stats.get("calls", 0)
    for k in kinds:
        ctx._distinct.add(k)
    ctx.extra["divergences"] = divs
    ctx.extra["state_checks"] = {k: v for k, v in stats.items() if k not in ("calls", "states")}
    ctx.samples = [{"kinds": sorted(map(str, kinds))[:12]}]
    ctx.rule = ("TLC explores MultiDeviceMC: shard / set_pipeline_stage / add_ and remove_device_configuration(cascade) (with every rejection "
                "branch) interleaved with replace_input_with, resize_inputs/outputs, replace_all_uses_with and renames over a two-node model; "
                "NoDangle, WellFormed, Canonical are invariants of the design; every (state, call) is executed on a real ir.Model and the "
                "annotation projection (by object identity) compared; at every state the library's own checker must return [], the serialized "
                "proto must reference the current names (predicted by SerAnn), and serialize/deserialize at IR version 11 and Model.clone() must "
                "preserve the annotations. distinct_nontrivial = (op, model outcome/reason, raised?) classes.")
    ctx.assumptions = ["shard() is only called with configurations registered on the model and device indices within range (the statement lists "
                       "axis/num_shards/stage as the invalid requests)", "renames to non-empty names only", "nodes stay in the model graph"]
    ctx.exhaustive = True


def replay(ctx, detail) -> bool:
    r = irmd.MDReplayer()
    ng = 2 if any(c[0][0] in ("NewNode", "IOAppend") and c[0][1] == 2 for c in detail["history"]) else 1
    u = r.build(detail["history"], ng)
    pre = u.project_m()
    if detail.get("call"):
        got = u.apply(irmd.call_from_compact(detail["call"]))
        print("call", detail["call"], "->", got)
        if got != "ok" and u.project_m() != pre:
            return True
    bad = r.dangling(u)
    print("dangling:", bad)
    rec = dict(h=detail["history"])
    r.state_checks(u, r_ser(u), rec, {}, "replay")
    for f in r.findings:
        print(f["signature"], f.get("message"))
    return bool(bad) or any(f["cls"] == "C19" for f in r.findings)


def r_ser(u):
    return u.ser_by_names(u.model)
