"""C11 - graph iteration stays well defined while the graph is edited."""
from .. import lscheck

LEVEL = "model_checking"


def run(ctx):
    lscheck.run(ctx)


def replay(ctx, detail) -> bool:
    return lscheck.replay_detail(ctx, detail)
