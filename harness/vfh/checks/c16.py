"""C16 - symbolic dimensions compute, print and re-parse with integer semantics.

Specification: specs/sym/SymDim.tla (exact rational evaluator Eval, Partial, the printer Show and the
precedence-climbing parser Meaning for the documented grammar) + SymDimMC.tla.  TLC
  1. checks the precedence/associativity lemmas on explicit strings (SymDimMC_shapes.cfg);
  2. enumerates EVERY expression tree of depth <= 2 over the operators ir.SymbolicDim overloads
     (2 symbols, constants {1,2,3}; 406 125 trees), over the rounding operators with negated leaves
     (SymDimMC_signs.cfg; negative non-integer operands), a targeted family of depth 3 - floor ceil trunc neg // %
     over (a-b)/k, (a-b)/c, k/a-b, i.e. operands whose sign the symbols' positivity does not settle and that are
     negative and non-integral under some bindings (SymDimMC_mixed.cfg, every tree replayed) - and, for the grammar, over + - * / // % ** unary -,
     floor sqrt min max (SymDimMC_gram.cfg), checks RoundTripTree / DesugarOK / NormalForm / Integral on
     each of them under every binding in {1..4}^2 (RoundTripValue / PartialOK / ValueTable on the emitted
     ones in the quick tier, on all of them in the thorough tier) and prints a stratified sample
     (tree, token sequences in three parenthesisation modes, value under every binding);
  3. (thorough) draws random trees of depth 3 (SymDimMC_rand.cfg).
Binding (vfh.symdim): every printed tree is built with the real overloaded operators (ints on either side),
evaluated under every complete and partial binding, simplified, printed, re-parsed, pushed through serde,
and every string is given to the real parser; all expected values are TLC's.  In the other direction the
strings the library printed are tokenised and handed to TLC (SymDimMC_text.cfg), which computes their
Meaning under the standard grammar and so tells a printer fault from a parser fault.
"""

from __future__ import annotations

import concurrent.futures
import json
import multiprocessing as mp
import os
import re
import time

from .. import symdim as sd
from ..common import NCPU, SPECS, MachineryError

LEVEL = "model_checking"
SYM = os.path.join(SPECS, "sym")
MC = os.path.join(SYM, "SymDimMC.tla")
STYLES = ["tight", "pretty", "spaced", "ragged"]
MAXNUM_TEXT = 999


def _cfg(scratch: str, name: str, out: str, **subst) -> str:
    src = open(os.path.join(SYM, name)).read()
    for k, v in subst.items():
        src, n = re.subn(rf"^(\s*{k}\s*=\s*).*$", rf"\g<1>{v}", src, flags=re.M)
        if n != 1:
            raise MachineryError(f"{name}: cannot set {k}")
    path = os.path.join(scratch, out)
    with open(path, "w") as f:
        f.write(src)
    return path


def _tlc(ctx, *a, **kw):
    """ctx.tlc, repeated when the JVM was killed from outside (shared machine): a run that ends by a signal without
    TLC having reported anything says nothing about the specification."""
    for attempt in range(3):
        res = ctx.tlc(*a, **kw)
        killed = res.returncode in (-9, -15, 137, 143) and not res.timed_out and not res.violated and not res.errors
        if not killed:
            return res
        ctx.note(f"TLC run {kw.get('tag')} was killed by a signal (rc={res.returncode}); repeated")
        ctx.tlc_runs[-1]["killed"] = True
    return res


def _design_ok(res, what: str) -> None:
    if res.violated or res.errors or res.returncode != 0:
        raise MachineryError(f"design specification check failed ({what}): rc={res.returncode} violated={res.violated} "
                             f"errors={res.errors[:2]}\n{res.tail(25)}")


def _records(res, what):
    envs, recs = None, []
    for r in res.records():
        if r.get("k") == "envs":
            envs = r["envs"]
        else:
            recs.append(r)
    if envs is None or not recs:
        raise MachineryError(f"{what}: TLC printed no records")
    os.unlink(res.out_path)
    # TLC's output order depends on worker scheduling: everything downstream (ids, chunking, the whitespace style and
    # the seeded ragged whitespace a record gets) is derived from a canonical order
    recs.sort(key=lambda r: json.dumps([r["t"], r.get("toks")], sort_keys=True))
    return envs, recs


def _merge(acc: dict, sig: str, d: dict) -> None:
    cur = acc.get(sig)
    if cur is None:
        acc[sig] = d
        return
    n = cur["count"] + d["count"]
    if (d["size"], str(d["case"])) < (cur["size"], str(cur["case"])):
        acc[sig] = d
    acc[sig]["count"] = n


def _pool(tasks, violations, agg):
    tasks = [t for t in tasks if t["recs"]]
    if not tasks:
        return
    with mp.Pool(min(NCPU, len(tasks))) as pool:
        for r in pool.imap_unordered(sd.run_chunk, tasks, chunksize=1):
            for k in ("trees", "evals", "texts", "text_evals", "skipped_undef", "nonint", "simplify_s",
                      "residual_texts", "undefined_everywhere", "wall"):
                agg[k] = agg.get(k, 0) + r[k]
            agg["consequential"] = agg.get("consequential", 0) + r.get("consequential", 0)
            agg["simplify_max"] = max(agg.get("simplify_max", 0.0), r["simplify_max"])
            for k, n in r["stats"].items():
                agg["stats"][k] = agg["stats"].get(k, 0) + n
            for k, n in r["keys"].items():
                agg["keys"][k] = agg["keys"].get(k, 0) + n
            for k, v in r["blocked"].items():
                if k.startswith("sample:"):
                    agg["blocked"].setdefault(k, v)
                else:
                    agg["blocked"][k] = agg["blocked"].get(k, 0) + v
            for sig, d in r["viol"].items():
                _merge(violations, sig, d)
            agg["printed"].extend(r["printed"])
            agg["samples"].extend((r.get("chunk", 0), x) for x in r["samples"])


def _chunks(recs, envs, n, seed, **kw):
    n = max(1, min(n, len(recs)))
    return [dict(envs=envs, recs=recs[i::n], seed=seed * 1000 + i, chunk=seed * 1000 + i, styles=STYLES, **kw)
            for i in range(n)]


def run(ctx):
    thorough = ctx.tier == "thorough"
    t_start = time.time()
    violations: dict = {}
    agg = dict(stats={}, keys={}, blocked={}, printed=[], samples=[])
    rem = ctx.seed % 9973
    parts = {}

    # ---- (1)+(2) the five enumerations, side by side (counted in the main thread) -------------------------------
    #   shapes: explicit strings, precedence / associativity lemmas
    #   ops:    all trees of depth <= 2 over the overloaded operators.  LightLemmas stays TRUE here also in the thorough
    #           tier (PartialOK / all print modes on the ~35 000 emitted trees rather than on all 406 125: ~10 ms each)
    #   signs:  the rounding operators with negated leaves (one symbol: negative non-integer operands at depth 2)
    #   mixed:  floor ceil trunc neg // % over quotients of sign-undetermined differences (depth 3), all emitted
    #   gram:   all trees of depth <= 2 over the operators of the grammar, ** and sqrt included
    light = "FALSE" if thorough else "TRUE"
    big = 3600 if thorough else 900
    jobs = dict(
        shapes=dict(cfg=os.path.join(SYM, "SymDimMC_shapes.cfg"), workers=2, timeout=600,
                    what="ShapeMeaning / ShapeReprint / constant-level lemmas"),
        ops=dict(cfg=_cfg(ctx.scratch, "SymDimMC_ops.cfg", "ops_v.cfg", PerClass=20 if thorough else 2, SampleRem=rem,
                          LightLemmas="TRUE"), workers=NCPU, timeout=big,
                 what="operator trees: ValueTable RoundTripTree DesugarOK RoundTripValue PartialOK NormalForm Integral"),
        signs=dict(cfg=_cfg(ctx.scratch, "SymDimMC_signs.cfg", "signs_v.cfg", PerClass=12 if thorough else 2, SampleRem=rem,
                            ClosedBoost=64 if thorough else 8, LightLemmas=light), workers=max(2, NCPU // 4), timeout=big,
                   what="signs: ValueTable RoundTripTree DesugarOK RoundTripValue PartialOK NormalForm Integral"),
        mixed=dict(cfg=os.path.join(SYM, "SymDimMC_mixed.cfg"), workers=max(2, NCPU // 4), timeout=big,
                   what="mixed signs: ValueTable RoundTripTree DesugarOK RoundTripValue PartialOK NormalForm Integral MixedIsMixed"),
        gram=dict(cfg=_cfg(ctx.scratch, "SymDimMC_gram.cfg", "gram_v.cfg", PerClass=12 if thorough else 2, SampleRem=rem,
                           LightLemmas=light), workers=max(2, NCPU // 3), timeout=big,
                  what="grammar trees: ValueTable RoundTripTree RoundTripValue PartialOK NormalForm Integral"),
    )
    t0 = time.time()
    with concurrent.futures.ThreadPoolExecutor(len(jobs)) as ex:
        futs = {k: ex.submit(_tlc, ctx, MC, j["cfg"], tag=k, deadlock=False, timeout=j["timeout"], workers=j["workers"],
                             count=False) for k, j in jobs.items()}
        results = {k: f.result() for k, f in futs.items()}
    for k, res in results.items():
        ctx.states += res.distinct
        ctx.transitions += res.generated
        _design_ok(res, jobs[k]["what"])
        parts["tlc_" + k] = round(res.wall_s, 1)
    parts["tlc_enumerations_side_by_side"] = round(time.time() - t0, 1)
    n_enum_ops, n_enum_signs, n_enum_gram = results["ops"].distinct, results["signs"].distinct, results["gram"].distinct
    n_enum_mixed = results["mixed"].distinct
    envs3, shapes = _records(results["shapes"], "shapes")
    envs2, trees = _records(results["ops"], "ops")
    envs1, strees = _records(results["signs"], "signs")
    envs2m, mtrees = _records(results["mixed"], "mixed")
    envs2g, gtrees = _records(results["gram"], "gram")
    if envs2g != envs2 or envs2m != envs2:
        raise MachineryError("the two enumerations use different binding tables")

    # ---- (3) thorough: random trees of depth 3 -------------------------------------------------------------
    rtrees = []
    if thorough:
        t0 = time.time()
        # initial states are generated by one thread: several seeds side by side
        def one(k):
            cfg = _cfg(ctx.scratch, "SymDimMC_rand.cfg", f"rand_{k}.cfg", NRand=1250, RandDepth=3)
            return _tlc(ctx, MC, cfg, tag=f"rand{k}", deadlock=False, timeout=3000, seed=ctx.seed + k, workers=1, heap="2g")

        with concurrent.futures.ThreadPoolExecutor(8) as ex:
            rand_results = list(ex.map(one, range(8)))
        for res in rand_results:
            _design_ok(res, "random trees of depth 3")
            e, rr = _records(res, "rand")
            if e != envs2:
                raise MachineryError("random run uses a different binding table")
            rtrees.extend(rr)
        parts["tlc_rand"] = round(time.time() - t0, 1)

    # ---- (4) replay into the real library ---------------------------------------------------------------------
    t0 = time.time()
    nid = 0
    for group in (trees, mtrees, strees, gtrees, rtrees, shapes):
        for r in group:
            r["id"] = nid
            nid += 1
    opts = dict(residual_all=thorough, simplify_timeout=30.0)
    tasks = []
    # the mixed-signs family is about rounding: its strings go to the parser in one form only (quick tier)
    tasks += _chunks(mtrees, envs2, NCPU * 4, ctx.seed + 4, operators=True, grammar=True, opts=opts, all_styles=thorough,
                     one_text=not thorough)
    tasks += _chunks(trees + rtrees, envs2, NCPU * 6, ctx.seed, operators=True, grammar=True, opts=opts,
                     all_styles=thorough)
    tasks += _chunks(strees, envs1, NCPU * 2, ctx.seed + 3, operators=True, grammar=True, opts=opts, all_styles=thorough)
    tasks += _chunks(gtrees, envs2, NCPU * 2, ctx.seed + 1, operators=False, grammar=True, all_styles=thorough)
    tasks += _chunks(shapes, envs3, 4, ctx.seed + 2, operators=False, grammar=True)
    # long chunks first
    tasks.sort(key=lambda t: -len(t["recs"]) * (3 if t.get("operators") else 1))
    _pool(tasks, violations, agg)
    parts["replay"] = round(time.time() - t0, 1)
    n_trees = agg.get("trees", 0)
    ctx.replayed += n_trees + agg.get("texts", 0)
    ctx.evaluations += agg.get("evals", 0) + agg.get("text_evals", 0)

    # the binding must have reached every operator from both sides
    need = [f"{o}:{k}" for o in ("add", "sub", "mul", "truediv") for k in ("dim,dim", "dim,int", "int,dim")]
    need += [f"{o}:{k}" for o in ("floordiv", "mod", "min", "max") for k in ("dim,dim", "dim,int", "int,dim")]
    missing = [k for k in need if not agg["stats"].get(k)]
    if missing:
        raise MachineryError(f"operator/operand-kind combinations never executed: {missing}")
    if n_trees != len(trees) + len(mtrees) + len(rtrees) + len(strees):
        raise MachineryError(f"replayed {n_trees} trees, TLC printed {len(trees) + len(mtrees) + len(rtrees) + len(strees)}")

    # ---- (5) code -> specification: Meaning of the strings the library printed ----------------------------------
    t0 = time.time()
    by_id = {r["id"]: r for r in trees + mtrees + rtrees}
    for r in strees:   # one-symbol value tables, spread over the two-symbol binding table of the text run
        by_id[r["id"]] = dict(r, vals=[r["vals"][envs1.index({k: e[k] for k in envs1[0]})] for e in envs2])
    texts: dict = {}
    unlexable = bignum = 0
    for p in agg["printed"]:
        toks = sd.lex(p["text"])
        if toks is None:
            unlexable += 1
            continue
        if any(tk.isdigit() and int(tk) > MAXNUM_TEXT for tk in toks):
            bignum += 1
            continue
        texts.setdefault(p["text"], dict(toks=toks, ids=[]))["ids"].append(p["id"])
    order = sorted(texts)
    tf = os.path.join(ctx.scratch, "texts.json")
    with open(tf, "w") as f:
        json.dump([dict(id=str(i), toks=texts[tx]["toks"]) for i, tx in enumerate(order)], f)
    text_outcome = dict(agrees=0, outside_grammar=0, disagrees=0)
    outside_funcs: dict = {}
    disagree_samples = []
    if order:
        res = _tlc(ctx, MC, os.path.join(SYM, "SymDimMC_text.cfg"), tag="text", deadlock=False, timeout=1800,
                      env={"TEXT_FILE": tf}, count=False)
        _design_ok(res, "Meaning of printed strings")
        got = {int(r["id"]): r for r in res.records() if r.get("k") == "text"}
        os.unlink(res.out_path)
        if len(got) != len(order):
            raise MachineryError(f"text run: {len(got)} answers for {len(order)} strings")
        for i, tx in enumerate(order):
            g = got[i]
            texts[tx]["spec"] = g
            for rid in texts[tx]["ids"]:
                vals = by_id[rid]["vals"]
                if not g["ok"]:
                    text_outcome["outside_grammar"] += 1
                    for m in re.finditer(r"([A-Za-z_][A-Za-z0-9_.]*)\(", tx):
                        if m.group(1) not in ("max", "Max", "min", "Min", "floor", "sqrt", "mod", "Mod"):
                            outside_funcs[m.group(1)] = outside_funcs.get(m.group(1), 0) + 1
                elif all(q[1] == 0 or q == m for q, m in zip(vals, g["mvals"])):
                    text_outcome["agrees"] += 1
                else:
                    text_outcome["disagrees"] += 1
                    if len(disagree_samples) < 5:
                        disagree_samples.append(dict(tree=sd.tree_str(by_id[rid]["t"]), printed=tx))
        ctx.validated += text_outcome["agrees"]
    parts["tlc_text"] = round(time.time() - t0, 1)

    # blame for re-parse failures: what the printed string means under the standard grammar (TLC)
    for sig, d in violations.items():
        tx = (d.get("failure") or {}).get("text")
        if d["failure"]["check"] in ("reparse", "serde") and tx in texts and "spec" in texts[tx]:
            g = texts[tx]["spec"]
            vals = d["case"]["vals"]
            if len(vals) != len(g["mvals"]) and g["ok"]:
                vals = [vals[envs1.index({k: e[k] for k in envs1[0]})] for e in envs2]
            if not g["ok"]:
                d["printed_string_under_standard_grammar"] = "not a string of the documented grammar"
            elif all(q[1] == 0 or q == m for q, m in zip(vals, g["mvals"])):
                d["printed_string_under_standard_grammar"] = "means the tree's value: the printer is right, the parser reads it differently"
            else:
                d["printed_string_under_standard_grammar"] = "means something else: the printed string itself is wrong"

    # ---- verdicts and evidence -----------------------------------------------------------------------------------
    for sig, d in sorted(violations.items()):
        d = dict(d)
        d.pop("size", None)
        ctx.violation(sig, d)
    nontrivial = 0
    for k, n in agg["keys"].items():
        nt = k.startswith("text:") or ("(" in k and any(o + "," in k or o + ")" in k for o in sd.UN + sd.BIN))
        nontrivial += 1 if nt else 0
        ctx.case(k, nontrivial=nt, n=0)
    divergences = {}
    for k in ("unsupported-reflected:floordiv", "unsupported-reflected:mod"):
        if agg["stats"].get(k):
            divergences["DIV:" + k] = agg["stats"][k]
    if text_outcome["disagrees"] and not any(s.startswith("C16:evaluate") for s in violations):
        divergences["DIV:printed-string-means-something-else"] = text_outcome["disagrees"]
    if divergences:
        ctx.note("int // dim and int % dim raise TypeError (SymbolicDim has no __rfloordiv__/__rmod__); C16 does not "
                 "demand them, the trees are built from the constant dimension SymbolicDim('k') instead")
    if agg["stats"].get("simplify-timeout"):
        ctx.note(f"simplify() exceeded {opts['simplify_timeout']} s on {agg['stats']['simplify-timeout']} trees (skipped)")
    agg["samples"] = [x for _, x in sorted(agg["samples"], key=lambda p: (p[0], str(p[1])))[:2]]
    ctx.samples = (agg["samples"] + [dict(kind="shape", text="".join(shapes[0]["toks"]),
                                          meaning=sd.tree_str(shapes[0]["t"]))])[:3]
    ctx.extra.update(
        constants=dict(symbols=["N", "M"], leaf_constants=[1, 2, 3], binding_values=[1, 2, 3, 4],
                       depth_enumerated=2, depth_random=3 if thorough else None,
                       per_class_ops=20 if thorough else 2, per_class_grammar=12 if thorough else 2, per_class_signs=12 if thorough else 2,
                       sample_rem=rem, shape_strings=len(shapes), shape_symbols=["N", "M", "K"]),
        trees_enumerated_by_tlc=dict(operators=n_enum_ops, signs=n_enum_signs, grammar=n_enum_gram,
                                     mixed_signs_depth3=n_enum_mixed),
        trees_replayed=dict(operators=len(trees), signs=len(strees), mixed_signs_depth3=len(mtrees), grammar=len(gtrees),
                            random_depth3=len(rtrees)),
        texts_parsed_by_real_parser=agg.get("texts", 0),
        evaluations_by_kind=dict(operator_part=agg.get("evals", 0), grammar_part=agg.get("text_evals", 0)),
        bindings_skipped_undefined=agg.get("skipped_undef", 0),
        bindings_with_fractional_value=agg.get("nonint", 0),
        trees_undefined_under_every_binding=agg.get("undefined_everywhere", 0),
        residual_texts_reparsed=agg.get("residual_texts", 0),
        operator_operand_kinds=dict(sorted(agg["stats"].items())),
        blocked=agg["blocked"],
        consequential_failures_not_reported_separately=agg.get("consequential", 0),
        printed_strings=dict(distinct=len(order), unlexable=unlexable, numeral_beyond_table=bignum, **text_outcome,
                             functions_outside_documented_grammar=outside_funcs, disagree_samples=disagree_samples),
        divergences=divergences,
        simplify=dict(total_s=round(agg.get("simplify_s", 0.0), 1), max_s=round(agg.get("simplify_max", 0.0), 2)),
        replay_cpu_s=round(agg.get("wall", 0.0), 1),
        wall_parts_s=dict(parts, total=round(time.time() - t_start, 1)),
    )
    ctx.rule = (
        "replayed = trees built with the real operators + strings given to the real parser; validated = strings printed "
        "by the library whose Meaning (TLC) has the tree's values; evaluations = individual evaluate() results compared "
        "with TLC's value; distinct_nontrivial = distinct (root operator, operand operators[, has undefined binding]"
        "[, has fractional value]) combinations with an operator applied to an operator result + distinct text classes."
    )
    ctx.exhaustive = False
    ctx.assumptions = [
        "small scope: depth <= 2 exhaustive in TLC (2 symbols, constants {1,2,3}; grammar part: constant 2, ** and sqrt "
        "included), stratified sample of it replayed (all trees of depth <= 1, all trees with a unary root, ~PerClass per "
        "(root, operand operators) class); depth 3: the mixed-signs family (2 088 trees, all replayed) in both tiers, "
        "random generation in the thorough tier",
        "positive bindings {1..4}^2 (the parser creates positive integer symbols); bindings with a division by zero are skipped",
        "exact rationals; ** only with integer exponent and within 32-bit range, sqrt only of perfect squares (else skipped)",
        "min/max are built textually (SymbolicDim('max(a, b)')): the class defines no ordering for the builtins",
        "whitespace variants are produced by the harness (whitespace is lexical); multi-digit numerals only in the shape strings",
        "SymPy's simplifier is trusted only through the equality of values on the enumerated bindings",
    ]


def replay(ctx, detail) -> bool:
    """Re-execute one recorded violation on the current tree; True if it still violates."""
    import onnx_ir as ir

    case = detail["case"]
    envs = case["envs"]
    if case["kind"] == "text":
        fails, _ = sd.check_text(case["text"], case["mvals"], envs, ir)
    else:
        rec = dict(k="tree", id=0, t=case["t"], vals=case["vals"], fs=sorted({s for s in _syms(case["t"])}), d=2)
        fails = sd.check_tree(rec, envs, ir, {})["fails"]
    for f in fails[:5]:
        print({k: v for k, v in f.items() if v is not None})
    print(f"{len(fails)} failing comparisons" if fails else "no failing comparison")
    return bool(fails)


def _syms(t):
    if t["op"] == "sym":
        yield t["s"]
    for k in ("a", "b"):
        if k in t:
            yield from _syms(t[k])
