"""C18 - region extraction and capture analysis are exact."""
import concurrent.futures as cf
import json
import os
import random

import numpy as np

from .. import extract as X
from ..common import NCPU, SPECS, MachineryError

LEVEL = "model_checking"
DIR = os.path.join(SPECS, "rewrite")
TLA = os.path.join(DIR, "ExtractMC.tla")

# (cfg tag, what it enumerates, replay policy quick, replay policy thorough)
QUICK = [
    ("q3", "<=3 nodes, <=1 nested body, single outputs, every cut", "rotate"),
    ("q2", "<=2 nodes, leaf kinds in/init and in/both (a graph input that is also an initializer), one two-output node, omitted (None) inputs, Graph and Function kinds, every cut", "rotate"),
    ("d2", "3 nodes, 3 graphs: depth-2 nesting and two bodies on one node, every cut", "rotate"),
    ("d3", "5 nodes, 4 graphs with a body nested 3 deep (one shape per renumbering), <=1 input per node, cuts with one output", "rotate"),
]
THOROUGH = [
    ("q3", QUICK[0][1], "all"),
    ("q2", QUICK[1][1], "all"),
    ("d2", QUICK[2][1], "all"),
    ("d3", QUICK[3][1], "all"),
    ("tl", "<=2 nodes, leaf kinds in/in/init and in/both, one two-output node, Graph and Function kinds, every cut", "rotate"),
    ("t3", "3 nodes, one two-output node, <=1 nested body, cuts with <=2 outputs", "rotate"),
    ("td", "4 nodes, 3 graphs, depth <=2, cuts with <=2 outputs", "rotate"),
    ("t4", "4 nodes, <=1 nested body, single outputs, cuts with one output (NeedUnion lemma covers unions)", "rotate"),
]


def _cfg(tag):
    return os.path.join(DIR, f"ExtractMC_{tag}.cfg")


def run(ctx):
    plan = THOROUGH if ctx.tier == "thorough" else QUICK
    big = {"q3", "q2", "d3", "t3", "t4", "td", "tl"}

    def one(item):
        tag = item[0]
        return tag, ctx.tlc(TLA, _cfg(tag), tag=tag, timeout=3000, workers=NCPU if tag in big else 4, heap="6g" if tag in ("t3", "t4", "td", "tl") else "3g")

    # design-level check + enumeration.  Small runs in parallel, the large thorough ones one after the other.
    results = {}
    par = [p for p in plan if p[0] not in ("t3", "t4", "td")]
    seq = [p for p in plan if p[0] in ("t3", "t4", "td")]
    with cf.ThreadPoolExecutor(max_workers=len(par)) as ex:
        for tag, res in ex.map(one, par):
            results[tag] = res
    for item in seq:
        tag, res = one(item)
        results[tag] = res
    for tag, res in results.items():
        if not res.ok:
            raise MachineryError(f"ExtractMC_{tag}: design theorems not established: violated={res.violated} "
                                 f"errors={res.errors[:2]}\n{res.tail(25)}")

    # the strong (free-variable) reading of DenEq is NOT a theorem of the transcribed cloner: show it
    free = ctx.tlc(TLA, _cfg("free"), tag="free", timeout=600, workers=2, count=False, heap="1g")
    if "InvAlgDenEqFree" in free.violated:
        ctx.note("design level: InvAlgDenEqFree (boundary inputs as free variables) is violated by a one-node instance with "
                 "two outputs - a boundary input produced by a needed node is shadowed by the re-computed value; the "
                 "statement's reading (evaluated on the source's values) holds: InvAlgDenEq")
    else:
        ctx.note(f"ExtractMC_free: expected counterexample not produced (violated={free.violated}, errors={free.errors[:1]})")
    ctx.extra["strong_reading_counterexample_found"] = "InvAlgDenEqFree" in free.violated

    # action coverage (anti-vacuity), on the small depth-2 configuration
    cov = ctx.tlc(TLA, _cfg("d2"), tag="cov", timeout=900, workers=4, coverage=True, count=False, heap="2g")
    acts = {k: v for k, v in cov.coverage.items() if k.split("!")[-1] in ("Init", "Choose", "Extract")}
    ctx.extra["action_coverage"] = acts
    for a in ("Choose", "Extract"):
        if not any(k.endswith("!" + a) and v[0] > 0 for k, v in acts.items()):
            raise MachineryError(f"action {a} never taken in the coverage run: {acts}")

    # conformance: every emitted (instance, cut) executed on the real library
    divs, div_samples, per_cfg = {}, {}, {}
    total_cuts = 0
    for tag, what, policy in plan:
        r = X.replay_file(results[tag].out_path, policy=policy, seed=ctx.seed, stride=1, nproc=NCPU)
        if r["unparsed"]:
            raise MachineryError(f"{r['unparsed']} records of ExtractMC_{tag} could not be parsed")
        if r["instances"] == 0 or r["cuts"] == 0:
            raise MachineryError(f"ExtractMC_{tag} emitted no instance")
        ctx.extra["edit_between_extractions_steps"] = ctx.extra.get("edit_between_extractions_steps", 0) + r.get("history_steps", 0)
        per_cfg[tag] = dict(what=what, instances=r["instances"], cuts=r["cuts"], calls=r["calls"], policy=policy,
                            violations=r["vio_count"])
        total_cuts += r["cuts"]
        ctx.replayed += r["cuts"]
        ctx.evaluations += r["calls"]
        for k in r["kinds"]:
            ctx.case(k, nontrivial=True, n=0)
        for s in r["samples"]:
            ctx.case(None, sample=s, n=0)
        for sig, d in r["findings"].items():
            d = dict(d, cfg=tag, occurrences=r["vio_count"].get(sig, 1))
            ctx.violation(sig, d)
        for c, n in r["div"].items():
            divs[c] = divs.get(c, 0) + n
        for c, d in r["div_sample"].items():
            div_samples.setdefault(c, d)
        if tag == "q3":
            _auxiliary_evaluation(ctx, results[tag].out_path)
        os.remove(results[tag].out_path)
    # divergences = differences between the transcribed algorithm and the code that the property does not forbid
    # (initializer listing); the rest are behaviours the model has too and the statement allows (which exception is
    # raised, shadowed boundary inputs): reported as observations
    is_div = lambda c: c.startswith("init-")  # noqa: E731
    ctx.extra["divergences"] = {c: n for c, n in divs.items() if is_div(c)}
    obs = _probe_other_graph_likes()
    obs.update({c: n for c, n in divs.items() if not is_div(c)})
    ctx.extra["observations"] = obs
    ctx.extra["observation_samples"] = div_samples
    ctx.extra["per_cfg"] = per_cfg
    for c, n in ctx.extra["divergences"].items():
        ctx.note(f"divergence {c}: {n} cases, e.g. {json.dumps(div_samples.get(c))[:300]}")

    ctx.rule = ("TLC enumerates every instance of the bounded scope (graph forest, inputs among visible values) and every cut "
                "(all subsets of root values as boundary inputs x non-empty subsets as outputs), checks the theorems of "
                "Extract.tla (transcribed walk/frontier check/cloner = least closed node set, raise iff frontier, denotation "
                "preserved, capture DFS = Captures) on each and prints the declarative expectation; every cut is executed on "
                "real objects through >=2 of the 6 API variants {Graph,Function,GraphView} x {by object, by name} (all 6 "
                "in the thorough tier on the quick scope) with GRAPH and GRAPHS attribute encodings of the bodies. "
                "distinct_nontrivial = distinct (raise/ok, body needed, boundary cuts an edge, initializers needed, "
                "|Need|, multi-output) combinations among cuts that raise, need a node carrying a body, or cut an edge; "
                "plus capture-set shapes.")
    ctx.assumptions = [
        "source graphs are topologically sorted, well formed models (a node uses leaves, earlier outputs of its own or "
        "an enclosing graph, or the formal input of an enclosing body)",
        "cuts are taken among the values of the root graph; extraction from a nested body object is not enumerated",
        "every nested body has one formal input and outputs the outputs of its last node; <=2 inputs and <=2 outputs per node",
        "an initializer that is given as boundary input may additionally be listed as initializer of the result "
        "(Graph/GraphView do, Function does not): not constrained by the statement",
        "DenEq is taken in the statement's reading: the extracted graph evaluated ON THE SOURCE'S VALUES at the boundary",
        "analyze_implicit_usage is bound on ir.Graph only (its declared parameter type)",
    ]
    ctx.exhaustive = True


def _probe_other_graph_likes():
    """Not part of the verdict: what analyze_implicit_usage does on the graph-likes it is not declared for."""
    from onnx_ir.analysis import analyze_implicit_usage

    src = X.Src(dict(g=[1, 2], o=[0, 1], n=[1, 1], i=[[], [1]], l=["in", "init"]))
    out = {}
    for t in ("function", "view"):
        try:
            got = analyze_implicit_usage(src.target(t))
            out[f"analyze_implicit_usage({t})"] = f"returned {len(got)} entries"
        except Exception as e:  # noqa: BLE001
            out[f"analyze_implicit_usage({t})"] = f"raises {type(e).__name__} when a body captures a value of the function/view graph"
    return out


def _auxiliary_evaluation(ctx, path):
    """A seeded sample of flat emitted instances evaluated with onnx.reference on a concrete instantiation."""
    rng = random.Random(ctx.seed)
    nrng = np.random.default_rng(ctx.seed)
    want = 400 if ctx.tier == "thorough" else 120
    offs = [o for o, _ in X.record_offsets(path)]
    rng.shuffle(offs)
    recs = []
    with open(path, "rb") as f:
        for off in offs[:400]:
            f.seek(off)
            rec = json.loads(json.loads(f.readline().decode()))
            if X.concretizable(rec):
                recs.append(rec)
            if len(recs) >= 60:
                break
    stats = {"equal": 0, "raised": 0, "differs": 0, "skipped": 0}
    tries = 0
    while recs and stats["equal"] < want and tries < want * 6:
        tries += 1
        rec = rng.choice(recs)
        ins, outs, exp = rng.choice(rec["cuts"])
        if exp[0] or not exp[1]:
            stats["skipped"] += 1
            continue
        try:
            status, msg = X.evaluate_cut(rec, ins, outs, nrng)
        except Exception as e:  # noqa: BLE001 - auxiliary machinery, never a verdict
            stats["skipped"] += 1
            stats["last_error"] = f"{type(e).__name__}: {str(e)[:200]}"
            continue
        stats[status] += 1
        if status == "differs":
            inst = dict(g=rec["g"], o=rec["o"], n=rec["n"], i=rec["i"], l=rec["l"])
            ctx.violation("C18:extract:evaluation-differs:flat",
                          dict(kind="evaluate", instance=inst, ins=ins, outs=outs, message=msg))
        elif status == "raised":
            inst = dict(g=rec["g"], o=rec["o"], n=rec["n"], i=rec["i"], l=rec["l"])
            ctx.violation("C18:extract:raises-on-bounded-region:flat",
                          dict(kind="extract", instance=inst, mode="graph", target="graph", by="obj", ins=ins, outs=outs,
                               expected=exp, den=rec["den"], message="raised during the concrete evaluation sample"))
    ctx.evaluations += stats["equal"] + stats["differs"]
    ctx.extra["reference_evaluation"] = stats
    if stats["equal"] == 0:
        ctx.note(f"auxiliary reference evaluation produced no comparison: {stats}")


def replay(ctx, detail) -> bool:
    kind = detail.get("kind")
    src = X.Src(detail["instance"], detail.get("mode", "graph"))
    if kind == "captures":
        vio = X.judge_captures(src, detail["caps"], detail["target"])
        print("analyze_implicit_usage:", vio)
        return bool(vio)
    if kind == "evaluate":
        status, msg = X.evaluate_cut(detail["instance"], detail["ins"], detail["outs"], np.random.default_rng(ctx.seed))
        print(status, msg)
        return status == "differs"
    if kind == "source":
        for ins, outs in detail.get("cuts", []):
            for target, by in X.VARIANTS:
                X.run_cut(src, ins, outs, target, by)
        return not src.unchanged()
    res, exc = X.run_cut(src, detail["ins"], detail["outs"], detail["target"], detail["by"])
    vio, div = X.judge(src, detail["ins"], detail["outs"], detail["expected"], detail["den"], detail["target"], res, exc)
    print("extract ->", "raised " + type(exc).__name__ if exc is not None else [n.op_type for n in res])
    print("violations:", json.dumps(vio)[:600], "divergences:", [d[0] for d in div])
    return bool(vio)
