"""C01 - use-def and ownership links stay consistent under every edit history."""
from .. import ircheck

LEVEL = "model_checking"


def run(ctx):
    ircheck.run_engine(ctx, "C01")


def replay(ctx, detail) -> bool:
    return ircheck.replay_detail(ctx, detail, "C01")
