"""C05 - every built-in pass, alone or composed, preserves what the model computes."""
from .. import passcheck

LEVEL = "model_checking"


def run(ctx):
    passcheck.run_engine(ctx, "C05")


def replay(ctx, detail) -> bool:
    return passcheck.replay_detail(ctx, detail, "C05")
