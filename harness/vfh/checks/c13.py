"""C13 - clones are faithful and fully independent of their originals."""
import os
import re

from .. import irclone, passcheck
from ..common import NCPU, SPECS, MachineryError

LEVEL = "model_checking"
IR = os.path.join(SPECS, "ir")
NAMES4 = ["a", "b", "a", "<none>"]
CONSTS4 = [True, True, False, True]


def run(ctx):
    depth = 4 if ctx.tier == "thorough" else 3
    src = open(os.path.join(IR, "IRCloneMC.cfg")).read()
    src = re.sub(r"MaxDepth = \d+", f"MaxDepth = {depth}", src)
    cfg = os.path.join(ctx.scratch, "IRCloneMC_v.cfg")
    open(cfg, "w").write(src)
    res = ctx.tlc(os.path.join(IR, "IRCloneMC.tla"), cfg, tag="mc-clone", timeout=6000, heap="28g" if ctx.tier == "thorough" else "8g")
    if not res.ok:
        raise MachineryError(f"design spec check failed: {res.violated} {res.errors[:2]}\n{res.tail(25)}")
    findings, stats, kinds = irclone.replay_file(res.out_path, dict(names=NAMES4, consts=CONSTS4), nproc=NCPU)
    if stats.get("unparsed"):
        raise MachineryError(f"{stats['unparsed']} emitted records could not be parsed")
    divs = {}
    for sig, f in findings.items():
        if f["cls"] == "C13":
            ctx.violation(sig, f)
        else:
            divs[sig] = f.get("count", 1)
    ctx.replayed += stats.get("states", 0)
    ctx.evaluations += stats.get("calls", 0)
    for k in kinds:
        ctx._distinct.add(k)
    os.unlink(res.out_path)
    # last clause of the statement: a functionalized pass never alters its input model
    passcheck.functionalize_stage(ctx, 1200 if ctx.tier == "thorough" else 240)
    ctx.extra["divergences"] = divs
    ctx.extra["states_unreachable_on_code"] = stats.get("pre_mismatch", 0)
    ctx.extra["clone_api_variants"] = ["Graph.clone", "GraphView.clone", "Model.clone", "Function.clone"]
    ctx.samples = [{"kinds": sorted(kinds)[:10]}]
    ctx.rule = ("TLC explores IRCloneMC: from three seed graphs (nested capture, unsorted, value listed several times) a clone of any "
                "graph at any state followed by any edit (structure, names, types, shapes, constants, metadata, attributes) of either copy; "
                "every (state, call) is executed on real objects; after an edit every observable cell that changed must be one the model "
                "changes (any other change = shared state between the copies); at the clone step object identity of graphs/nodes/values/shapes/"
                "types/metadata containers, closedness and serialization equality are checked. distinct_nontrivial = (op, model outcome, code "
                "outcome, after-clone?) classes.")
    ctx.assumptions = ["nesting depth <= 2, <= 4 graphs, <= 2 calls after the seed in the quick tier",
                       "a failed clone(allow_outer_scope_values=True) leaving uses on outer-scope values is recorded as divergence, the statement is silent on failed clones"]
    ctx.exhaustive = True


def replay(ctx, detail) -> bool:
    if detail.get("kind") == "functionalize":
        from .. import passrun

        out = passrun.run_functionalized(detail["program"], detail["program_id"])
        bad = [a for a in out["apps"] if a["id"].split(":", 1)[1] == detail["passes"]
               and not a["a"]["funcRaised"] and not (a["a"]["funcInputSame"] and a["a"]["funcFresh"])]
        print("functionalize(", detail["passes"], "):", [a["a"] for a in out["apps"] if a["id"].split(":", 1)[1] == detail["passes"]])
        return bool(bad)
    r = irclone.CloneReplayer(NAMES4, CONSTS4)
    rec = dict(h=detail["history"], pre=None, rows=[])
    u = r.build(detail["history"])
    pre = u.project_c()
    c = irclone.call_from_compact(detail["call"])
    got = u.apply(c)
    print("call", detail["call"], "->", got, "shared:", u.shared_on_clone, "refs source:", u.clone_refs_source)
    post = u.project_c()
    changed = sorted(k for k in irclone.cells(post) if irclone.cells(post)[k] != irclone.cells(pre).get(k))
    print("changed cells:", changed[:12])
    return bool(u.shared_on_clone or u.clone_refs_source or len(changed) > 1)
