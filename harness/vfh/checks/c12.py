"""C12 - topological sort is correct across scopes, stable, deterministic, atomic."""
from .. import topocheck

LEVEL = "model_checking"


def run(ctx):
    topocheck.run_engine(ctx)


def replay(ctx, detail) -> bool:
    return topocheck.replay_detail(ctx, detail)
