"""C02 - ONNX proto -> IR -> proto is lossless for every supported proto (up to the documented normalisations)."""

import os

from .. import serde_check as S
from .. import serde_run as R
from ..common import MachineryError

LEVEL = "model_checking"

# tier -> list of (tag, base cfg, constants)
PLANS = {
    "quick": [
        ("graphs-ir11", "SerdeMC_valid.cfg", dict(MaxSlots=3, MaxGraphs=3, MaxNodes=2, Irvs="{11}", WithFunc='"no"')),
        ("graphs-ir9", "SerdeMC_valid.cfg", dict(MaxSlots=3, MaxGraphs=2, MaxNodes=2, Irvs="{9}", WithFunc='"no"')),
        ("functions", "SerdeMC_func.cfg", dict(MaxSlots=3, MaxGraphs=2, MaxNodes=2, Irvs="{9, 10, 11}")),
    ],
    "thorough": [
        ("graphs-ir11", "SerdeMC_valid.cfg", dict(MaxSlots=4, MaxGraphs=3, MaxNodes=2, Irvs="{11}", WithFunc='"no"')),
        ("graphs-3nodes", "SerdeMC_valid.cfg", dict(MaxSlots=3, MaxGraphs=2, MaxNodes=3, Irvs="{11}", WithFunc='"no"')),
        ("graphs-ir9", "SerdeMC_valid.cfg", dict(MaxSlots=3, MaxGraphs=3, MaxNodes=2, Irvs="{9, 10}", WithFunc='"no"')),
        ("functions", "SerdeMC_func.cfg", dict(MaxSlots=4, MaxGraphs=3, MaxNodes=2, Irvs="{9, 10, 11}")),
    ],
}


def run(ctx):
    plan = PLANS[ctx.tier]
    total = dict(n=0, valid=0, strict=0, model_c02_false=0, model_c17_false=0, explicit_mismatch=0, unparsed=0, parts=0)
    viol, lenient, used, features, actions = {}, {}, {}, set(), {}
    consts, all_samples = {}, []
    for tag, base, kv in plan:
        cfg = S.write_cfg(ctx, base, f"c02_{tag}.cfg", **kv)
        consts[tag] = S.constants_of(cfg)
        res = S.run_mc(ctx, cfg, f"mc-{tag}")
        results, lost = S.pool_map(R.work_c02, S.chunks_of(res.out_path, 400, ctx.seed), stream=True)
        if lost:
            raise MachineryError(f"{len(lost)} replay chunks of {tag} did not complete")
        for r in results:
            for k in total:
                total[k] += r[k]
            S.merge_cases(viol, r["viol"])
            S.merge_cases(lenient, r["lenient"])
            for k, v in r["used"].items():
                used.setdefault(k, set()).update(v)
            features.update(r["features"])
            S.merge_counts(actions, r["actions"])
            all_samples.extend(r["samples"])
        os.remove(res.out_path)
    ctx.samples = sorted(all_samples, key=S.case_key)[:3]
    if total["unparsed"]:
        raise MachineryError(f"{total['unparsed']} emitted records could not be parsed")
    if total["explicit_mismatch"]:
        raise MachineryError(f"{total['explicit_mismatch']} protos: harness' explicit form differs from the specification's")
    if total["model_c02_false"] or total["model_c17_false"]:
        raise MachineryError(f"the design specification itself violates C02 on {total['model_c02_false']} / C17 on {total['model_c17_false']} valid protos")
    if total["valid"] == 0:
        raise MachineryError("no valid proto was emitted")

    # every action of the generator was taken (evidence: the emitted protos contain the element it adds;
    # TLC's own -coverage instrumentation does not terminate on the recursive operators of Serde.tla)
    expected_actions = {"BAddIn", "BAddInit", "BAddOut", "BAddNode", "BAddNIn", "BAddNOut", "BAddVI", "BAddQ", "BAddSub", "BAddFunc/Init(func)", "BAddDocOnly"}
    ctx.extra["generator_actions_taken"] = actions
    never = sorted(expected_actions - set(actions))
    if never:
        raise MachineryError(f"generator actions never taken: {never}")

    # the pinned code's known deviations break C02 at the design level too (Dev switches them on in the model)
    dev_cfg = S.write_cfg(ctx, "SerdeMC_dev.cfg", "c02_dev.cfg")
    dres = ctx.tlc(S.MC, dev_cfg, tag="mc-dev", timeout=900, deadlock=False, count=False, heap=S.HEAP, workers=S.TLC_WORKERS)
    ctx.extra["design_level_deviations_break_C02"] = "Holds" in dres.violated
    if "Holds" not in dres.violated:
        raise MachineryError("the deviation switches do not break the model's C02: the model does not see payload duplication/loss")

    # every catalogue leaf through its own entry point
    n_leaf, leaf_diffs = R.leaf_roundtrips()
    for d in leaf_diffs:
        ctx.violation(f"C02:{d[1]}:{d[2]}", {"kind": "leaf", "signature": f"C02:{d[1]}:{d[2]}", "leaf": d[0], "path": d[1], "diff": d[2], "what": d[3],
                                             "message": f"catalogue leaf {d[0]} does not round-trip through its entry point: {d[1]} {d[2]} {d[3][:200]}"})
    ctx.evaluations += n_leaf

    for sig, d in sorted(viol.items()):
        d["signature"] = sig
        d["message"] = f"{sig} on {d['count']} enumerated valid protos (entry points {d['entry_points']}); first: {d['what'][:200]}"
        ctx.violation(sig, d)
    only_lenient = {s: d["count"] for s, d in lenient.items() if s not in viol}
    ctx.extra["differences_only_on_unsorted_or_shadowing_protos"] = only_lenient
    for s, d in lenient.items():
        if s not in viol:
            ctx.note(f"difference {s} seen only on valid protos that are not ONNX-strict (unsorted nodes / shadowing): recorded, not a verdict")
    ctx.replayed += total["valid"]
    ctx.evaluations += total["valid"] + total["parts"]
    for f in features:
        ctx.case(f, nontrivial=any(x in f for x in ("capture", "shadow", "vi-", "quant", "passthrough", "init-", "trailing", "unsorted", "func", "empty-in", "dup-")), n=0)
    ctx.extra["protos"] = total
    ctx.extra["constants"] = consts
    ctx.extra["catalogue_leaves_used"] = S.catalogue_coverage(used)
    undrawn = {k: v for k, v in ctx.extra["catalogue_leaves_used"].items() if v[0] < v[1]}
    if undrawn:
        raise MachineryError(f"catalogue leaves never drawn in this run (kind: [drawn, size]): {undrawn}")
    ctx.extra["leaf_entry_point_roundtrips"] = n_leaf
    ctx.extra["divergences"] = {}
    ctx.exhaustive = True
    ctx.rule = ("TLC enumerates every abstract proto within the bounds (SerdeMC, mode 'valid': forests of graphs with inputs, initializers, "
                "nodes, nested graphs, functions, value info, quantization annotations; names up to renaming), proves C02/C17 of Serde.tla on "
                "each and emits (proto, Norm(proto)). Each proto is concretised with payload leaves from the catalogue, run through the real "
                "from_proto/to_proto and compared field by field with the concretised Norm(proto); the graph/function/node/tensor/attribute/"
                "value-info/type parts are also run through their own deserialize_*/serialize_* entry points. distinct_nontrivial = distinct "
                "structural feature combinations (capture, shadowing, value info referenced/unreferenced, quantization, passthrough, "
                "initializer of input/output, trailing empty outputs, unsorted, function, IR class) among the executed protos.")
    ctx.assumptions = [
        "Valid(p): names resolve in the graph or an enclosing one, SSA per graph, value-info entries carry a type and do not name graph inputs/outputs, "
        "carriers of one value (input and output of the same name) agree, quantization annotations name values of their graph, device fields only for IR>=11",
        "a violation is reported only when it shows on an ONNX-strict proto (topologically sorted, no shadowing); others are notes",
        "quantization_annotation and quant_parameter_tensor_names are compared as multisets (keyed entries), like metadata",
        "payload equality is decided on the concrete protobuf messages by the harness; the model decides placement and multiplicity",
    ]


def replay(ctx, detail) -> bool:
    if detail.get("kind") == "leaf":
        _, diffs = R.leaf_roundtrips()
        return any(d[0] == detail["leaf"] and d[1] == detail["path"] and d[2] == detail["diff"] for d in diffs)
    # the expectation Norm(p) is recomputed by TLC for exactly this proto
    rec = _record_for(ctx, detail["p"])
    j = R.judge_c02(rec, detail["salt"])
    sigs = {s for s, _, _ in R.c02_signatures(j)}
    print("signatures now:", sorted(sigs))
    return (detail["signature"] in sigs) if detail.get("signature") else bool(sigs)


def _record_for(ctx, p):
    """Ask TLC for Norm(p) of one given proto (SerdeOne.tla reads it from a file)."""
    import json

    path = os.path.join(ctx.scratch, "one.json")
    with open(path, "w") as f:
        json.dump({"p": p}, f)
    res = ctx.tlc(os.path.join(S.SERDE, "SerdeOne.tla"), os.path.join(S.SERDE, "SerdeOne.cfg"), tag="one", timeout=300, env={"TRACE_FILE": path},
                  deadlock=False, workers=1, heap=S.HEAP)
    recs = list(res.records())
    if not res.ok or not recs:
        raise MachineryError(f"SerdeOne failed: {res.errors[:2]}\n{res.tail(20)}")
    return recs[0]
