"""C17 - deserializing any proto terminates with an error or a consistent IR; serialize-again fixpoint; no file access."""

import json
import os

import onnx

from .. import concretize as C
from .. import serde_check as S
from .. import serde_mut as M
from .. import serde_run as R
from ..common import MachineryError

LEVEL = "model_checking"

PLANS = {
    "quick": dict(
        mc=[
            ("any-graphs", "SerdeMC_any.cfg", dict(MaxSlots=3, MaxGraphs=2, MaxNodes=2, Irvs="{11}", WithFunc='"no"')),
            # two-node cycles, forward references and redeclarations need four name occurrences: one graph, nodes only
            ("any-cycles", "SerdeMC_any.cfg", dict(MaxSlots=4, MaxGraphs=1, MaxNodes=2, MaxIO=1, MaxInits=0, MaxAnn=0, Irvs="{11}", WithFunc='"no"')),
            ("any-functions", "SerdeMC_any.cfg", dict(MaxSlots=2, MaxGraphs=2, MaxNodes=2, Irvs="{9, 11}", WithFunc='"only"')),
            # control-flow bodies inside function bodies below IR version 10 (value info of function values lives in the main graph)
            ("any-function-bodies", "SerdeMC_any.cfg", dict(MaxSlots=3, MaxGraphs=3, MaxNodes=2, MaxIO=1, MaxInits=0, Irvs="{9}", WithFunc='"only"')),
        ],
        mut_seeds=260, mut_bytes=12, strace=150, limit_s=10.0,
    ),
    "thorough": dict(
        mc=[
            ("any-graphs", "SerdeMC_any.cfg", dict(MaxSlots=4, MaxGraphs=2, MaxNodes=2, Irvs="{11}", WithFunc='"no"')),
            ("any-nesting", "SerdeMC_any.cfg", dict(MaxSlots=3, MaxGraphs=3, MaxNodes=3, Irvs="{11}", WithFunc='"no"')),
            ("any-cycles", "SerdeMC_any.cfg", dict(MaxSlots=5, MaxGraphs=1, MaxNodes=3, MaxIO=1, MaxInits=0, MaxAnn=0, Irvs="{11}", WithFunc='"no"')),
            ("any-graphs-ir9", "SerdeMC_any.cfg", dict(MaxSlots=3, MaxGraphs=2, MaxNodes=2, Irvs="{9}", WithFunc='"no"')),
            ("any-functions", "SerdeMC_any.cfg", dict(MaxSlots=3, MaxGraphs=3, MaxNodes=2, Irvs="{9, 10, 11}", WithFunc='"only"')),
        ],
        mut_seeds=4000, mut_bytes=25, strace=3000, limit_s=10.0,
    ),
}


def run(ctx):
    plan = PLANS[ctx.tier]
    viol, div, projs, features, payload_errors = {}, {}, {}, set(), {}
    total = dict(n=0, unparsed=0, fix_checked=0, model_c17_false=0)
    classes, consts, seeds, actions, all_samples = {}, {}, [], {}, []
    for tag, base, kv in plan["mc"]:
        cfg = S.write_cfg(ctx, base, f"c17_{tag}.cfg", **kv)
        consts[tag] = S.constants_of(cfg)
        res = S.run_mc(ctx, cfg, f"mc-{tag}")
        results, lost = S.pool_map(R.work_c17, S.chunks_of(res.out_path, 400, ctx.seed), stream=True, per_task_timeout=400 * plan["limit_s"] + 120)
        for _ in lost:
            S.merge_cases(viol, {"C17:termination:chunk-timeout": {"kind": "enumerated-chunk", "cfg": tag, "count": 1}})
        for r in results:
            for k in total:
                total[k] += r[k]
            S.merge_cases(viol, r["viol"])
            S.merge_cases(div, r["div"])
            S.merge_cases(payload_errors, r["payload_errors"])
            S.merge_cases(projs, r["projs"])
            S.merge_counts(classes, r["cls"])
            features.update(r["features"])
            S.merge_counts(actions, r["actions"])
            seeds.extend(r["mutation_seeds"])
            all_samples.extend(r["samples"])
        os.remove(res.out_path)
    ctx.samples = sorted(all_samples, key=S.case_key)[:3]
    if total["unparsed"]:
        raise MachineryError(f"{total['unparsed']} emitted records could not be parsed")
    if total["n"] == 0:
        raise MachineryError("no proto was emitted")
    ctx.replayed += total["n"]
    expected_actions = {"BAddIn", "BAddInit", "BAddOut", "BAddNode", "BAddNIn", "BAddNOut", "BAddVI", "BAddQ", "BAddSub", "BAddFunc/Init(func)", "BAddUntyped"}
    ctx.extra["generator_actions_taken"] = actions
    if expected_actions - set(actions):
        raise MachineryError(f"generator actions never taken: {sorted(expected_actions - set(actions))}")

    # ---- mutation stage ---------------------------------------------------------------------------
    cases = S.mutation_cases(sorted(set(seeds)), ctx.seed, plan["mut_seeds"], plan["mut_bytes"])
    chunk = 150
    tasks = [(cases[i : i + chunk], plan["limit_s"]) for i in range(0, len(cases), chunk)]
    results, lost = S.pool_map(M.work_mut, tasks, per_task_timeout=chunk * plan["limit_s"] + 120)
    mut = dict(n=0, unparsable=0, fix_checked=0)
    mut_cls, mut_kinds, mut_features = {}, {}, set()
    for t in lost:
        c = t[0][0]
        S.merge_cases(viol, {"C17:termination:chunk-timeout": {"kind": "mutant-chunk", "mutation": c[1], "index": c[2], "rng_seed": c[3], "seed_proto_hex": c[0].hex(), "count": 1}})
    for r in results:
        for k in mut:
            mut[k] += r[k]
        S.merge_cases(viol, r["viol"])
        S.merge_cases(projs, r["projs"])
        S.merge_counts(mut_cls, r["cls"])
        S.merge_counts(mut_kinds, r["kinds"])
        mut_features.update(r["features"])
    if mut["n"] == 0:
        raise MachineryError("the mutation stage produced no parsable mutant")
    missing = [name for name, _ in M.FIELD_MUTATORS if mut_kinds.get(name, 0) == 0]
    if missing:
        raise MachineryError(f"field mutators never produced a case: {missing}")

    # ---- TLC evaluates the C01 invariants on every observed IR ------------------------------------------
    examined, bad, keys = S.validate_projections(ctx, projs)
    instances = sum(d["count"] for d in projs.values())
    for idx, names in bad.items():
        d = projs[keys[idx]]
        sig = "C17:inconsistent-ir:" + "+".join(names)
        d = dict(d, broken=names, signature=sig, message=f"deserialization returned an IR that breaks {names} ({d['count']} cases)")
        ctx.violation(sig, d)
    ctx.validated += examined - len(bad)

    # ---- independent observation of file access (strace) on a batch with external tensors ------------------
    batch = [b for b in sorted(set(seeds))[: plan["strace"]]]
    st = S.strace_batch(ctx, batch)
    ctx.extra["strace_batch"] = {k: v for k, v in st.items() if k != "touched"}
    if st.get("touched"):
        ctx.violation("C17:file-access:strace", {"kind": "strace", "touched": st["touched"], "message": f"system calls touched {st['touched'][:3]}"})

    for sig, d in sorted(viol.items()):
        d["signature"] = sig
        d["message"] = f"{sig} ({d.get('count', 1)} cases)"
        ctx.violation(sig, d)
    for sig, d in sorted(div.items()):
        ctx.note(f"divergence model/code (not a verdict): {sig} x{d['count']}")
    ctx.extra["divergences"] = {s: d["count"] for s, d in div.items()}
    ctx.extra["divergence_first_cases"] = {s: {"p": d.get("p"), "salt": d.get("salt")} for s, d in div.items()}
    ctx.extra["exceptions_on_payload_leaves_where_model_expects_ir"] = {s: d["count"] for s, d in payload_errors.items()}
    ctx.evaluations += total["n"] + mut["n"]
    for f in features:
        ctx.case(f, nontrivial=any(x in f for x in ("dangling", "redeclared", "unsorted", "dup-", "empty-", "untyped", "shadow", "capture", "vi-unref", "inner-empty")), n=0)
    for f in mut_features:
        ctx.case("mut:" + f, nontrivial=True, n=0)
    ctx.extra["enumerated"] = dict(total, outcome_classes=classes, distinct_ir_projections=len(projs), projection_instances=instances)
    ctx.extra["mutation_stage"] = dict(mut, outcome_classes=mut_cls, per_mutator=mut_kinds)
    ctx.extra["constants"] = consts
    ctx.extra["spec_predicted_fixpoint_failures"] = total["model_c17_false"]
    ctx.exhaustive = True
    ctx.rule = ("TLC enumerates every abstract proto within the bounds (SerdeMC, mode 'any': dangling, duplicated and empty names, outputs without "
                "producers, cycles, unsorted nodes, redeclared outputs, shadowing, value infos without type), evaluates C17 of Serde.tla and emits the "
                "expected outcome class and IR projection. Each proto is concretised and deserialized by the real library under a time limit with file "
                "access observed (audit hook, wrapped os.stat/lstat/access; strace on a batch); outcome class and projection are compared with the "
                "model's (divergence if different), the serialize-again fixpoint is checked on the real protos, and EVERY observed IR - also those of the "
                "field-level and byte-level mutants - is handed to TLC, which evaluates the C01 invariants of IRGraph on it (SerdeTrace). "
                "distinct_nontrivial = distinct (malformation features, outcome) combinations plus distinct (mutator, outcome, exception, fixpoint) classes.")
    ctx.assumptions = [
        "an exception of any type is an acceptable outcome of deserialization; a later exception while inspecting a lazily decoded tensor is not a file access",
        "the fixpoint is byte equality of the deterministic serializations of Ser(m) and Ser(Deser(Ser(m)))",
        "files of the interpreter, site-packages and the library's own sources (lazy imports, linecache) are not counted as file access",
        "per-case limit 10 s (SIGALRM) plus a wall guard per chunk",
    ]


def _signatures(ctx, mp) -> set:
    j = R.judge_c17(mp)
    out = {"viol": {}, "projs": {}, "fix_checked": 0}
    R._collect_c17(out, j, {})
    sigs = set(out["viol"])
    if out["projs"]:
        _, bad, _ = S.validate_projections(ctx, out["projs"], tag="rp-trace")
        for names in bad.values():
            sigs.add("C17:inconsistent-ir:" + "+".join(names))
    print("outcome:", j["cls"], j["exc"], "fixpoint:", j["fix"], j.get("fix_detail", ""))
    return sigs


def replay(ctx, detail) -> bool:
    kind = detail.get("kind")
    if kind == "enumerated":
        p = detail["p"]
        mp = C.Concretizer(detail["salt"], p["irv"]).model(C.explicit_of(p))
    elif kind == "mutant":
        sb = bytes.fromhex(detail["seed_proto_hex"])
        if detail["mutation"] == "field":
            mp, _ = M.field_mutant(sb, detail["index"], detail["rng_seed"])
        else:
            mp, _ = M.byte_mutant(sb, detail["rng_seed"])
        if mp is None:
            return False
    else:
        print(json.dumps(detail, indent=1)[:2000])
        return True
    sigs = _signatures(ctx, mp)
    print("signatures now:", sorted(sigs))
    return (detail["signature"] in sigs) if detail.get("signature") else bool(sigs)
