"""C20 - journaling observes without interfering and always restores the classes."""
import os
import re

from .. import irjournal
from ..common import NCPU, SPECS, MachineryError

LEVEL = "model_checking"
IR = os.path.join(SPECS, "ir")


def run(ctx):
    thorough = ctx.tier == "thorough"
    src = open(os.path.join(IR, "JournalMC.cfg")).read()
    src = re.sub(r"MaxDepth = \d+", f"MaxDepth = {4 if thorough else 3}", src)
    src = re.sub(r"MaxNest = \d+", f"MaxNest = {3 if thorough else 2}", src)
    if thorough:
        src = re.sub(r"PairVals = \{[^}]*\}", "PairVals = {1, 5}", src)
    cfg = os.path.join(ctx.scratch, "JournalMC_v.cfg")
    open(cfg, "w").write(src)
    res = ctx.tlc(os.path.join(IR, "JournalMC.tla"), cfg, tag="mc-journal", timeout=3000)
    if not res.ok:
        raise MachineryError(f"design spec check failed: {res.violated} {res.errors[:2]}\n{res.tail(25)}")
    findings, stats, kinds = irjournal.replay_file(res.out_path, nproc=NCPU)
    if stats.get("unparsed"):
        raise MachineryError(f"{stats['unparsed']} emitted records could not be parsed")
    divs = {}
    for sig, f in findings.items():
        if f["cls"] == "C20":
            ctx.violation(sig, f)
        else:
            divs[sig] = f.get("count", 1)
    ctx.replayed += stats.get("states", 0)
    ctx.evaluations += stats.get("calls", 0)
    for k in kinds:
        ctx._distinct.add(k)
    ctx.extra["divergences"] = divs
    ctx.extra["history_entries_differ"] = stats.get("history_entries_differ", 0)
    ctx.samples = [{"kinds": sorted(kinds)[:12]}]
    ctx.rule = ("TLC explores JournalMC: enter / exit / exit-by-exception nesting interleaved with the IRGraph alphabet (incl. rejected calls); "
                "each state's history is executed twice on real objects - plainly and inside real Journal contexts - and for every candidate "
                "step outcome class, full IR projection, the entries appended to every active journal (vs the model's transcription of the "
                "instrumented operations), growth of inactive journals, the class-attribute table after every exit, and liveness of IR objects "
                "after dropping them are compared. distinct_nontrivial = (step kind/op, rejected?, nesting depth) classes.")
    ctx.assumptions = ["properly nested journals only (as the statement says)",
                       "entries for operations that raise are tolerated (wrappers record before calling); completed operations must appear in order"]
    ctx.exhaustive = True


def replay(ctx, detail) -> bool:
    r = irjournal.JournalReplayer()
    rec = dict(h=detail["history"], rows=[detail["step"]] if detail.get("step") else [], ent=[[] for _ in range(8)])
    r.replay(rec)
    for f in r.findings:
        print(f["signature"], f.get("message", ""))
    return any(f["cls"] == "C20" for f in r.findings)
