"""C15 - generated names never collide; name fixing yields unique names only; bulk rename is
all-or-nothing.  Specification: specs/names/Names.tla (+ NamesAuthMC / NamesAuthTrace / NamesFixMC /
NamesRenameMC / NamesJudge)."""
from .. import names_check

LEVEL = "model_checking"


def run(ctx):
    names_check.run(ctx)


def replay(ctx, detail) -> bool:
    return names_check.replay(ctx, detail)
