"""C14 - passes honour their contract: identity, modified flag, fixpoint, no damage."""
from .. import passcheck

LEVEL = "model_checking"


def run(ctx):
    passcheck.run_engine(ctx, "C14")


def replay(ctx, detail) -> bool:
    return passcheck.replay_detail(ctx, detail, "C14")
