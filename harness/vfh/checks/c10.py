"""C10 - external tensor reads never escape the model directory (fail closed).

Specification: specs/extdata/PathContain.tla (+ PathContainMC.tla).  TLC
  1. enumerates every (file-system instance, base spelling, location string) configuration,
     proves FailClosed / NoOverReject* / LoadBase / RealpathAgreesWithKernel on the model and
     prints the verdict of each configuration; every configuration is materialised on disk and
     read through every entry point of the real library (vfh.pathcontain.run_batch);
  2. explores all histories of the access protocol of one tensor (reads, release, invalidate,
     base_dir changes) with NoByteBeforeCheck / BytesFromCheckedOpen as invariants; every
     history is replayed step by step on a real tensor under an open() audit hook;
  3. shows on the design level that the pinned derivation of base_dir by ir.load
     (dirname without fallback) breaks LoadBase (PathContainMC_loaddev.cfg).
"""

from __future__ import annotations

import multiprocessing as mp
import os
import re
import time

from .. import pathcontain as pc
from ..common import NCPU, SPECS, MachineryError

LEVEL = "model_checking"
EXT = os.path.join(SPECS, "extdata")
MC = os.path.join(EXT, "PathContainMC.tla")
L2M_EXTRA = [["..", "out", "secret"], ["sub", "in2.bin"], ["..", "baseX", "in.bin"], [".", "in.bin"]]


def _cfg(scratch: str, name: str, out: str, **subst) -> str:
    src = open(os.path.join(EXT, name)).read()
    for k, v in subst.items():
        src, n = re.subn(rf"^(\s*{k}\s*=\s*).*$", rf"\g<1>{v}", src, flags=re.M)
        if n != 1:
            raise MachineryError(f"{name}: cannot set {k}")
    path = os.path.join(scratch, out)
    with open(path, "w") as f:
        f.write(src)
    return path


def _setstr(xs) -> str:
    return "{" + ", ".join(str(x) for x in xs) + "}"


def _design_ok(res, what: str) -> None:
    if res.violated or res.errors or res.returncode != 0:
        raise MachineryError(f"design specification check failed ({what}): violated={res.violated} "
                             f"errors={res.errors[:2]}\n{res.tail(25)}")


def _workroot(ctx, name: str) -> str:
    # three levels below the scratch directory: ".." chains of the enumerated locations stay inside it
    d = os.path.join(os.path.realpath(ctx.scratch), name, "r", "r", "r")
    os.makedirs(d, exist_ok=True)
    return d


def _merge_violation(acc: dict, sig: str, d: dict) -> None:
    if sig not in acc:
        acc[sig] = d
        return
    a = acc[sig]
    # keep the smallest example (shortest location, lowest instance/spelling): deterministic
    rank = lambda x: (len(x.get("loc", [])), x.get("inst", 0), x.get("spelling", 0), str(x.get("loc")))
    if rank(d) < rank(a):
        acc[sig] = d
        a, d = d, a
    for e in d.get("entries", []):
        if e not in a.setdefault("entries", []):
            a["entries"].append(e)
    a["entries"].sort()
    a["cases"] = a.get("cases", 0) + d.get("cases", 0)


def run(ctx):
    thorough = ctx.tier == "thorough"
    t_start = time.time()
    violations: dict = {}
    divergences: dict = {}
    div_samples: dict = {}
    kinds: dict = {}

    # ---- (1) enumeration of configurations -------------------------------------------------------
    spells = (list(range(1, 19)) if thorough else [1, 2, 3, 4, 5, 6, 7, 8, 11, 12, 13, 14, 15, 16, 17, 18]) + [20]
    cfg = _cfg(ctx.scratch, "PathContainMC_enum.cfg", "enum_v.cfg",
               MaxUnits=4 if thorough else 3, SpellSet=_setstr(spells))
    res = ctx.tlc(MC, cfg, tag="enum", deadlock=False, timeout=3600 if thorough else 600, heap="12g" if thorough else "8g")
    _design_ok(res, "enumeration: FailClosed / NoOverReject / LoadBase")
    roots, files = pc.split_enum(res.out_path, os.path.join(ctx.scratch, "split"))
    os.unlink(res.out_path)
    if not roots or set(roots) != set(files):
        raise MachineryError(f"enumeration output incomplete: {len(roots)} roots, {len(files)} case groups")
    wr = _workroot(ctx, "enum")
    tasks = [dict(root=roots[k], cases_file=files[k], workdir=wr, l2m_extra=L2M_EXTRA, rotate_boring=not thorough)
             for k in sorted(files)]
    # big groups first for a better balance
    tasks.sort(key=lambda t: -os.path.getsize(t["cases_file"]))
    n_cases = n_reads = consequential = 0
    loadbase = {}
    t0 = time.time()
    with mp.Pool(min(NCPU, len(tasks))) as pool:
        for r in pool.imap_unordered(pc.run_batch, tasks, chunksize=1):
            if r.get("env"):
                raise MachineryError(f"environment model: {r['env']} mismatches in group {r['key']}: {r['error']}")
            if r["error"]:
                raise MachineryError(r["error"])
            n_cases += r["evaluations"]
            n_reads += r["reads"]
            consequential += r.get("consequential", 0)
            key = tuple(r["key"])
            rr = roots[key]
            for sig, d in r["violations"].items():
                d = dict(d, kind="batch", root={k: v for k, v in rr.items() if k != "spells"},
                         case=[d["loc"], d["spec"]["k"], d["spec"]["f"], d["spec"]["why"]])
                _merge_violation(violations, sig, d)
            for sig, n in r["divergences"].items():
                divergences[sig] = divergences.get(sig, 0) + n
                div_samples.setdefault(sig, r["samples"].get(sig))
            for k, n in r["kinds"].items():
                kk = f"{rr['route']}:{rr['name']}|inst{rr['i']}|{k}"
                kinds[kk] = kinds.get(kk, 0) + n
            lb = r["loadbase"]
            if lb is not None:
                loadbase[f"{rr['name']}|inst{rr['i']}"] = lb
                if lb["ok"] and not lb["same_spelling"]:
                    dsig = f"DIV:loadbase-spelling:{rr['name']}"
                    divergences[dsig] = divergences.get(dsig, 0) + 1
                    div_samples.setdefault(dsig, lb)
                if not lb["ok"]:
                    why = "empty" if "" in lb["got"] else "wrong-directory"
                    where = "+".join(lb.get("placements", [])) or "?"
                    sig = f"C10:loadbase:load:{rr['name']}:{why}:{where}"
                    _merge_violation(violations, sig, dict(
                        kind="batch", cases=1, entries=["ir.load"],
                        message=(f"ir.load({'/'.join(rr['mp'])!r}) (working directory /{'/'.join(rr['cwd'])}) gave the external "
                                 f"tensors at {lb.get('placements')} base_dir={lb['got']!r}; the specification demands a non-empty spelling of the model's "
                                 f"directory ({'/'.join(rr['b'])!r})"),
                        inst=rr["i"], spelling=rr["s"], spelling_name=rr["name"], route="load",
                        root={k: v for k, v in rr.items() if k != "spells"},
                        case=[["..", "out", "secret"], "rej", 0, "lexical"], loc=["..", "out", "secret"]))
    ctx.extra["enum_replay_s"] = round(time.time() - t0, 1)
    ctx.replayed += n_cases
    ctx.evaluations += n_reads

    # ---- (2) access protocol -----------------------------------------------------------------------
    cfgp = _cfg(ctx.scratch, "PathContainMC_proto.cfg", "proto_v.cfg", MaxDepth=4 if thorough else 3)
    resp = ctx.tlc(MC, cfgp, tag="proto", deadlock=False, timeout=3000)
    _design_ok(resp, "protocol: NoByteBeforeCheck / BytesFromCheckedOpen")
    proots, hists = pc.parse_proto(resp.out_path)
    os.unlink(resp.out_path)
    if not hists:
        raise MachineryError("protocol run printed no history")
    wrp = _workroot(ctx, "proto")
    by = {}
    for h in hists:
        by.setdefault((h["i"], h["s"]), []).append(h)
    ptasks = []
    for k, hs in sorted(by.items()):
        if k not in proots:
            raise MachineryError(f"protocol run: no root record for {k}")
        nsplit = max(1, min(NCPU, len(hs) // 500))
        for j in range(nsplit):
            wd = os.path.join(wrp, f"c{j}")
            os.makedirs(wd, exist_ok=True)
            ptasks.append(dict(root=proots[k], hists=hs[j::nsplit], workdir=wd))
    n_hist = n_steps = 0
    pkinds = {}
    t0 = time.time()
    with mp.Pool(min(NCPU, len(ptasks))) as pool:
        for r, task in zip(pool.imap(pc.run_proto, ptasks, chunksize=1), ptasks):
            if r["error"]:
                raise MachineryError(r["error"])
            n_hist += r["histories"]
            n_steps += r["steps"]
            for sig, d in r["violations"].items():
                d = dict(d, kind="protocol", root=task["root"], entries=[d["history"][-1][0]], cases=1)
                _merge_violation(violations, sig, d)
            for sig, n in r["divergences"].items():
                divergences[sig] = divergences.get(sig, 0) + n
                div_samples.setdefault(sig, r["samples"].get(sig))
            for k, n in r["kinds"].items():
                pkinds[k] = pkinds.get(k, 0) + n
    ctx.extra["protocol_replay_s"] = round(time.time() - t0, 1)
    ctx.replayed += n_hist
    ctx.evaluations += n_steps

    # ---- (3) design level: the pinned base_dir derivation breaks LoadBase; action coverage ---------
    resd = ctx.tlc(MC, os.path.join(EXT, "PathContainMC_loaddev.cfg"), tag="loaddev", deadlock=False, count=False, timeout=600)
    ctx.extra["design_pinned_load_derivation_violates"] = sorted(set(resd.violated))
    if "LoadBase" not in resd.violated:
        ctx.note("PathContainMC_loaddev.cfg: TLC did not report LoadBase violated for dirname() without fallback")
    resr = ctx.tlc(MC, os.path.join(EXT, "PathContainMC_loadreach.cfg"), tag="loadreach", deadlock=False, count=False, timeout=600)
    ctx.extra["design_main_graph_only_traversal_violates"] = sorted(set(resr.violated))
    if "LoadBase" not in resr.violated:
        ctx.note("PathContainMC_loadreach.cfg: TLC did not report LoadBase violated for a traversal that skips functions")
    cfgc = _cfg(ctx.scratch, "PathContainMC_proto.cfg", "proto_cov.cfg", MaxDepth=1, EmitOn="FALSE")
    resc = ctx.tlc(MC, cfgc, tag="cov", deadlock=False, coverage=True, count=False, timeout=600)
    cov = {k.split("!")[1]: v[0] for k, v in resc.coverage.items() if k.startswith("PathContainMC!P")}
    ctx.extra["protocol_action_coverage"] = cov
    missing = [a for a in ("PNumpy", "PArray", "PToBytes", "PToFileFile", "PToFileMem", "PConvert", "PRelease",
                           "PInvalidate", "PSetBase") if cov.get(a, 0) == 0]
    if missing:
        raise MachineryError(f"protocol actions never taken: {missing}")

    # ---- verdicts and evidence ------------------------------------------------------------------------
    for sig, d in sorted(violations.items()):
        ctx.violation(sig, d)
    verdict_classes = {}
    for k, n in kinds.items():
        cls = k.split("|")[2]
        verdict_classes[cls] = verdict_classes.get(cls, 0) + n
        ctx.case(k, nontrivial=not cls.endswith("/ENOENT"), n=0)
    for k in pkinds:
        ctx.case("protocol|" + k, nontrivial=True, n=0)
    ctx.extra.update(
        configurations=n_cases, reads=n_reads, verdict_classes=verdict_classes,
        protocol_histories=n_hist, protocol_steps=n_steps, protocol_step_kinds=pkinds,
        divergences=divergences, divergence_samples={k: v for k, v in list(div_samples.items())[:10]},
        differences_following_from_a_loadbase_violation=consequential,
        load_base_dirs={k: v for k, v in sorted(loadbase.items()) if k.endswith("inst1")},
        constants=dict(instances=7, spellings=spells, max_units=4 if thorough else 3,
                       protocol_depth=4 if thorough else 3, entry_points=list(pc.ENTRIES) + ["load_to_model"],
                       all_entry_points_on_every_configuration=thorough),
    )
    if divergences:
        ctx.note(f"{sum(divergences.values())} model/code differences that do not violate C10 (coverage.divergences)")
    ctx.rule = (
        "replayed = configurations (instance, base spelling, location) materialised on disk and read through the real "
        "library + protocol histories replayed; evaluations = individual reads on fresh tensors + protocol steps; "
        "distinct_nontrivial = distinct (route:spelling, instance, specification verdict class) combinations other than "
        "'check passes, file missing' plus distinct protocol step kinds (call, verdict, cached/events)."
    )
    ctx.samples = [
        dict(kind="configuration", inst=2, spelling="direct:abs", location="lf_out",
             spec="reject at layer 2 (realpath)", note="symbolic link to ../out/secret"),
        dict(kind="configuration", inst=1, spelling="load:bare-name", location="../out/secret",
             spec="reject at layer 1 (lexical) under base_dir '.'"),
        dict(kind="protocol history", calls=[[x["c"], x["a"]] for x in hists[len(hists) // 2]["h"]],
             loc=hists[len(hists) // 2]["l"], outcomes=[x["r"] for x in hists[len(hists) // 2]["h"]]),
    ]
    ctx.exhaustive = thorough and not divergences
    ctx.assumptions = [
        "small scope: 7 file-system instances (<= 18 entries), 17-19 base spellings, locations of <= 3 (quick) / 4 (thorough) units",
        "static file system during a read (no TOCTOU race is modelled); no symbolic-link loops (fuel 8)",
        "the model's '/' has no child but the instance root R; checked at run time: none of the alphabet names exists in an "
        "ancestor directory, R is not reached through a link; realpath results above R are only required to be outside R",
        "the link count of a directory is file-system dependent: a directory is refused either by layer 3 or by open() (EISDIR)",
        "POSIX only (normcase is the identity); non-empty tensors of 16 bytes (size 0 skips open())",
        "open() is observed through sys.addaudithook('open'); mmap and copy_file_range need the descriptor of an observed open",
        "quick tier: configurations whose check passes and whose open() fails for a missing component are read through 2 of "
        "the 6 entry points (rotating); every other configuration and the thorough tier use all of them",
    ]
    ctx.extra["wall_parts_s"] = dict(total=round(time.time() - t_start, 1))


def replay(ctx, detail) -> bool:
    """Re-execute one recorded violation on the current tree; True if it still violates."""
    wd = _workroot(ctx, "replay")
    root = detail["root"]
    if detail.get("kind") == "protocol":
        hist = dict(i=root["i"], s=root["s"], l=detail["loc"],
                    h=detail.get("hist") or [])
        if not hist["h"]:
            print("protocol replay needs the recorded history; not stored")
            return True
        r = pc.run_proto(dict(root=root, hists=[hist], workdir=wd))
        print(r["violations"] or "no violation", r["error"] or "")
        return bool(r["violations"])
    c = detail["case"]
    case = [c[0], c[1], c[2], c[3], 0, "-", []]
    r = pc.run_batch(dict(root=root, cases=[case], workdir=wd, env_check=False, l2m_extra=[c[0]]))
    if r["error"]:
        raise MachineryError(r["error"])
    lb = r["loadbase"]
    print("violations:", {k: v["message"] for k, v in r["violations"].items()} or "none", "| load base_dir:", lb)
    return bool(r["violations"]) or bool(lb and not lb["ok"])
