"""C07 - external-data save/load preserves every initializer; the layout is well formed.

Specification: specs/extdata/ExtLayout.tla (pure operators: Align, Split, Shard, Place, file names,
the formulas of the property), ExtLayoutSave.tla (the save protocol: Unload; Write (may fail);
Restore-in-finally), ExtLayoutNames.tla (destination-name catalogue).

  1. ExtLayoutSaveMC: TLC explores the protocol for every small configuration x failure point
     (Restored, StepwiseIsLayout, NoEarlyAssign, ...); the same cfg without the finally block and the
     enumeration with the safetensors shard rule as implemented show that the formulas are not vacuous.
  2. ExtLayoutMC: TLC enumerates size tuples x threshold x alignment x align_threshold x shard limit x
     backend, checks every formula on the computed layout and prints (configuration, layout).
  3. Binding: every selected configuration becomes a real model (vfh.extlayout) that is saved with
     ir.save / ir.save_safetensors and loaded again; what is observed goes back to TLC
     (ExtLayoutTrace), which evaluates every formula ON THE OBSERVED LAYOUT and compares it with the
     layout the specification computes.  formula fails -> violation; differs only -> divergence.
"""

from __future__ import annotations

import json
import multiprocessing as mp
import os
import random
import re
import shutil
import tempfile
import threading
import time

from .. import extlayout as xl
from ..common import NCPU, SPECS, MachineryError

LEVEL = "model_checking"
EXT = os.path.join(SPECS, "extdata")
MC = os.path.join(EXT, "ExtLayoutMC.tla")
SAVEMC = os.path.join(EXT, "ExtLayoutSaveMC.tla")
TRACE = os.path.join(EXT, "ExtLayoutTrace.tla")
RESAVE = os.path.join(EXT, "ExtLayoutResave.tla")
RS_BASE = 20_000_000      # case ids of the re-save scenarios: RS_BASE + 8 * j + step

# tier parameters.  cases = configurations executed on the implementation (None = all enumerated);
# round = cases per execute/evaluate round (bounds memory); chunk = cases per TLC evaluation process.
TIERS = {
    "quick": dict(maxlen=3, cases=24000, chains=1500, round=30000, chunk=4000, mc_timeout=300),
    "thorough": dict(maxlen=4, cases=380000, chains=12000, round=100000, chunk=12500, mc_timeout=1500),
}


def _nproc() -> int:
    v = os.environ.get("C07_DEV_WORKERS")
    return int(v) if v else NCPU


def _cfg_with(scratch: str, src_name: str, out_name: str, **subst) -> str:
    src = open(os.path.join(EXT, src_name)).read()
    for k, v in subst.items():
        src, n = re.subn(rf"^(\s*{k}\s*=\s*).*$", rf"\g<1>{v}", src, flags=re.M)
        if n != 1:
            raise MachineryError(f"{src_name}: cannot set {k}")
    path = os.path.join(scratch, out_name)
    with open(path, "w") as f:
        f.write(src)
    return path


def _tlc(ctx, *a, **kw):
    """ctx.tlc with one retry when the JVM died without producing a result (seen once on a loaded machine)."""
    res = ctx.tlc(*a, **kw)
    if res.returncode != 0 and not res.violated and not res.errors and res.distinct == 0 and not res.timed_out:
        res = ctx.tlc(*a, **kw)
    return res


def _design_ok(res, what: str) -> None:
    if res.violated or res.errors or res.returncode != 0:
        raise MachineryError(f"design specification check failed ({what}): violated={res.violated} "
                             f"errors={res.errors[:2]}\n{res.tail(25)}")


# ---- signatures (description only: WHICH formula failed is decided by TLC) ---------------------------
def _kindclass(kind: str) -> str:
    k = kind.split(":")[0]
    return {"array-wide": "array", "array-noname": "unnamed-array", "lazy-cache": "lazy", "packed4": "packed",
            "packed2": "packed", "sub4": "subbyte", "sub2": "subbyte", "proto-int32": "proto",
            "proto4": "proto"}.get(k, k)


def _bits_of(plan: dict) -> dict:
    out = {}
    for i, k in enumerate(plan["kinds"]):
        kk = plan["kinds"][int(k[4:]) - 1] if k.startswith("dup:") else k
        out[i] = 4 if kk in ("packed4", "sub4", "proto4") else 2 if kk in ("packed2", "sub2") else 8
    return out


def _wanted_ext(c: dict, i: int) -> bool:
    return c["sizes"][i] > c["thr"] if c["be"] == "raw" else c["sizes"][i] >= c["thr"]


def _chain_for(c: dict, rng: random.Random, names: dict, plan: dict) -> list:
    """Re-save steps for one configuration: thresholds chosen so that the inline/external split changes (first
    towards inline while something stays external when possible, then back), modes in place / other names."""
    sizes = c["sizes"]
    n = len(sizes)
    cands = sorted({0, 100000} | set(sizes) | {max(0, x - 1) for x in sizes})

    def split(thr):
        return tuple(_wanted_ext(dict(c, thr=thr), i) for i in range(n))

    modes = rng.choice([["inplace", "inplace", "otherdir"], ["inplace", "samedir", "inplace"],
                        ["otherdir", "inplace", "inplace"], ["inplace", "inplace", "samedir"], ["inplace", "inplace"]])
    steps, prev = [], c["thr"]
    used_data, prev_model_nm = {plan["data_nm"]}, plan["model_nm"]
    for k, mode in enumerate(modes):
        cur = split(prev)
        diff = [t for t in cands if split(t) != cur]
        # k even: prefer "some external tensor becomes inline while another one stays external"
        def good(t):
            sp = split(t)
            if k % 2 == 0:
                return any(a and not b for a, b in zip(cur, sp)) and any(sp)
            return any(b and not a for a, b in zip(cur, sp))
        pref = [t for t in diff if good(t)]
        thr = rng.choice(pref or diff or cands)
        st = {"mode": mode, "thr": thr, "lim": c["lim"] if rng.random() < 0.5 else 0,
              "workers": rng.choice(xl.WORKERS), "model_nm": prev_model_nm, "data_nm": plan["data_nm"]}
        if mode != "inplace":
            st["model_nm"] = rng.choice([m for m in names["st"] if m != prev_model_nm])
            st["data_nm"] = rng.choice([d for d in names["raw"] if d not in used_data])
            used_data.add(st["data_nm"])
            prev_model_nm = st["model_nm"]
        steps.append(st)
        prev = thr
    return steps


def signatures(obs: dict, bad: list, info: dict | None, plan: dict) -> list:
    """One structural signature per failed formula: C07:<backend>:<formula>:<what the failing tensors are>."""
    c = obs["c"]
    be = c["be"] + (":resave:" + obs["mode"] if obs.get("mode") else "")
    info = info or {}
    kinds = plan["kinds"]
    n = len(c["sizes"])
    bits = _bits_of(plan)
    fnames = {f["name"] for f in obs["files"]}
    fsize = {f["name"]: f["size"] for f in obs["files"]}

    def shared(i):
        return kinds[i].startswith("dup") or any(k == "dup:%d" % (i + 1) for k in kinds)

    def tag(i):
        t = obs["t"][i]
        if t["loc"] and t["loc"] not in fnames:
            return "old-location"
        if shared(i):
            return "shared-object"
        if c["sizes"][i] == 0:
            return "zero-size"
        return "plain"

    def tags(idx):
        return "+".join(sorted({tag(i) for i in idx})) if idx else "unclassified"

    ext = [i for i in range(n) if obs["t"] and obs["t"][i]["loc"]] if obs["t"] else []
    out = []
    for clause in sorted(bad):
        if clause == "Outcome":
            if obs["out"] == "raised":
                out.append(f"C07:{be}:Outcome:save-raised:{info.get('exc', '?')}")
            else:
                out.append(f"C07:{be}:Outcome:returned-despite-failing-tensor")
        elif clause == "Restored":
            out.append(f"C07:{be}:Restored:save-{obs['out']}")
        elif clause == "Loadable":
            out.append(f"C07:{be}:Loadable:{info.get('lexc', '?')}")
        elif clause == "BytesEqual":
            for i, ok in enumerate(obs["beq"]):
                if not ok:
                    err = info.get("berr", {}).get(i, "mismatch")
                    where = "external" if obs["t"][i]["loc"] else "inline"
                    what = "zero-size" if c["sizes"][i] == 0 else {2: "2bit", 4: "4bit"}.get(bits[i], "bytes")
                    if tag(i) == "old-location" and c["sizes"][i] != 0:
                        what = "old-location"
                    out.append(f"C07:{be}:BytesEqual:{where}:{what}:{err}")
        elif clause == "MetaEqual":
            for i, ok in enumerate(obs["meta"]):
                if not ok:
                    out.append(f"C07:{be}:MetaEqual:{info.get('merr', {}).get(i, '?')}:{_kindclass(kinds[i])}")
        elif clause == "ThresholdRule":
            for i in range(n):
                isext = bool(obs["t"][i]["loc"])
                if isext != _wanted_ext(c, i):
                    what = "shared-object" if shared(i) else _kindclass(kinds[i])
                    out.append(f"C07:{be}:ThresholdRule:{'inline-above' if _wanted_ext(c, i) else 'external-below'}:{what}")
        elif clause == "OversizeOnlyAlone":
            desc = "several-tensors"
            for f in obs["files"]:
                if c["lim"] and f["size"] > c["lim"]:
                    members = [i for i in range(n) if obs["t"][i]["loc"] == f["name"]]
                    if not members:
                        desc = "unreferenced-shard"
                    elif len(members) > 1 and sum(1 for i in members if c["sizes"][i] > 0) == 1:
                        desc = "zero-size-companions"
            out.append(f"C07:{be}:OversizeOnlyAlone:{desc}")
        elif clause == "ExactlyOneShard":
            idx = [i for i in ext if obs["t"][i]["loc"] not in fnames or obs["t"][i]["l"] != c["sizes"][i]]
            out.append(f"C07:{be}:ExactlyOneShard:{tags(idx)}")
        elif clause in ("Order", "Disjoint"):
            idx = set()
            for i in ext:
                for j in ext:
                    a, b = obs["t"][i], obs["t"][j]
                    if i != j and a["loc"] == b["loc"]:
                        if clause == "Order" and obs["ord"][i] < obs["ord"][j] and a["o"] + a["l"] > b["o"]:
                            idx |= {i, j}
                        if clause == "Disjoint" and a["l"] > 0 and b["l"] > 0 and not (
                                a["o"] + a["l"] <= b["o"] or b["o"] + b["l"] <= a["o"]):
                            idx |= {i, j}
            out.append(f"C07:{be}:{clause}:{tags(idx)}")
        elif clause == "InFile":
            idx = [i for i in ext if obs["t"][i]["loc"] in fnames and (
                obs["t"][i]["o"] < 0 or obs["t"][i]["o"] + obs["t"][i]["l"] > fsize[obs["t"][i]["loc"]])]
            out.append(f"C07:{be}:InFile:{tags(idx)}")
        elif clause == "Aligned":
            idx = [i for i in ext if c["al"] and obs["t"][i]["l"] > c["athr"] and obs["t"][i]["o"] % c["al"]]
            out.append(f"C07:{be}:Aligned:{tags(idx)}")
        else:
            out.append(f"C07:{be}:{clause}")
    return sorted(set(out))


# ---- TLC evaluation of observations -------------------------------------------------------------------
def evaluate(ctx, obs_all: list, chunk: int, tag: str = "tr") -> dict:
    """Feed observations to ExtLayoutTrace in chunks (several TLC processes side by side).
    Returns {id: {"bad": [...], "diff": [...]}} for the cases TLC reported."""
    chunks = [obs_all[i:i + chunk] for i in range(0, len(obs_all), chunk)]
    cfg = os.path.join(EXT, "ExtLayoutTrace.cfg")
    results: dict = {}
    errors: list = []
    lock = threading.Lock()
    sem = threading.Semaphore(max(1, min(len(chunks), _nproc() // 2)))

    def one(k, part):
        with sem:
            path = os.path.join(ctx.scratch, f"{tag}-{k}.ndjson")
            with open(path, "w") as f:
                for o in part:
                    f.write(json.dumps(o, separators=(",", ":")) + "\n")
            res = _tlc(ctx, TRACE, cfg, tag=f"{tag}{k}", workers=2, timeout=1500, env={"TRACE_FILE": path},
                          deadlock=False, count=False, heap="3g")
            done = None
            rep = {}
            for r in res.records():
                if "done" in r:
                    done = r["done"]
                elif "id" in r:
                    rep[r["id"]] = {"bad": sorted(r["bad"]), "diff": sorted(r["diff"])}
            with lock:
                if res.returncode != 0 or res.errors or res.violated or done != len(part) or res.distinct != len(part) + 1:
                    errors.append(f"trace evaluation {tag}{k}: rc={res.returncode} done={done}/{len(part)} "
                                  f"distinct={res.distinct} errors={res.errors[:2]}\n{res.tail(15)}")
                results.update(rep)
            for p in (path, res.out_path):
                try:
                    os.unlink(p)
                except OSError:
                    pass

    ths = [threading.Thread(target=one, args=(k, part)) for k, part in enumerate(chunks)]
    for t in ths:
        t.start()
    for t in ths:
        t.join()
    if errors:
        raise MachineryError(errors[0])
    return results


def _workroot(ctx) -> tuple[str, bool]:
    """Directory for the per-case model directories.  A memory file system when there is one (the cases create and
    delete ~10 directory entries each; on the disk that dominates the run time), else the scratch directory."""
    if os.path.isdir("/dev/shm") and os.access("/dev/shm", os.W_OK):
        try:
            return tempfile.mkdtemp(prefix="vf-C07-", dir="/dev/shm"), True
        except OSError:
            pass
    d = os.path.join(ctx.scratch, "run")
    os.makedirs(d, exist_ok=True)
    return d, False


def _execute(pool, plans: list, names: dict, root: str, tag: str) -> tuple[list, dict]:
    nproc = _nproc()
    per = max(1, min(300, len(plans) // (nproc * 4) + 1))
    tasks = [dict(plans=plans[i:i + per], names=names, workdir=os.path.join(root, f"{tag}-b{i}"))
             for i in range(0, len(plans), per)]
    obs_all, info_all = [], {}
    for r in pool.imap_unordered(xl.run_batch, tasks, chunksize=1):
        if r["error"]:
            raise MachineryError("binding failed: " + r["error"])
        obs_all.extend(r["obs"])
        info_all.update(r["info"])
    obs_all.sort(key=lambda o: o["id"])
    got = {o["id"] for o in obs_all}
    missing = [p["id"] for p in plans if p["id"] not in got]
    if missing:
        raise MachineryError(f"{len(missing)} of {len(plans)} cases were not executed (first: {missing[0]})")
    return obs_all, info_all


def _probe_plans(names: dict, seed: int, base_id: int) -> list:
    """A few hand-written cases next to the grid (same machinery, same oracle)."""
    big = 100000
    P = []

    def add(c, **kw):
        plan = xl.plan_case(base_id + len(P), c, seed, names)
        plan["fail"] = 0
        plan["kinds"] = ["array"] * len(c["sizes"])
        plan["place"] = ["main"] * len(c["sizes"])
        plan.update(kw)
        P.append(plan)

    raw = dict(be="raw", thr=0, al=0, athr=0, lim=0)
    st = dict(be="st", thr=0, al=0, athr=0, lim=0)
    # a 2-bit initializer that ends its data file / that is followed by another tensor
    add(dict(raw, sizes=[3, 2]), kinds=["array", "sub2"])
    add(dict(raw, sizes=[2, 3]), kinds=["packed2", "array"], place=["main", "then"])
    add(dict(raw, sizes=[1]), kinds=["sub4"], place=["else"])
    # zero-size initializers, external through the safetensors backend (threshold 0 keeps them)
    add(dict(st, sizes=[0, 5]))
    add(dict(st, sizes=[0, 4097], lim=4096))
    add(dict(st, sizes=[0]), kinds=["external"])
    # the same tensor object under two names
    add(dict(raw, sizes=[10, 10]), kinds=["array", "dup:1"], place=["main", "then"])
    add(dict(st, sizes=[10, 10]), kinds=["array", "dup:1"])
    # an unnamed tensor object held by a named initializer
    add(dict(raw, sizes=[10]), kinds=["array-noname"])
    add(dict(st, sizes=[10]), kinds=["array-noname"])
    # safetensors: names in descending order (the serializer stores by name; `ord` reports it)
    add(dict(st, sizes=[10, 5000, 3]), names_desc=True)
    # safetensors: a FLOAT4E2M1 initializer is stored as F4, which the serializer places after the U8 tensors
    add(dict(st, sizes=[1, 4095]), kinds=["sub4", "array"], force_f4=True)
    # already-external initializers whose data lives in ANOTHER directory than the saved model
    add(dict(raw, sizes=[10, 5000], thr=100), kinds=["external", "external"], src_elsewhere=True)
    add(dict(st, sizes=[10, 5000], thr=100), kinds=["external", "external"], src_elsewhere=True)
    # failures at every stage, every placement
    for be in (raw, st):
        add(dict(be, sizes=[4097, 10, 8192], thr=100), kinds=["array", "lazy-fail", "array"], fail=2,
            place=["main", "then", "else"])
        add(dict(be, sizes=[4097, 10, 8192], thr=100), kinds=["array", "array", "lazy-fail"], fail=3,
            place=["main", "main", "else"])
        add(dict(be, sizes=[4097, 10], thr=100), kinds=["external", "lazy"], fail=3, place=["main", "then"])
    add(dict(raw, sizes=[5000, 5000, 5000], al=4096, lim=8193), kinds=["array", "lazy-fail", "array"], fail=2,
        workers=3)
    add(dict(raw, sizes=[big - 1, 1, 4097], thr=1, al=8192, athr=4096, lim=big), kinds=["lazy", "proto", "external"],
        place=["main", "then", "else"], workers=2)
    return P


def _resave_probes(names: dict, seed: int, base_id: int) -> list:
    """Hand-written re-save scenarios (same machinery, same oracle)."""
    P = []

    def add(c, chain, **kw):
        plan = xl.plan_case(base_id + 8 * len(P), c, seed, names)
        plan["fail"] = 0
        plan["kinds"] = ["array"] * len(c["sizes"])
        plan["place"] = ["main"] * len(c["sizes"])
        plan.update(kw)
        mn = [m for m in sorted(names["st"]) if m != plan["model_nm"]]
        dn = [d for d in sorted(names["raw"]) if d != plan["data_nm"]]
        plan["chain"] = [dict(mode=m, thr=t, lim=l, workers=w, model_nm=(plan["model_nm"] if m == "inplace" else mn[k % len(mn)]),
                              data_nm=(plan["data_nm"] if m == "inplace" else dn[k % len(dn)]))
                         for k, (m, t, l, w) in enumerate(chain)]
        P.append(plan)

    raw = dict(be="raw", thr=0, al=0, athr=0, lim=0)
    st = dict(be="st", thr=0, al=0, athr=0, lim=0)
    # in place, higher threshold: an untouched external tensor becomes inline while another one is rewritten
    add(dict(raw, sizes=[10, 5000]), [("inplace", 100, 0, None), ("inplace", 0, 0, 2), ("otherdir", 100, 0, None)])
    add(dict(raw, sizes=[10, 5000, 20, 3000]), [("inplace", 100, 0, 3), ("samedir", 10, 0, None), ("inplace", 100000, 0, None)],
        place=["main", "then", "then", "else"])
    add(dict(raw, sizes=[5000, 10, 4097], al=4096), [("inplace", 4097, 0, 2), ("inplace", 0, 0, None)])
    # sharded raw writer onto its own files: refusal; onto other names: allowed
    add(dict(raw, sizes=[3000, 3000, 3000], lim=6000), [("inplace", 0, 6000, None), ("inplace", 2999, 0, None),
                                                          ("otherdir", 0, 6000, 2)])
    add(dict(st, sizes=[10, 5000]), [("inplace", 100, 0, None), ("inplace", 0, 0, None), ("samedir", 100, 0, None)])
    # safetensors, sharded, in place: lowering the threshold pushes a tensor from the first into the second shard
    add(dict(st, sizes=[3000, 10, 3000, 3000], thr=100, lim=6005), [("inplace", 0, 6005, None)])
    add(dict(st, sizes=[3000, 3000, 3000, 3000], lim=6000), [("inplace", 0, 6000, None), ("inplace", 3001, 6000, None)])
    return P


def run(ctx):
    tp = dict(TIERS[ctx.tier])
    if os.environ.get("C07_DEV_CASES"):
        tp["cases"] = int(os.environ["C07_DEV_CASES"])
    t_start = time.time()
    ctx.rule = ("non-trivial = an executed case in which at least one initializer is (to become) external and that "
                "has at least one of: several shards, an oversized shard, alignment padding, an inline/external mix, "
                "a non-array kind, a subgraph placement, max_workers > 1, an injected failure; keyed by (backend, "
                "those features)")
    ctx.assumptions = [
        "tensor bytes are produced by the harness (numpy / an own bit packer); equality of bytes is compared in "
        "Python and handed to TLC as a boolean per initializer",
        "safetensors files: offsets and sizes are taken relative to the data section (8 + header length); the "
        "serializer orders the data section by (dtype, name), the binding uses ascending names and the storage "
        "dtypes U8/F4 and reports the resulting rank as `ord` (a descending-name probe exercises a non-identity ord)",
        "Aligned is evaluated as 'offset is a multiple of the requested alignment'; the implementation's stronger "
        "promise max(4096, alignment) is checked on the model only; non-power-of-two alignments are not enumerated",
        "ThresholdRule uses each backend's documented comparison (raw: nbytes > threshold; safetensors: nbytes >= "
        "threshold)",
        "destination names come from the catalogue in ExtLayoutNames.tla; whether a piece of a name is an "
        "extension suffix is stated there per piece",
        "already-external initializers live in another file than the destination (same directory in the grid, "
        "another directory in two probes)",
    ]

    # ---- (1) the protocols -----------------------------------------------------------------------------
    # runs that must FAIL on the model: the formulas are not vacuous (started now, joined after the enumeration)
    side: dict = {}

    def _side(key, tla, cfgname, tag):
        side[key] = _tlc(ctx, tla, os.path.join(EXT, cfgname), tag=tag, workers=3, timeout=900, deadlock=False, count=False)

    ths = [threading.Thread(target=_side, args=("nofin", SAVEMC, "ExtLayoutSaveMC_nofinally.cfg", "nofin")),
           threading.Thread(target=_side, args=("stdev", MC, "ExtLayoutMC_stdev.cfg", "stdev")),
           threading.Thread(target=_side, args=("loadafter", RESAVE, "ExtLayoutResaveMC_loadafter.cfg", "rs-loadafter")),
           threading.Thread(target=_side, args=("stpershard", RESAVE, "ExtLayoutResaveMC_stpershard.cfg", "rs-stpershard"))]
    for t in ths:
        t.start()

    r1 = _tlc(ctx, SAVEMC, os.path.join(EXT, "ExtLayoutSaveMC.cfg"), tag="save", workers=_nproc(), timeout=600,
              deadlock=False, coverage=True)
    _design_ok(r1, "save protocol: Restored / StepwiseIsLayout / NoEarlyAssign / FailureSurfaces")
    want = ("Enter", "Split", "Shard", "Place", "Write", "Assign", "Serialize", "Finally")
    acts = {k.split("!")[1]: v[0] for k, v in r1.coverage.items()
            if k.startswith("ExtLayoutSave!") and k.split("!")[1] in want}
    ctx.extra["protocol_action_coverage"] = acts
    if len(acts) < len(want) or min(acts.values()) == 0:
        raise MachineryError(f"save protocol: an action was never taken: {acts}")
    # the re-save protocol (ExtLayoutResave): as designed every formula holds
    r1r = _tlc(ctx, RESAVE, os.path.join(EXT, "ExtLayoutResaveMC.cfg"), tag="resave", workers=_nproc(), timeout=900,
               deadlock=False, coverage=True)
    _design_ok(r1r, "re-save protocol: ResaveBytes / NoStaleRead / RefusalKeepsFiles")
    wantr = ("Split", "Load1", "Guard", "Write", "Load2", "Finish")
    actr = {k.split("!")[1]: v[0] for k, v in r1r.coverage.items()
            if k.startswith("ExtLayoutResave!") and k.split("!")[1] in wantr}
    ctx.extra["resave_protocol_action_coverage"] = actr
    if len(actr) < len(wantr) or min(actr.values()) == 0:
        raise MachineryError(f"re-save protocol: an action was never taken: {actr}")

    # ---- (2) enumeration ---------------------------------------------------------------------------------
    cfg = _cfg_with(ctx.scratch, "ExtLayoutMC.cfg", "enum.cfg", MaxLen=tp["maxlen"])
    r2 = _tlc(ctx, MC, cfg, tag="enum", workers=_nproc(), timeout=tp["mc_timeout"], deadlock=False,
                 heap="12g" if ctx.tier == "thorough" else "8g")
    _design_ok(r2, "enumeration: every formula on every configuration")
    cfgs, names = xl.parse_mc(r2.out_path)
    os.unlink(r2.out_path)
    if not cfgs or len(names["raw"]) < 3 or len(names["st"]) < 3:
        raise MachineryError(f"enumeration output incomplete: {len(cfgs)} configurations")
    ctx.extra["configurations_enumerated"] = len(cfgs)
    for t in ths:
        t.join()
    if "Restored" not in side["nofin"].violated:
        raise MachineryError("Restored is vacuous: removing the finally block from the model does not break it")
    if "ResaveBytes" not in side["loadafter"].violated:
        raise MachineryError("re-save protocol: loading the small external tensors AFTER the destination was replaced "
                             "is not refuted on the model (ResaveBytes vacuous)")
    ctx.extra["design_level"] = {
        "Restored without the finally block": sorted(side["nofin"].violated),
        "safetensors shard rule as implemented before 2c313a1 (current_shard_size > 0)": sorted(side["stdev"].violated),
        "re-save, small external tensors loaded after the write (refuted ordering)": sorted(side["loadafter"].violated),
        "re-save, safetensors shards materialised per shard (as implemented)": sorted(side["stpershard"].violated)}
    feat_cfg = {"padding": 0, "multi_shard": 0, "oversize_shard": 0, "mixed": 0, "index": 0, "all_inline": 0}
    for k, Ls in cfgs:
        L = json.loads(Ls)
        lim = k[5]
        if not any(t["f"] for t in L["t"]):
            feat_cfg["all_inline"] += 1
        elif any(not t["f"] for t in L["t"]):
            feat_cfg["mixed"] += 1
        if L["nf"] > 1:
            feat_cfg["multi_shard"] += 1
        if lim and any(s > lim for s in L["fsize"]):
            feat_cfg["oversize_shard"] += 1
        if L["index"]:
            feat_cfg["index"] += 1
        for j in range(1, L["nf"] + 1):
            if sum(t["l"] for t in L["t"] if t["f"] == j) < L["fsize"][j - 1]:
                feat_cfg["padding"] += 1
                break
    ctx.extra["enumerated_with_feature"] = feat_cfg
    if min(feat_cfg.values()) == 0:
        raise MachineryError(f"enumeration never reaches a feature: {feat_cfg}")

    # ---- selection ---------------------------------------------------------------------------------------
    rng = random.Random(ctx.seed)
    idx = list(range(len(cfgs)))
    if tp["cases"] is not None and len(idx) > tp["cases"]:
        # every configuration of the shorter tuples (quick: <= 2 tensors, thorough: <= 3), a seeded sample of the rest
        keep = tp["maxlen"] - 1
        small = [i for i in idx if len(cfgs[i][0][1]) <= keep]
        rest = [i for i in idx if len(cfgs[i][0][1]) > keep]
        rng.shuffle(rest)
        idx = sorted(small + rest[:max(0, tp["cases"] - len(small))])
        ctx.exhaustive = False
        ctx.extra["executed_all_configurations_up_to_len"] = keep
    else:
        ctx.exhaustive = True
    ctx.extra["configurations_executed"] = len(idx)
    probes = _probe_plans(names, ctx.seed, 10_000_000)
    ctx.extra["probes_executed"] = len(probes)
    # re-save scenarios: a seeded subset of the configurations with >= 2 tensors
    pool2 = [i for i in range(len(cfgs)) if len(cfgs[i][0][1]) >= 2]
    rng2 = random.Random(ctx.seed + 7)
    n_ch = int(os.environ.get("C07_DEV_CHAINS") or tp["chains"])
    chains = []
    for j, i in enumerate(sorted(rng2.sample(pool2, min(n_ch, len(pool2))))):
        plan = xl.plan_case(RS_BASE + 8 * j, xl.cdict(cfgs[i][0]), ctx.seed, names)
        if plan["fail"]:
            plan["fail"] = 0
            plan["kinds"] = [k if k != "lazy-fail" else "lazy" for k in plan["kinds"]]
        plan["chain"] = _chain_for(plan["c"], random.Random(ctx.seed * 31 + j), names, plan)
        chains.append(plan)
    chains += _resave_probes(names, ctx.seed, RS_BASE + 8 * (len(chains) + 10))
    ctx.extra["resave_scenarios_executed"] = len(chains)

    # ---- (3)+(4) rounds: execute on the implementation, let TLC evaluate the observations -------------------
    st = dict(div={}, div_samples={}, viol={}, aux={}, kinds={}, resave={}, n_ok=0, t_exec=0.0, t_eval=0.0)
    root, on_shm = _workroot(ctx)
    ctx.extra["case_directories_on"] = "/dev/shm" if on_shm else "scratch"
    try:
        with mp.Pool(_nproc()) as pool:
            first = True
            for a in range(0, len(idx), tp["round"]):
                part = idx[a:a + tp["round"]]
                plans = [xl.plan_case(i + 1, xl.cdict(cfgs[i][0]), ctx.seed, names) for i in part]
                exp = {i + 1: cfgs[i][1] for i in part}
                if first:
                    plans += probes + chains
                    first = False
                t0 = time.time()
                obs_all, info_all = _execute(pool, plans, names, root, f"r{a}")
                st["t_exec"] += time.time() - t0
                ctx.replayed += len(obs_all)
                t0 = time.time()
                rep = evaluate(ctx, obs_all, tp["chunk"], tag=f"tr{a}-")
                st["t_eval"] += time.time() - t0
                by_id = {}
                for p in plans:
                    by_id[p["id"]] = p
                    for k, stp in enumerate(p.get("chain", []), start=1):
                        by_id[p["id"] + k] = dict(p, workers=stp["workers"], step=k, first_c=p["c"])
                _classify(ctx, st, obs_all, info_all, rep, by_id, exp, names)
    finally:
        if on_shm:
            shutil.rmtree(root, ignore_errors=True)

    ctx.extra["execute_s"] = round(st["t_exec"], 1)
    ctx.extra["evaluate_s"] = round(st["t_eval"], 1)
    ctx.validated += st["n_ok"]
    ctx.extra["kinds_executed"] = st["kinds"]
    ctx.extra["resave_steps_by_feature"] = st["resave"]
    ctx.extra["divergences"] = st["div"]
    if st["div"]:
        ctx.extra["divergence_samples"] = st["div_samples"]
        for k, v in sorted(st["div"].items()):
            ctx.note(f"divergence {k}: {v} case(s) differ from the computed layout but satisfy every formula")
    if st["aux"]:
        ctx.extra["auxiliary_observations"] = st["aux"]
    for sig, d in sorted(st["viol"].items()):
        d.pop("_rank", None)
        ctx.violation(sig, d)
    ctx.extra["violating_cases_by_signature"] = {s: d["cases"] for s, d in sorted(st["viol"].items())}
    ctx.extra["total_s"] = round(time.time() - t_start, 1)


def _classify(ctx, st, obs_all, info_all, rep, plans_by_id, exp_by_id, names) -> None:
    for o in obs_all:
        pid = o["id"]
        plan = plan_stored = plans_by_id[pid]
        info = info_all.get(pid)
        if o.get("mode"):
            plan = dict(plan, kinds=(info or {}).get("kinds") or ["loaded"] * len(o["c"]["sizes"]))
        r = rep.get(pid, {"bad": [], "diff": []})
        c = o["c"]
        n = len(c["sizes"])
        expL = json.loads(exp_by_id[pid]) if pid in exp_by_id else None
        returned = o["out"] == "returned" and o["loaded"]
        # cross-check of the two comparisons (TLC's Diff vs. plain equality with the layout TLC printed)
        if expL is not None and returned:
            py_equal = xl.expected_equal(o, expL, names)
            if py_equal != (not r["diff"]):
                raise MachineryError(f"case {pid}: TLC says diff={r['diff']} but equality with the printed layout is "
                                     f"{py_equal}: {json.dumps(o)[:600]}")
        # coverage bookkeeping
        feats = []
        anyext = any(_wanted_ext(c, i) for i in range(n))
        if returned:
            if len(o["files"]) > 1:
                feats.append("shards")
            if c["lim"] and any(f["size"] > c["lim"] for f in o["files"]):
                feats.append("oversize")
            if any(t["loc"] for t in o["t"]) and any(not t["loc"] for t in o["t"]):
                feats.append("mixed")
            for f in o["files"]:
                if sum(t["l"] for t in o["t"] if t["loc"] == f["name"]) < f["size"]:
                    feats.append("padding")
                    break
        if o.get("mode"):
            prev = plan["first_c"] if plan["step"] == 1 else dict(c, thr=plan["chain"][plan["step"] - 2]["thr"])
            to_inline = any(_wanted_ext(prev, i) and not _wanted_ext(c, i) for i in range(n))
            to_ext = any(not _wanted_ext(prev, i) and _wanted_ext(c, i) for i in range(n))
            keeps = any(_wanted_ext(prev, i) and _wanted_ext(c, i) for i in range(n))
            feats.append("resave:%s:%s%s%s%s" % (o["mode"], "to-inline" if to_inline else "", "+to-external" if to_ext else "",
                                                "+stays-external" if keeps else "", "+refused" if o["refused"] else ""))
            st["resave"][feats[-1]] = st["resave"].get(feats[-1], 0) + 1
        if plan["fail"]:
            feats.append("fail@%s" % ("model-file" if plan["fail"] > n else
                                      ("external" if _wanted_ext(c, plan["fail"] - 1) else "inline")))
        ks = sorted({_kindclass(k) for k in plan["kinds"]} - {"array"})
        for k in plan["kinds"]:
            st["kinds"][k.split(":")[0]] = st["kinds"].get(k.split(":")[0], 0) + 1
        if o.get("mode"):
            ks = []
        if ks:
            feats.append("kinds=" + "+".join(ks))
        if any(p != "main" for p in plan["place"]):
            feats.append("subgraph")
        if plan["workers"] and plan["workers"] > 1 and c["be"] == "raw":
            feats.append("workers>1")
        nontrivial = bool(anyext and feats)
        sample = None
        if nontrivial and len(ctx.samples) < 3 and n >= 2 and returned and ("shards" in feats or "padding" in feats):
            sample = {"configuration": c, "kinds": plan["kinds"], "placement": plan["place"],
                      "max_workers": plan["workers"], "observed": {"files": o["files"], "tensors": o["t"]},
                      "expected_layout": expL, "tlc_verdict": r}
        ctx.case((c["be"],) + tuple(feats), nontrivial=nontrivial, sample=sample)

        if not r["bad"]:
            st["n_ok"] += 1
            if r["diff"]:
                why = ":descending-names" if plan.get("names_desc") else ":f4-storage-dtype" if plan.get("force_f4") else ""
                dsig = "DIV:%s:%s%s" % (c["be"], "+".join(r["diff"]), why)
                st["div"][dsig] = st["div"].get(dsig, 0) + 1
                st["div_samples"].setdefault(dsig, {"configuration": c, "kinds": plan["kinds"], "observed":
                                                    {"files": o["files"], "t": o["t"]}, "expected": expL})
        else:
            for sig in signatures(o, r["bad"], info, plan):
                d = st["viol"].get(sig)
                rank = (n, sum(c["sizes"]), len([k for k in plan["kinds"] if k != "array"]), pid)
                if d is None or rank < d["_rank"]:
                    cnt = d["cases"] if d else 0
                    st["viol"][sig] = d = {
                        "_rank": rank, "cases": cnt, "plan": plan_stored, "failed_formulas": r["bad"], "diff": r["diff"],
                        "observation": o, "info": info, "expected_layout": expL,
                        "message": _message(o, plan, info, r)}
                d["cases"] += 1
        if info:
            for a in info.get("aux", []):
                st["aux"][a] = st["aux"].get(a, 0) + 1
            if o["out"] == "raised" and plan["fail"] and not info.get("injected"):
                k = "failing-case-raised-something-else:%s" % info.get("exc")
                st["aux"][k] = st["aux"].get(k, 0) + 1


def _message(o, plan, info, r) -> str:
    c = o["c"]
    api = "ir.save(external_data=...)" if c["be"] == "raw" else "ir.save_safetensors"
    if o.get("mode"):
        api = f"RE-SAVE step {plan.get('step')} ({o['mode']}) of a model first saved with {plan.get('first_c')} " \
              f"(chain {[(x['mode'], x['thr'], x['lim']) for x in plan.get('chain', [])]}): " + api
    opts = f"sizes={c['sizes']} threshold={c['thr']} alignment={c['al'] or None} align_threshold={c['athr']} " \
           f"max_shard_size_bytes={c['lim'] or None} max_workers={plan['workers']}"
    extra = ""
    if info and info.get("exc"):
        extra = f"; save raised {info['exc']}: {info.get('exc_msg', '')}"
    if info and info.get("berr"):
        extra += f"; reading back: {info['berr']}"
    return (f"{api} {opts} kinds={plan['kinds']} placement={plan['place']}: formulas failing on the observed "
            f"result: {r['bad']}{extra}")


def replay(ctx, detail) -> bool:
    """Re-execute one recorded case (for a re-save step: its whole chain); True if TLC still reports a failed
    formula on what is observed for that case."""
    plan = {k: v for k, v in detail["plan"].items() if k not in ("step", "first_c")}
    want = detail["observation"]["id"]
    r0 = ctx.tlc(MC, _cfg_with(ctx.scratch, "ExtLayoutMC.cfg", "names.cfg", MaxLen=0), tag="names", workers=2,
                 timeout=300, deadlock=False)
    _cfgs, names = xl.parse_mc(r0.out_path)
    res = xl.run_batch(dict(plans=[plan], names=names, workdir=os.path.join(ctx.scratch, "replay")))
    if res["error"]:
        raise MachineryError(res["error"])
    rep = evaluate(ctx, res["obs"], 50, tag="rp")
    r = rep.get(want, {"bad": [], "diff": []})
    for o in res["obs"]:
        rr = rep.get(o["id"], {"bad": [], "diff": []})
        print(f"case {o['id']}{' (re-save ' + o['mode'] + ')' if o['mode'] else ''}: save {o['out']}; formulas failing on "
              f"the observed result: {rr['bad']}; differs from the computed layout in: {rr['diff']}")
        if o["id"] == want:
            print(json.dumps(o)[:1500])
    return bool(r["bad"])
