"""C03 - IR -> proto -> IR preserves the model; serialization has no side effects."""
import hashlib
import json
import os
import re
from collections import Counter

from .. import serdeir
from ..common import NCPU, SPECS, MachineryError

LEVEL = "model_checking"
SERDE = os.path.join(SPECS, "serde")
BATCH = 6000          # pairs per TLC trace run (one JVM each)


def _cfg(ctx, name, depth, extra_sub=None):
    src = open(os.path.join(SERDE, name)).read()
    src = re.sub(r"MaxDepth = \d+", f"MaxDepth = {depth}", src)
    path = os.path.join(ctx.scratch, name.replace(".cfg", "_v.cfg"))
    open(path, "w").write(src)
    return path


def _leaf_class(what: str) -> str:
    w = re.sub(r"\[\d+\]", "", what)
    w = re.sub(r"^(node\.sub\.)+", "sub.", w)
    return w


def judge_pairs(ctx, pairs, tag):
    """TLC (SerdeIRTrace) evaluates Serializable / Iso on every distinct observed pair."""
    distinct, key_of = {}, {}
    for p in pairs:
        body = json.dumps({"kind": p["kind"], "orig": p["orig"], "deser": p["deser"]}, sort_keys=True)
        hk = hashlib.sha1(body.encode()).hexdigest()
        key_of[(p["id"], p["kind"], p["fn"])] = hk
        if hk not in distinct:
            distinct[hk] = dict(p, id=len(distinct), fn=0)
    recs = list(distinct.values())
    verdict_by_no = {}
    for b in range(0, len(recs), BATCH):
        chunk = recs[b:b + BATCH]
        path = os.path.join(ctx.scratch, f"pairs-{tag}-{b}.json")
        with open(path, "w") as f:
            json.dump(chunk, f)
        res = ctx.tlc(os.path.join(SERDE, "SerdeIRTrace.tla"), os.path.join(SERDE, "SerdeIRTrace.cfg"), tag=f"judge-{tag}-{b}",
                      env={"TRACE_FILE": path}, deadlock=False, timeout=3000, count=False, heap="4g")
        if not res.ok:
            raise MachineryError(f"trace judge failed: {res.violated} {res.errors[:2]}\n{res.tail(25)}")
        n = 0
        for v in res.records():
            verdict_by_no[v["id"]] = v
            n += 1
        if n != len(chunk):
            raise MachineryError(f"trace judge printed {n} verdicts for {len(chunk)} pairs")
        os.remove(path)
    no_of = {hk: r["id"] for hk, r in distinct.items()}
    return {k: verdict_by_no[no_of[hk]] for k, hk in key_of.items()}, len(recs)


def evaluate(ctx, results, verdicts, spec_by_id):
    """Turn executed states + TLC verdicts into violations / divergences / statistics."""
    st = Counter()
    divs = Counter()
    outer = Counter()
    for r in results:
        k = r["id"]
        if r.get("unparsed"):
            raise MachineryError("an emitted record could not be parsed")
        if r.get("crash"):
            raise MachineryError("the replay harness crashed on a state:\n" + r["crash"])
        fl, h = r["flags"], r["h"]
        spec = spec_by_id.get(k, {})
        detail0 = {"history": h, "k": k, "flags": fl}
        st["states"] += 1
        for f in r["findings"]:
            if f["cls"] == "C03":
                ctx.violation(f["signature"], f)
            else:
                divs[f["signature"]] += 1
                if divs[f["signature"]] == 1:
                    ctx.note(f"divergence {f['signature']}: {f.get('message', '')} history tail {h[-2:]}")
        ser_spec = spec.get("ser")
        why = spec.get("why", "")
        if fl.get("pre_ok") is False:
            # the code left the specification's path earlier in the history (reported as a divergence above, and by the
            # C01/C06 checks if it is a defect of the containers); the state actually reached is judged all the same,
            # by TLC on what was observed - Serializable is then TLC's verdict on the observed original
            st["off-model-states-judged"] += 1
            ser_spec, why = None, "off-model-state"
            detail0["off_model_state"] = True
        vm = verdicts.get((k, "model", 0))
        edits = [c[0][0] for c in h[-2:]]
        ctx.case(key=(tuple(edits), why, fl.get("ser1"), fl.get("deser"), None if vm is None else vm["iso"]), nontrivial=True,
                 sample={"history_tail": h[-3:], "serializable": ser_spec, "why": why, "to_proto": fl.get("ser1"), "from_proto": fl.get("deser"),
                         "iso": None if vm is None else vm["iso"]})
        st["serializable" if ser_spec else ("not-serializable:" + why if ser_spec is not None else why)] += 1
        if fl.get("devcfg_written_below_ir11"):
            st["observation:device-configurations-of-subgraph-nodes-written-below-ir11"] += 1
        if ser_spec and fl.get("ser1") != "ok":
            ctx.violation("C03:serializable:to_proto-" + fl.get("ser1", "?"), dict(detail0, message="to_proto raised on a serializable model: " + fl.get("ser1_msg", "")))
            continue
        if fl.get("ser1") != "ok":
            st["code:to_proto-raises"] += 1
            continue
        if ser_spec and fl.get("deser") != "ok":
            ctx.violation("C03:serializable:from_proto-" + fl.get("deser", "?"), dict(detail0, message="from_proto raised on the proto of a serializable model: " + fl.get("deser_msg", "")))
            continue
        if vm is None:
            st["code:from_proto-raises"] += 1
            continue
        ctx.validated += 1
        if bool(vm["ser"]) != bool(ser_spec) and ser_spec is not None:
            divs["DIV:serializable-verdict-differs"] += 1
        leaf = r.get("leaf") or []
        graph_leaf = [d for d in leaf if not d["what"].startswith("function")]
        if vm["ser"] and not vm["iso"]:
            hint = _leaf_class(graph_leaf[0]["what"]) if graph_leaf else "structure"
            ctx.violation("C03:roundtrip:not-isomorphic:" + hint,
                          dict(detail0, leaf=graph_leaf[:3], message="TLC: Serializable(orig) holds but Iso(orig, from_proto(to_proto(orig))) does not; first difference: " + hint))
        elif vm["ser"]:
            st["roundtrip-iso"] += 1
            for d in graph_leaf:
                ctx.violation("C03:leaf:" + _leaf_class(d["what"]), dict(detail0, leaf=d, message=f"payload differs after the round trip at {d['what']}: {d.get('orig')} -> {d.get('deser')}"))
        else:
            st["code:non-serializable-roundtrip-" + ("iso" if vm["iso"] else "not-iso")] += 1
            if why == "outer-value-as-graph-output":
                outer["iso" if vm["iso"] else "identity-lost"] += 1
        if not vm["miso"]:
            divs["DIV:deser-model:" + (vm["rtErr"] or "not-isomorphic")] += 1
            if divs["DIV:deser-model:" + (vm["rtErr"] or "not-isomorphic")] == 1:
                ctx.note(f"divergence: Deser(Ser(orig)) of the specification is not isomorphic to from_proto(to_proto(orig)); history tail {h[-2:]} k={k}")
        # model-local functions (hand-built, valid): always inside the quantifier
        for fi in range(fl.get("nfunc", 0)):
            vf = verdicts.get((k, "function", fi))
            fleaf = [d for d in leaf if d["what"].startswith(f"function[{fi}]")]
            if vf is None:
                ctx.violation("C03:function:lost", dict(detail0, message="a model-local function did not come back"))
                continue
            ctx.validated += 1
            cls = _leaf_class(fleaf[0]["what"]).replace("function.", "") if fleaf else "structure"
            if not vf["iso"]:
                ctx.violation("C03:function:not-isomorphic:" + cls,
                              dict(detail0, fn=fi, leaf=fleaf[:3], message=f"TLC: a model-local function is not isomorphic to its round trip (IR version {fl.get('ir_version')}); first difference: {cls}"))
            else:
                st["function-iso"] += 1
                for d in fleaf:
                    ctx.violation("C03:leaf:function." + _leaf_class(d["what"]).replace("function.", ""),
                                  dict(detail0, fn=fi, leaf=d, message=f"function payload differs after the round trip at {d['what']}"))
        if [d for d in leaf if d["what"].startswith("functions.keys")]:
            ctx.violation("C03:leaf:functions.keys", dict(detail0, message="the set of model-local functions changed"))
    return st, divs, outer


def run(ctx):
    thorough = ctx.tier == "thorough"
    quick_stride = int(os.environ.get("VERIF_C03_STRIDE", "3"))     # selftest runs use a thinner sample
    quick_depth = int(os.environ.get("VERIF_C03_DEPTH", "3"))       # selftest runs may use 2 (= one edit after the seed)
    runs = [("SerdeIRMC.cfg", 3 if thorough else quick_depth, 1 if thorough else quick_stride)]
    if thorough:
        runs.append(("SerdeIRMC_deep.cfg", 4, 1))
    total, all_divs, outer_all, ops = Counter(), Counter(), Counter(), Counter()
    judged = 0
    for cfg_name, depth, stride in runs:
        tag = cfg_name.replace(".cfg", "").lower()
        res = ctx.tlc(os.path.join(SERDE, "SerdeIRMC.tla"), _cfg(ctx, cfg_name, depth), tag="mc-" + tag, deadlock=False, timeout=6000, heap="4g")
        if not res.ok:
            raise MachineryError(f"design theorems failed in {cfg_name}: {res.violated} {res.errors[:2]}\n{res.tail(25)}")
        offset = ctx.seed % stride
        results, pairs, spec_by_id = serdeir.replay_file(res.out_path, nproc=NCPU, stride=stride, offset=offset)
        ctx.replayed += len(results)
        for r in results:
            for c, out in r["h"][-(depth - 1):]:
                ops[f"{c[0]}:{out}"] += 1
        verdicts, n = judge_pairs(ctx, pairs, tag)
        judged += n
        st, divs, outer = evaluate(ctx, results, verdicts, spec_by_id)
        total.update(st)
        all_divs.update(divs)
        outer_all.update(outer)
        ctx.extra.setdefault("runs", []).append({"cfg": cfg_name, "depth": depth, "emitted_states": res.distinct, "executed": len(results),
                                                 "stride": stride, "pairs": len(pairs), "distinct_pairs_judged_by_tlc": n})
        os.remove(res.out_path)
    ctx.extra["divergences"] = dict(all_divs)
    ctx.extra["state_classes"] = dict(total)
    ctx.extra["outer_value_as_subgraph_output"] = dict(outer_all)
    ctx.extra["last_calls_executed"] = dict(ops)
    ctx.extra["pairs_judged_by_tlc"] = judged
    ctx.rule = ("TLC explores SerdeIRMC (five seed models: capture over two nesting levels of an outer node output and an outer graph input; unsorted "
                "node order with a subgraph using a value produced later; a value that is input+initializer+output listed twice, None inputs, a node "
                "without outputs, empty-named outputs, values without type or shape; shadowing and sibling subgraphs; an outer value as subgraph output) "
                "x every edit history of the bound over the focused alphabet, and checks on every state the design theorems Serializable => "
                "Iso(Deser(Ser)), Ser independent of its own effect, effect = tensor names only, Deser result consistent. Every emitted state (in the quick "
                "tier a seeded 1/3 sample taken after ordering the states by a hash of the state, i.e. independent of TLC's output order) is rebuilt with real objects through the public API, decorated (IR version 8..13, opset imports, doc "
                "strings, 11 attribute kinds, nested types, 0-2 model-local functions, 8 variants of node device configurations: nodes with 0-3 entries, "
                "declared and dangling (configuration removed without cascade) ones in both orders, with/without sharding specs and pipeline stages, in "
                "the main graph, a subgraph and a function), deep-snapshotted, serialized "
                "twice, snapshotted again, the proto compared with the specification's Ser, deserialized; TLC (SerdeIRTrace) then evaluates "
                "Serializable and Iso (which includes every node device configuration entry in order, sharded values bound by identity, from IR version "
                "11) on the observed (original, deserialized) object graphs and on every function; payloads are compared in Python. "
                "distinct_nontrivial = distinct (last two edits, Serializable clause failing, to_proto outcome, from_proto outcome, Iso) classes.")
    ctx.assumptions = [
        "Serializable (SerdeIR.tla) delimits the quantifier: tree-shaped nesting, referenced values named, one definition per name and scope, uses "
        "resolve by scoped name lookup to the value used, graph outputs defined by the graph itself, initializers have data, shapes only under a type, "
        "output flag only from the value's own graph; outside it only the absence of side effects is required",
        "an initializer without type/shape may come back typed by its tensor; trailing empty-named outputs are absent; Value.meta is not serializable",
        "nesting depth <= 3; <= 2 edits after the seed (3 on the focused deep configuration of the thorough tier)",
        "external tensors are left to C07; sparse tensors are unsupported by the library",
    ]
    ctx.exhaustive = thorough


def replay(ctx, detail) -> bool:
    rec = {"h": detail["history"]}
    r = serdeir.run_state(rec, detail.get("k", 0))
    bad = False
    for f in r["findings"]:
        print(f["signature"], f.get("message", ""))
        bad = bad or f["cls"] == "C03"
    print("flags:", r["flags"])
    if r["pairs"]:
        verdicts, _ = judge_pairs(ctx, r["pairs"], "replay")
        for key, v in sorted(verdicts.items()):
            print(key, {x: v[x] for x in ("ser", "why", "iso", "miso")})
            if key[1] == "function" and not v["iso"]:
                bad = True
            if key[1] == "model" and v["ser"] and not v["iso"]:
                bad = True
        vm = verdicts.get((r["id"], "model", 0))
        for d in r.get("leaf") or []:
            print("leaf:", d)
            if d["what"].startswith("function") or (vm and vm["ser"] and vm["iso"]):
                bad = True
    return bad
