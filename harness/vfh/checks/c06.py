"""C06 - a rejected edit leaves every IR object exactly as it was."""
from .. import ircheck

LEVEL = "model_checking"


def run(ctx):
    ircheck.run_engine(ctx, "C06")


def replay(ctx, detail) -> bool:
    return ircheck.replay_detail(ctx, detail, "C06")
