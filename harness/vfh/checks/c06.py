"""C06 - a rejected edit leaves every IR object exactly as it was."""
from .. import ircheck, topocheck
from ..report import Ctx

LEVEL = "model_checking"


def run(ctx):
    ircheck.run_engine(ctx, "C06")
    # The "cycle found by sort" clause: Graph.sort / Function.sort / TopologicalSortPass over nested
    # graphs is specified in TopoSort.tla (C12); its CycleAtomic clause (a ValueError from sort leaves
    # every graph's order unchanged) is the C06 requirement for that call. The TopoSort engine is run
    # here as well and its CycleAtomic verdicts are reported under C06.
    _shape_stage(ctx)
    sub = Ctx("C12", ctx.tier, ctx.seed, ctx.scratch)
    sub.known = []
    topocheck.run_engine(sub)
    ctx.states += sub.states
    ctx.transitions += sub.transitions
    ctx.replayed += sub.replayed
    ctx.validated += sub.validated
    ctx.evaluations += sub.evaluations
    ctx.tlc_runs += sub.tlc_runs
    ctx.extra["sort_cycle_clause"] = {"engine": "toposort (specs/sort/TopoSort.tla, clause CycleAtomic)",
                                      "instances_replayed": sub.replayed, "violations_of_other_clauses_ignored_here":
                                      sorted(s for s in sub.violations if "CycleAtomic" not in s)}
    for sig, detail in sub.violations.items():
        if "CycleAtomic" in sig:
            ctx.violation("C06:GSort:cycle:" + sig.split("CycleAtomic", 1)[1].strip(":"),
                          dict(detail, via="C12 CycleAtomic", message="sort() raised on a cyclic graph but changed a graph's node order"))


def _shape_stage(ctx) -> None:
    """In-place edits of a value's shape (Value.merge_shapes, shape[i] = d) are specified in IRClone.tla, which carries
    types and shapes; its focus configuration IRCloneMC_shape.cfg is explored here and every rejected edit of every
    state replayed: the rejection must leave the value's shape as it was."""
    import os

    from .. import irclone
    from ..common import NCPU, SPECS, MachineryError

    ir_dir = os.path.join(SPECS, "ir")
    res = ctx.tlc(os.path.join(ir_dir, "IRCloneMC.tla"), os.path.join(ir_dir, "IRCloneMC_shape.cfg"), tag="mc-shape", timeout=1800)
    if not res.ok:
        raise MachineryError(f"design spec check failed (shape focus): {res.violated} {res.errors[:2]}\n{res.tail(25)}")
    findings, stats, kinds = irclone.replay_file(res.out_path, dict(names=["a", "b", "a", "<none>"], consts=[True, True, False, True]), nproc=NCPU)
    os.unlink(res.out_path)
    if stats.get("unparsed"):
        raise MachineryError(f"{stats['unparsed']} emitted records could not be parsed (shape focus)")
    rejected = sum(v for k, v in kinds.items() if k.split("|")[0] in ("MergeShapes", "SetDim") and k.split("|")[1] != "ok")
    if not rejected:
        raise MachineryError("shape focus: no rejected shape edit was replayed")
    ctx.replayed += stats.get("states", 0)
    ctx.evaluations += stats.get("calls", 0)
    ctx.extra["shape_edits"] = {"engine": "irclone (specs/ir/IRClone.tla: MergeShapes, SetDim, SetShape; IRCloneMC_shape.cfg)",
                                "states_replayed": stats.get("states", 0), "rejected_edits_replayed": rejected}
    for sig, f in findings.items():
        if f["cls"] == "C06":
            ctx.violation(sig, dict(f, via="IRClone shape focus"))
    for k in kinds:
        ctx._distinct.add("shape|" + k)


def replay(ctx, detail) -> bool:
    if detail.get("via") == "IRClone shape focus":
        from .. import irclone

        from ..irdrive import call_from_compact

        r = irclone.CloneReplayer(["a", "b", "a", "<none>"], [True, True, False, True])
        u = r.build(detail["history"])
        pre = u.project_c()
        got = u.apply(call_from_compact(detail["call"]))
        print(f"replayed {detail['call'][0]}: {got}; state changed: {u.project_c() != pre}")
        return got != "ok" and u.project_c() != pre
    if detail.get("via") == "C12 CycleAtomic":
        return topocheck.replay_detail(ctx, detail)
    return ircheck.replay_detail(ctx, detail, "C06")
