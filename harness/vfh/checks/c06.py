"""C06 - a rejected edit leaves every IR object exactly as it was."""
from .. import ircheck, topocheck
from ..report import Ctx

LEVEL = "model_checking"


def run(ctx):
    ircheck.run_engine(ctx, "C06")
    # The "cycle found by sort" clause: Graph.sort / Function.sort / TopologicalSortPass over nested
    # graphs is specified in TopoSort.tla (C12); its CycleAtomic clause (a ValueError from sort leaves
    # every graph's order unchanged) is the C06 requirement for that call. The TopoSort engine is run
    # here as well and its CycleAtomic verdicts are reported under C06.
    sub = Ctx("C12", ctx.tier, ctx.seed, ctx.scratch)
    sub.known = []
    topocheck.run_engine(sub)
    ctx.states += sub.states
    ctx.transitions += sub.transitions
    ctx.replayed += sub.replayed
    ctx.validated += sub.validated
    ctx.evaluations += sub.evaluations
    ctx.tlc_runs += sub.tlc_runs
    ctx.extra["sort_cycle_clause"] = {"engine": "toposort (specs/sort/TopoSort.tla, clause CycleAtomic)",
                                      "instances_replayed": sub.replayed, "violations_of_other_clauses_ignored_here":
                                      sorted(s for s in sub.violations if "CycleAtomic" not in s)}
    for sig, detail in sub.violations.items():
        if "CycleAtomic" in sig:
            ctx.violation("C06:GSort:cycle:" + sig.split("CycleAtomic", 1)[1].strip(":"),
                          dict(detail, via="C12 CycleAtomic", message="sort() raised on a cyclic graph but changed a graph's node order"))


def replay(ctx, detail) -> bool:
    if detail.get("via") == "C12 CycleAtomic":
        return topocheck.replay_detail(ctx, detail)
    return ircheck.replay_detail(ctx, detail, "C06")
