"""C04 - all tensor representations agree on values and bytes for every dtype / shape."""
import os

from .. import tensorrepr as tr
from ..common import NCPU, SPECS, MachineryError

LEVEL = "model_checking"
SERDE = os.path.join(SPECS, "serde")
TLA = os.path.join(SERDE, "TensorReprMC.tla")

# fraction of the emitted states executed in the quick tier (seeded sample, every stratum at least once per chunk).
# The quick tier is bounded in the specification instead (TensorReprMC.cfg: tofile() explored for one code pattern and
# for empty tensors, one write): ~106 k states, all executed (~285 k implementation tests, ~100 s CPU)
QUICK_FRACTION = 1.0


def _nworkers() -> int:
    try:
        return max(1, int(os.environ.get("VERIF_WORKERS", "") or NCPU))
    except ValueError:
        return NCPU


def run(ctx):
    thorough = ctx.tier == "thorough"
    # 1. element type tables: TLC checks Tables on the specification's data and prints it; compare with the library
    rt = ctx.tlc(TLA, os.path.join(SERDE, "TensorReprMC_tables.cfg"), tag="tables", workers=2, timeout=600)
    if not rt.ok:
        raise MachineryError(f"Tables check failed in TLC: {rt.violated} {rt.errors[:2]}\n{rt.tail(25)}")
    tables = None
    for rec in rt.records():
        if "tables" in rec:
            tables = rec["tables"]
    if not tables:
        raise MachineryError("TLC did not print the element type tables")
    divs = {}

    # 2. the bounded space of (logical tensor, representation, writes): Agree / PackLen / WriteInv / AgreeAll in TLC,
    #    one record per state, one implementation test per record and applicable element type
    cfg = os.path.join(SERDE, "TensorReprMC_thorough.cfg" if thorough else "TensorReprMC.cfg")
    res = ctx.tlc(TLA, cfg, tag="mc", timeout=3000, deadlock=False, coverage=thorough, workers=_nworkers())
    if not res.ok:
        raise MachineryError(f"design spec check failed: {res.violated} {res.errors[:2]}\n{res.tail(25)}")
    if thorough:
        acts = {k: v for k, v in res.coverage.items() if k.split("!")[1] in ("Init", "ConstructAny", "FirstWriteAny", "NextWrite")}
        ctx.extra["action_coverage"] = acts
        dead = [k for k, v in acts.items() if v[0] == 0]
        if dead or len(acts) < 4:
            raise MachineryError(f"actions never taken in the bounded model: {dead or acts}")
    frac = 1.0 if thorough else QUICK_FRACTION
    tot = tr.run_file(res.out_path, os.path.join(ctx.scratch, "impl"), _nworkers(), frac, ctx.seed)
    if tot["unparsed"]:
        raise MachineryError(f"{tot['unparsed']} emitted records could not be parsed")
    expected_emitted = res.distinct - _initial_states(res)
    if tot["states"] != expected_emitted:
        raise MachineryError(f"read {tot['states']} state records, TLC found {expected_emitted} represented states")
    items = [(k[0], k[1], v, tot["counts"][k]) for k, v in tot["findings"].items()]
    _classify(ctx, items, divs)
    # (after the worker pool: comparing the torch adapter table imports torch into this process)
    t_items, t_n = tr.check_tables(tables)
    ctx.evaluations += t_n
    _classify(ctx, [(i["class"], i["signature"], i["detail"], 1) for i in t_items], divs)
    ctx.replayed += tot["executed"]
    ctx.evaluations += tot["tests"]
    for st in tot["strata"]:
        ctx._distinct.add("|".join(str(x) for x in st))
    ctx.samples = tot["samples"][:3]
    ctx.extra["divergences"] = divs
    ctx.extra["states_emitted"] = tot["states"]
    ctx.extra["states_executed"] = tot["executed"]
    ctx.extra["implementation_tests"] = tot["tests"]
    ctx.extra["sample_fraction"] = frac
    ctx.extra["torch_available"] = tot["torch"]
    ctx.extra["constants"] = {
        "cls": "b2 b4 b8 b16 b32 b64 c64 c128 bool string",
        "n": "0..9",
        "shapes_per_n": 3,
        "patterns": "zeros ones ramp rev alt",
        "dest_kinds": "w0 wk rpk ab bio0 biok",
        "ext_offsets": "0 1 2(end of file) 0(whole file) 4095 4096 4097 8192(end of file) 70001 x length given/omitted",
        "views": "own win(3 elements into a larger buffer) chunk(second half) strided(step 2, offset 1) for array native/bits and torch",
        "max_writes": 2 if thorough else 1,
        "write_patterns": "all" if thorough else "ramp (and empty tensors)",
    }
    ctx.exhaustive = frac >= 1.0
    ctx.rule = (
        "TLC enumerates every logical tensor [cls, n, dims, codes] of the bounded space, every representation applicable to the class "
        "(array native/bits/sbits/ctor/list and torch, each owning its buffer or as a window / chunk / strided view of a larger one, packed, "
        "proto x storage field, external x offset kind (incl. offsets across the page / mmap allocation granularity) x length given, lazy x inner) "
        "and 0..MaxWrites tofile() calls into each destination kind; Agree, PackLen, WriteInv, AgreeAll and Tables are invariants of the "
        "specification. Each printed state is built on the real library for every element type of the class to which the representation "
        "applies and dtype, shape, size, nbytes, tobytes(), numpy() (as bit patterns), tofile() content and position, serialize_tensor() "
        "are compared with the record; the same records are compared with onnx.numpy_helper / onnx.helper (divergence class). "
        "distinct_nontrivial = strata (cls, representation, inner, flavour, view, field, offset kind, length given, destination kind, writes) executed."
    )
    ctx.assumptions = [
        "little-endian host",
        "bool elements are the bytes 0x00 / 0x01; string elements carry no trailing NUL (onnx.proto); padding bits of the last byte of a sub-byte tensor are 0",
        "32-bit signalling NaN patterns are not enumerated: a protobuf float field set through the Python API quiets them before ir-py sees them",
        "element patterns are compared as bits; what a pattern means as a real number is outside the specification",
        "string tensors have no byte representation (tobytes raises by design): only dtype, shape, values and string_data are compared",
    ]


def _initial_states(res) -> int:
    """Number of initial (unrepresented) states = states for which nothing is emitted."""
    n = 0
    with open(res.out_path, "r", errors="replace") as f:
        for line in f:
            if line.startswith("Finished computing initial states:"):
                n = int(line.split(":")[1].split()[0])
                break
    return n


def _classify(ctx, items, divs):
    for klass, sig, detail, count in items:
        if klass == "violation":
            detail = dict(detail, count=count)
            ctx.violation(sig, detail)
        elif klass == "refused":
            # Refusable(rep) of TensorRepr.tla: the library declined to build the representation (a byte-swapped array)
            ctx.extra["refusable_representations_refused"] = ctx.extra.get("refusable_representations_refused", 0) + count
        elif klass == "adjacent":
            adj = ctx.extra.setdefault("adjacent_findings", {})
            adj[sig] = adj.get(sig, 0) + count
            if len(ctx.notes) < 30:
                ctx.note(f"adjacent (not a C04 verdict) {sig} x{count}: {detail.get('message', '')[:300]}")
        else:
            divs[sig] = divs.get(sig, 0) + count
            if len(ctx.notes) < 30:
                ctx.note(f"divergence {sig} x{count}: {detail.get('message', '')[:300]}")


def replay(ctx, detail) -> bool:
    os.makedirs(os.path.join(ctx.scratch, "rp"), exist_ok=True)
    if "tables_row" in detail:
        rt = ctx.tlc(TLA, os.path.join(SERDE, "TensorReprMC_tables.cfg"), tag="tables", workers=2, timeout=600)
        tables = [r["tables"] for r in rt.records() if "tables" in r][-1]
        items, _ = tr.check_tables([r for r in tables if r["name"] == detail["tables_row"]])
        for i in items:
            print(i["signature"], i["detail"]["message"])
        return any(i["class"] == "violation" for i in items)
    items, _ = tr.run_state(detail["state"], os.path.join(ctx.scratch, "rp"), only_dtype=detail.get("dtype"))
    still = False
    for i in items:
        print(i["class"], i["signature"], i["detail"]["message"][:300])
        if i["class"] == "violation" and i["detail"]["observable"] == detail.get("observable"):
            still = True
    return still
