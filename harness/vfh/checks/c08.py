"""C08 - an interrupted external-data save never damages an existing data file.

Specification: specs/extdata/AtomicSave.tla (+MC, +Trace).  Binding (no edit of /repo):

* TLC model-checks the design (every fault and crash position of every configuration) and emits
  the terminal state the design allows per fault position;
* syscall layer: the real ``ir.save`` runs in a child under ``strace``; run 0 gives the ordered
  file-system effects, then every effect is made to fail (``-e inject=...:error=``) or the process
  is killed at it (``:signal=SIGKILL``);
* Python layer: proxies in the module globals of ``onnx_ir.external_data`` log the same effects
  (plus callbacks, mid-tensor chunk writes, release/invalidate of EVERY external tensor -- those
  backed by the destination and the bystanders backed by another file) and raise / ``os._exit``
  at each of them, in forked children;
* bystanders (``cfg.other``): ExternalTensors saved in the same call whose file is elsewhere -- same
  file name in a sibling directory (identical ``location``), another name in the destination
  directory, same name in a sub-directory with a relative ``base_dir``; the tensors backed by the
  destination are also spelled through ``<dir>/sub/..`` and through a hard link;
* EVERY run (fault free, failed, killed) is a trace validated by TLC against AtomicSaveTrace.tla
  (order of effects incl. the finally path, and the end state observed on disk), and the formulas
  of the property are evaluated by TLC on the observed end state.  Only the latter give a
  violation; a run the model cannot reproduce is a *divergence* (noted, exit code unaffected).
"""

from __future__ import annotations

import json
import multiprocessing
import os
import random
import time

from .. import faultfs as F
from ..common import NCPU, SPECS, MachineryError

LEVEL = "model_checking"

SPEC_DIR = os.path.join(SPECS, "extdata")
MC = os.path.join(SPEC_DIR, "AtomicSaveMC.tla")
TRACE = os.path.join(SPEC_DIR, "AtomicSaveTrace.tla")

ERRNOS = {
    "mkdir": ["ENOSPC", "EACCES"],
    "openat": ["ENOSPC", "EIO", "EACCES"],
    "write": ["ENOSPC", "EIO"],
    "pwrite64": ["ENOSPC", "EIO"],
    "copy_file_range": ["ENOSPC", "EIO", "EPERM", "EXDEV"],
    "ftruncate": ["ENOSPC", "EIO"],
    "close": ["EIO"],
    "chmod": ["EPERM", "EIO"],
    "fchmodat": ["EPERM", "EIO"],
    "rename": ["EIO", "EPERM", "ENOSPC"],
    "renameat": ["EIO"],
    "renameat2": ["EIO"],
    "unlink": ["EIO", "EPERM"],
    "unlinkat": ["EIO"],
    "rmdir": ["EIO", "EPERM"],
}
PER_TENSOR = {"Callback", "WriteChunk", "OpenSrc", "ReleaseMap", "Invalidate", "CfrFallback"}


# ----------------------------------------------------------------------------------------------
# configurations
# ----------------------------------------------------------------------------------------------
def _cfg(nt, nc, dest="absent", backed=(), par=False, shard=False, pre=(), np=(), lim=None, other=(), ov=None, bv=None,
         xdev=False):
    return F.norm_cfg({"nt": nt, "nc": nc, "dest": dest, "backed": list(backed), "par": par, "shard": shard,
                       "pre": list(pre), "np": list(np), "lim": lim, "other": list(other), "ov": ov, "bv": bv, "xdev": xdev})


def xdev_configs(tier: str, scratch: str) -> list:
    """The destination is a symlink whose target lives on ANOTHER FILE SYSTEM than the directory the caller named
    (a rename between the two fails with EXDEV); none when the machine offers no second writable file system."""
    if F.xdev_root(scratch) is None:
        return []
    # (no tensor backed by the destination: onnx_ir refuses to READ through a link that leaves the base directory)
    out = [_cfg(2, 2, "symlink", (), xdev=True), _cfg(1, 1, "symlink", (), xdev=True)]
    if tier == "thorough":
        out += [_cfg(3, 2, "symlink", (), par=True, xdev=True), _cfg(1, 2, "symlink", (), xdev=True),
                _cfg(2, 1, "symlink", (), other=(2,), ov="b", xdev=True)]
    return out


def all_model_configs(max_t=3, max_c=2) -> list:
    """Exactly the configurations of AtomicSaveMC (Single + Sharded)."""
    out = []
    for nt in range(1, max_t + 1):
        for nc in range(1, max_c + 1):
            for dest in ("absent", "file", "symlink"):
                for backed in ((), (1,)):
                    if backed and dest == "absent":
                        continue
                    for other in ((), (nt,)):           # bystander: none, or the last tensor
                        if set(other) & set(backed):
                            continue
                        for par in (False, True):
                            if par and nt < 2:
                                continue
                            out.append(_cfg(nt, nc, dest, backed, par, other=other))
    for nt in range(1, max_t + 1):                      # sharded requests, as AtomicSaveMC!Sharded
        for nc in range(1, max_c + 1):
            for dest, backed in (("absent", ()), ("file", ()), ("file", (1,))):
                for other in ((), (nt,)):
                    if set(other) & set(backed):
                        continue
                    for k in range(1, nt + 1):
                        if k * nc > nt * nc:
                            continue
                        base = _cfg(nt, nc, dest, backed, shard=True, lim=k * nc, other=other)
                        ns = F.nshards(base) if F.numbered(base) else 0
                        for mask in range(1 << ns):
                            pre = [i + 1 for i in range(ns) if mask >> i & 1]
                            out.append(_cfg(nt, nc, dest, backed, shard=True, lim=k * nc, pre=pre, other=other))
    return out


def bystander_configs(tier: str) -> list:
    """Every placement of the bystanders' file for the configurations in which a bystander FOLLOWS (and, beyond
    the MC bound, precedes) a tensor backed by the destination; plus the other spellings of a backed tensor's path."""
    out = []
    for ov in F.OTHER_VARIANTS:
        out += [
            _cfg(2, 1, "file", (1,), other=(2,), ov=ov),
            _cfg(2, 2, "symlink", (1,), other=(2,), ov=ov),
            _cfg(3, 1, "file", (1,), other=(3,), par=True, ov=ov),
            _cfg(3, 2, "file", (2,), other=(1, 3), ov=ov),                       # beyond the MC bound
            _cfg(2, 1, "file", (1,), other=(2,), shard=True, lim=2, ov=ov),      # one shard = plain name, in place
            _cfg(1, 1, "absent", (), other=(1,), ov=ov),
        ]
        if tier == "thorough":
            out += [
                _cfg(3, 2, "symlink", (1, 2), other=(3,), par=True, ov=ov),
                _cfg(3, 1, "file", (3,), other=(1, 2), ov=ov),
                _cfg(3, 1, "file", (1,), other=(2, 3), shard=True, lim=2, ov=ov),
                _cfg(2, 2, "file", (), other=(1, 2), ov=ov),
            ]
    for bv in ("rel", "hard"):
        out += [
            _cfg(2, 2, "file", (1,), bv=bv),
            _cfg(3, 1, "file", (1, 3), other=(2,), ov="a", bv=bv),
            _cfg(2, 1, "file", (1, 2), shard=True, lim=2, bv=bv),
        ]
        if tier == "thorough":
            out += [_cfg(3, 2, "file", (1, 2), other=(3,), par=True, ov="c", bv=bv),
                    _cfg(3, 1, "file", (1,), shard=True, lim=2, bv=bv)]
    out.append(_cfg(2, 1, "symlink", (1,), other=(2,), ov="a", bv="rel"))
    return out


def beyond_bound_configs() -> list:
    """3 tensors with every other set of tensors backed by the destination (the MC bound is {} / {1})."""
    out = []
    for backed in ((2,), (3,), (1, 2), (1, 3), (2, 3), (1, 2, 3)):
        for dest in ("file", "symlink"):
            for nc in (1, 2):
                for par in (False, True):
                    out.append(_cfg(3, nc, dest, backed, par))
    return out


def sys_configs(tier: str) -> list:
    quick = [
        _cfg(2, 2, "file", (1,)),
        _cfg(2, 1, "symlink", (), np=(2,)),
        _cfg(1, 2, "absent"),
        _cfg(3, 2, "file", (1,), par=True),
        _cfg(2, 2, "symlink", (1,)),
        _cfg(1, 1, "file", (1,)),
        _cfg(3, 1, "absent", (), par=True),
        _cfg(2, 1, shard=True),
        _cfg(2, 1, shard=True, pre=(2,)),
        # sharded request whose tensors all fit ONE shard (plain name): foreign file / the model's own data file
        _cfg(2, 1, "file", (), shard=True, lim=2),
        _cfg(2, 1, "file", (1, 2), shard=True, lim=2),
        _cfg(2, 2, "file", (1,), shard=True, lim=4),
        _cfg(1, 1, "absent", (), shard=True, lim=1),
        _cfg(3, 1, "file", (1,), shard=True, lim=2, pre=()),      # 2 numbered shards beside the model's own plain file
        # concurrent shard drivers (end state judged only): pre-existing numbered shard files / none
        _cfg(3, 1, "absent", (), shard=True, lim=1, par=True, pre=(2,)),
        _cfg(3, 2, "file", (), shard=True, lim=2, par=True, pre=(3,)),
        _cfg(3, 1, "absent", (), shard=True, lim=1, par=True),
    ]
    extra = [
        _cfg(3, 1, "file", (1, 3)),            # two tensors backed by the destination (beyond the MC bound)
        _cfg(2, 1, "file", (1,), np=(2,)),
        _cfg(3, 2, "symlink", (1,), par=True),
        _cfg(3, 1, shard=True, pre=(1, 3)),
    ]
    by = bystander_configs(tier)
    if tier == "quick":
        mc = _thin([c for c in all_model_configs() if c["nt"] <= 2], 1)
        pool = quick + by + mc
    else:
        pool = quick + by + extra + all_model_configs() + beyond_bound_configs()
    seen, out = set(), []
    for c in pool:
        k = F.cfg_key(c)
        if k not in seen:
            seen.add(k)
            out.append(c)
    return out


def _thin(cfgs: list, phase: int) -> list:
    """Quick tier: of the SHARDED model configurations with a bystander (a sharded save never has a tensor backed by
    a destination it writes) every second one; the Python layer and the syscall layer take complementary halves."""
    n, out = 0, []
    for c in cfgs:
        if c["shard"] and c["other"]:
            n += 1
            if n % 2 != phase:
                continue
        out.append(c)
    return out


def py_configs(tier: str) -> list:
    cfgs = all_model_configs() if tier == "thorough" else _thin(all_model_configs(), 0)
    extra = [_cfg(3, 1, "file", (1, 3)), _cfg(3, 2, "symlink", (2,), par=True), _cfg(3, 2, "file", (1, 2, 3)),
             _cfg(2, 1, "file", (1, 2), shard=True, lim=2), _cfg(3, 2, "file", (1, 2, 3), shard=True, lim=3),
             _cfg(3, 1, "file", (1, 2, 3), shard=True, lim=2, pre=(2,))]
    extra += bystander_configs(tier)
    if tier == "thorough":
        seen = {F.cfg_key(c) for c in cfgs + extra}
        extra += [c for c in beyond_bound_configs() if F.cfg_key(c) not in seen]
    return cfgs + extra


# ----------------------------------------------------------------------------------------------
# run -> trace record of AtomicSaveTrace
# ----------------------------------------------------------------------------------------------
def spec_cfg(c: dict) -> dict:
    return {k: c[k] for k in ("nt", "nc", "dest", "backed", "other", "par", "shard", "pre", "lim")}


def to_trace(run: dict):
    """Trace record for TLC from a finished py/sys run; None if the run is unusable (+reason)."""
    c = run["cfg"]
    if run["layer"] == "py":
        if "binding_error" in run:
            raise MachineryError("binding could not be installed: " + run["binding_error"])
        if "harness_error" in run:
            return None, "harness_error: " + run["harness_error"][-300:]
        events, out, tens = run["events"], run["out"], run.get("tensors", {})
        died = bool(run.get("died"))
        vis = F.PY_VIS
    else:
        if run.get("rc") == -999:
            return None, "timeout of the strace'd child"
        if not run.get("begin"):
            return None, "injection hit outside the save (before the begin marker)"
        if run.get("unmapped"):
            return None, "injection landed on a system call that is not an effect of the save (" + run["unmapped"][0] + ")"
        events = run["events"]
        res = run.get("res") or {}
        died = False
        if "out" in res:
            out, tens = res["out"], res.get("tensors", {})
        elif run.get("end"):
            return None, "killed after the save had returned"
        else:
            # the process died inside the save: by the injected SIGKILL, or on its own
            out, tens = "crashed", {}
            died = not any(e["r"] == "kill" for e in events)
        vis = F.SYS_VIS
    fails = [e for e in events if e["r"] == "fail"]
    replaced = any(e["a"] == "Replace" and e["r"] == "ok" for e in events)
    if fails:
        prod = fails[0]["a"] in F.PRODUCING
    else:
        prod = not replaced
    obs = run["obs"]
    invalid = sorted(int(t) for t, v in tens.items() if not v["valid"])
    unusable = sorted(int(t) for t, v in tens.items() if v["valid"] and v["readable"] is not True)
    end = {
        "files": obs["files"], "modes": obs["modes"], "link": obs["link"], "tdir": obs["tdir"],
        "tfile": obs["tfile"], "out": out, "invalid": invalid, "unusable": unusable, "ofile": obs["ofile"],
        "prodFail": bool(prod), "cleanupFail": any(e["a"] in ("RmTmpFile", "RmTmpDir") for e in fails),
    }
    return {"cfg": spec_cfg(c), "vis": vis, "ev": [F.spec_event(e) for e in events], "end": end, "died": died}, None


def fault_of(run: dict):
    """(action, kind) naming the injected fault of a run, for signatures and coverage."""
    for e in run.get("events", []):
        if e["r"] in ("fail", "kill") or e.get("inj"):
            return e["a"], ("kill" if e["r"] == "kill" else "fail")
    return "none", "none"


def cfg_kind(c: dict) -> str:
    if c["shard"]:
        one = not F.numbered(c)
        exists = (c["dest"] != "absent") if one else bool(c["pre"])
        return (f"shard{'1' if one else 'N'}{'-plainfile' if c['dest'] != 'absent' else ''}"
                f"{'-backed' if c['backed'] else ''}{_spelling(c)}{'-other' if c['other'] else ''}{'-pre' if exists else ''}")
    return (f"{c['dest']}{'(other-fs)' if c.get('xdev') else ''}{'-backed' if c['backed'] else ''}{_spelling(c)}"
            f"{'-other' if c['other'] else ''}{'-par' if c['par'] else ''}")


def _spelling(c: dict) -> str:
    return f"({c['bv']})" if c.get("bv", "plain") != "plain" else ""


# ----------------------------------------------------------------------------------------------
# job enumeration
# ----------------------------------------------------------------------------------------------
def py_faults(events: list, tier: str) -> list:
    seen, out = {}, []
    for e in events:
        if e["a"] in ("ReleaseMap", "Invalidate"):
            continue
        key = (e["a"], e["t"], e["j"])
        seen[key] = seen.get(key, 0) + 1
        base = {"a": e["a"], "t": e["t"], "j": e["j"], "occ": seen[key]}
        if e["a"] in ("Callback", "WriteChunk"):
            out.append(dict(base, kind="fail", exc="rt"))           # the tensor / the callback raises
            out.append(dict(base, kind="fail", exc="kbd"))          # ... something that is not an Exception
            if e["a"] == "WriteChunk":
                out.append(dict(base, kind="fail", exc="os", errno="ENOSPC"))
        elif e["a"] == "CheckExists":
            pass
        else:
            out.append(dict(base, kind="fail", exc="os", errno="EIO"))
        out.append(dict(base, kind="kill"))
    if tier == "thorough":
        # fault sequences: a failure while producing the file, then a failing clean-up effect
        # (the close of the `with` block, the unlink or the rmdir of the finally clause)
        singles = [f for f in out if f["kind"] == "fail" and f["a"] in F.PRODUCING and f["a"] != "CloseTmp"]
        nfiles = sum(1 for e in events if e["a"] == "MkTmpDir") or 1   # occurrences are per destination file
        for f in singles:
            for second in ("CloseTmp", "RmTmpFile", "RmTmpDir"):
                for occ in range(1, nfiles + 1):
                    out.append([f, {"a": second, "t": 0, "j": 0, "occ": occ, "kind": "fail", "exc": "os", "errno": "EIO"}])
    return out


def sys_injections(run0: dict, tier: str, rng: random.Random, mode: str = "attach") -> list:
    seen, out = set(), []
    for i, (e, pos) in enumerate(zip(run0["events"], run0["positions"])):
        name, k, is_main = pos
        if (name, k) in seen:
            continue
        if not is_main and mode == "exec" and name not in ("write", "pwrite64", "copy_file_range"):
            continue   # `when=k` counts per thread: a small k of openat/close would hit interpreter start-up instead
        seen.add((name, k))
        errs = ERRNOS.get(name, ["EIO"])
        if tier == "quick":
            errs = [errs[i % len(errs)]] if name != "copy_file_range" else errs[:1] + ["EPERM"]
        for en in errs:
            out.append({"sys": name, "k": k, "kind": "fail", "errno": en, "at": e["a"]})
        if is_main or mode == "exec":
            # a SIGKILL at a worker's k-th call would already fire at the k-th dummy call of the saving thread
            out.append({"sys": name, "k": k, "kind": "kill", "at": e["a"]})
    return out


def _pool_map(fn, jobs, procs):
    if not jobs:
        return []
    ctx = multiprocessing.get_context("fork")
    with ctx.Pool(min(procs, len(jobs))) as pool:
        return pool.map(fn, jobs, chunksize=1)


# ----------------------------------------------------------------------------------------------
# TLC
# ----------------------------------------------------------------------------------------------
def model_check(ctx) -> dict:
    """Exhaustive check of the design + emission of the allowed terminal states per fault position."""
    p1 = os.path.join(SPEC_DIR, "AtomicSaveMC.cfg")       # 1 fault, emits the terminal states
    r1 = ctx.tlc(MC, p1, tag="mc-emit", timeout=600, heap="3g")
    if not r1.ok:
        raise MachineryError(f"AtomicSaveMC (1 fault) failed: violated={r1.violated} errors={r1.errors[:2]}\n{r1.tail(25)}")
    allowed: dict = {}
    nterm = 0
    for rec in r1.records():
        nterm += 1
        c = rec["cfg"]
        ck = F.cfg_key(_cfg(c["nt"], c["nc"], c["dest"], c["backed"], c["par"], c["shard"], c["pre"], lim=c["lim"],
                            other=c["other"]), spec_only=True)
        if rec["obs"]["out"] == "crashed":
            pos = ("crash-after", rec["last"]["a"], rec["last"]["t"] if rec["last"]["a"] in PER_TENSOR else 0,
                   rec["last"]["j"] if rec["last"]["a"] in PER_TENSOR else 0, rec["faults"])
        else:
            ff = rec["ff"]
            pos = ("fail", ff["a"], ff["t"] if ff["a"] in PER_TENSOR else 0, ff["j"] if ff["a"] in PER_TENSOR else 0, rec["faults"])
        if (pos[0] == "crash-after") != (rec["faults"] == 0):
            continue   # keep single-fault and single-crash positions only
        o = rec["obs"]
        allowed.setdefault((ck, pos), set()).add(
            (tuple(o["files"]), o["tdir"], o["tfile"]["k"], o["out"], tuple(o["invalid"]))
        )
    ctx.extra["model_terminal_states"] = nterm
    ctx.extra["model_fault_positions"] = len(allowed)
    ctx.extra["constants"] = {"MaxT": 3, "MaxC": 2, "MaxFaults": [1, 2], "configurations": len(all_model_configs()),
                              "sharded_limits": "1..nt tensors' worth of bytes (incl. one shard = plain name)",
                              "bystanders": "other in {{}, {nt}}"}
    return allowed


class _Background:
    """The 2-fault model check (with action coverage) runs while the real code is being driven."""

    def __init__(self, ctx):
        import threading

        self.ctx, self.res, self.err = ctx, None, None
        self.thread = threading.Thread(target=self._run, daemon=True)
        self.thread.start()

    def _run(self):
        try:
            p2 = os.path.join(SPEC_DIR, "AtomicSaveMC_f2.cfg")    # 2 faults (fault during clean-up), with action coverage
            self.res = self.ctx.tlc(MC, p2, tag="mc-f2", timeout=900, coverage=True, heap="3g", count=False,
                                    workers=max(2, NCPU // 2))
        except BaseException as e:  # noqa: BLE001
            self.err = e

    def finish(self):
        self.thread.join()
        if self.err is not None:
            raise MachineryError(f"AtomicSaveMC (2 faults) could not be run: {self.err!r}")
        model_check_f2(self.ctx, self.res)


def model_check_f2(ctx, r2) -> None:
    ctx.states += r2.distinct
    ctx.transitions += r2.generated
    if not r2.ok:
        raise MachineryError(f"AtomicSaveMC (2 faults) failed: violated={r2.violated} errors={r2.errors[:2]}\n{r2.tail(25)}")
    cov = {k.split("!")[1]: v[0] for k, v in r2.coverage.items() if k.split("!")[1].startswith("S_")}
    never = sorted(k for k, v in cov.items() if v == 0)
    if not cov or never:
        raise MachineryError(f"AtomicSave actions never taken in the bounded model: {never or 'no coverage parsed'}")
    ctx.extra["tlc_action_coverage"] = cov


def validate(ctx, traces: list, tag: str) -> dict:
    """Feed traces to AtomicSaveTrace; returns {tid: {"acc": bool, "at": l, "viol": [...], "dev": [...]}}."""
    res = {i + 1: {"acc": False, "at": 1, "viol": [], "dev": [], "byst": []} for i in range(len(traces))}
    if not traces:
        return res
    path = os.path.join(ctx.scratch, f"traces-{tag}.json")
    with open(path, "w") as f:
        json.dump({"traces": traces}, f)
    r = ctx.tlc(TRACE, os.path.join(SPEC_DIR, "AtomicSaveTrace.cfg"), tag=f"trace-{tag}", env={"TRACE_FILE": path},
                timeout=1500, heap="4g")
    if r.errors or r.returncode != 0 or r.violated:
        raise MachineryError(f"AtomicSaveTrace failed: rc={r.returncode} violated={r.violated} errors={r.errors[:3]}\n"
                             f"{r.error_trace()[:1500]}\n...\n{r.tail(12)}")
    for rec in r.records():
        kind, tid = rec[0], rec[1]
        if kind == "acc":
            res[tid]["acc"] = True
        elif kind == "at":
            res[tid]["at"] = max(res[tid]["at"], rec[2])
        elif kind == "viol":
            res[tid]["viol"] = list(rec[2])
        elif kind == "dev":
            res[tid]["dev"] = list(rec[2])
        elif kind == "byst":
            res[tid]["byst"] = sorted(rec[2])
    return res


# ----------------------------------------------------------------------------------------------
# the check
# ----------------------------------------------------------------------------------------------
def _detail(run: dict, tr: dict, props: list) -> dict:
    d = {
        "layer": run["layer"], "cfg": run["cfg"], "properties": props,
        "events": [f"{e['a']}({e['t']},{e['j']})w{e['w']}:{e['r']}" for e in tr["ev"]],
        "end": tr["end"], "details": run["obs"].get("details"),
    }
    if run["layer"] == "py":
        d["fault"] = run.get("fault")
    else:
        d["inject"] = run.get("inject")
        d["mode"] = run.get("mode")
    a, kind = fault_of(run)
    if tr.get("died"):
        kind = "self-crash"
    d["message"] = (
        f"{'/'.join(props)} violated: {cfg_kind(run['cfg'])} save ({run['layer']} layer), {kind} at {a}: "
        f"destination={tr['end']['files']} out={tr['end']['out']} tmpdir={tr['end']['tdir']} "
        f"tmpfile={tr['end']['tfile']['k']} invalid={tr['end']['invalid']} unusable={tr['end']['unusable']}"
    )
    return d


def judge(ctx, runs: list, tag: str, allowed: dict | None = None) -> None:
    usable, traces = [], []
    for run in runs:
        tr, why = to_trace(run)
        if tr is None:
            # (runs that say nothing - an injection that landed outside the save, a tracer that attached late: their number
            # depends on the load of the machine, it is reported as text and not as a measure of the work done)
            reasons = ctx.extra.setdefault("_discard_reasons", {})
            key = why.split(":")[0][:60]
            reasons[key] = reasons.get(key, 0) + 1
            ctx.extra["unusable_runs_not_judged"] = "; ".join(f"{k}: {v}" for k, v in sorted(reasons.items()))
            continue
        usable.append(run)
        traces.append(tr)
    verdicts = validate(ctx, traces, tag)
    for i, (run, tr) in enumerate(zip(usable, traces), start=1):
        v = verdicts[i]
        a, kind = fault_of(run)
        if tr.get("died"):
            a, kind = (tr["ev"][-1]["a"] if tr["ev"] else "none"), "self-crash"
            ctx.extra["process_died_on_its_own"] = ctx.extra.get("process_died_on_its_own", 0) + 1
        c = run["cfg"]
        key = (run["layer"], cfg_kind(c), a, kind, tr["end"]["out"])
        ctx.case(key, nontrivial=(kind != "none"),
                 sample={"layer": run["layer"], "cfg": F.cfg_key(c), "fault": f"{kind}@{a}",
                         "events": [f"{e['a']}:{e['r']}" for e in tr["ev"]], "end": tr["end"]["files"] + [tr["end"]["out"]]}
                 if kind != "none" and len(ctx.samples) < 3 else None)
        ctx.extra["injected_runs"] = ctx.extra.get("injected_runs", 0) + (1 if kind != "none" else 0)
        if sum(1 for e in tr["ev"] if e["r"] in ("fail", "kill")) >= 2:
            ctx.extra["fault_sequence_runs"] = ctx.extra.get("fault_sequence_runs", 0) + 1
        lay = ctx.extra.setdefault("runs_by_layer", {})
        lay[run["layer"]] = lay.get(run["layer"], 0) + 1
        if c["other"]:
            by = ctx.extra.setdefault("bystander_runs", {})          # runs with a tensor backed by another file, per placement
            by[c["ov"]] = by.get(c["ov"], 0) + 1
            seen_t = [t for t in c["other"] if str(t) in (run.get("tensors") or (run.get("res") or {}).get("tensors") or {})]
            ctx.extra["bystander_tensors_observed_after_save"] = ctx.extra.get("bystander_tensors_observed_after_save", 0) + len(seen_t)
        if c.get("bv", "plain") != "plain":
            sp = ctx.extra.setdefault("backed_spelling_runs", {})
            sp[c["bv"]] = sp.get(c["bv"], 0) + 1
        if v["acc"]:
            ctx.validated += 1
        elif c["shard"] and c["par"]:
            # concurrent shard drivers: outside the action system (AtomicSave.tla, WellFormedCfg); the formulas of the
            # property were evaluated on the observed end state all the same
            ctx.extra["state_only_runs"] = ctx.extra.get("state_only_runs", 0) + 1
        else:
            ctx.extra["divergences"] = ctx.extra.get("divergences", 0) + 1
            ev = tr["ev"]
            nxt = ev[v["at"] - 1] if v["at"] - 1 < len(ev) else "end-state"
            sig = f"{run['layer']}:{cfg_kind(c)}:{kind}@{a}:stuck-at:{nxt['a'] if isinstance(nxt, dict) else nxt}"
            divs = ctx.extra.setdefault("divergence_kinds", {})
            divs[sig] = divs.get(sig, 0) + 1
            smp = ctx.extra.setdefault("divergence_samples", [])
            if len(smp) < 3:
                smp.append({"cfg": F.cfg_key(c), "layer": run["layer"], "matched": v["at"] - 1, "end": tr["end"],
                            "inject": run.get("inject") or run.get("fault"),
                            "events": [f"{e['a']}({e['t']},{e['j']})w{e['w']}:{e['r']}" for e in ev]})
            if len(ctx.notes) < 12:
                ctx.note(f"divergence (model cannot reproduce the run, not a verdict): {sig}; matched {v['at'] - 1}/{len(ev)} "
                         f"events; end={tr['end']['files']} out={tr['end']['out']} tdir={tr['end']['tdir']}")
        for name in v["dev"]:
            ctx.extra["weak_reading_only"] = ctx.extra.get("weak_reading_only", 0) + 1
            if len(ctx.notes) < 12:
                ctx.note(f"outside the statement (destination did not exist before): {name} broken, {cfg_kind(c)} {kind}@{a}")
        if v["viol"]:
            for name in v["viol"]:
                sig = f"C08:{name}:{cfg_kind(c)}:{kind}@{a}"
                det = _detail(run, tr, [name])
                if name == "InvalidateOnlyIfReplaced" and v["byst"]:
                    # TLC found tensors backed by ANOTHER file among the invalid / unreadable ones
                    how = "invalidated" if set(v["byst"]) & set(tr["end"]["invalid"]) else "unreadable"
                    sig = f"C08:{name}:{cfg_kind(c)}:bystander-{how}:{c['ov']}"
                    det["bystanders"] = v["byst"]
                    det["message"] += (f"; tensor(s) {v['byst']} are backed by another file ({F.other_location(c)} "
                                       f"in {'a sibling directory' if c['ov'] == 'a' else 'the destination directory' if c['ov'] == 'b' else 'a sub-directory'}"
                                       f", {tr['end']['ofile']}) which the save did not replace")
                ctx.violation(sig, det)
        # observations outside the statement, kept as numbers
        if tr["end"]["out"] == "raised" and not tr["end"]["prodFail"]:
            ctx.extra["raised_after_replace"] = ctx.extra.get("raised_after_replace", 0) + 1
            if tr["end"]["tdir"]:
                ctx.extra["leftover_tmpdir_after_cleanup_fault"] = ctx.extra.get("leftover_tmpdir_after_cleanup_fault", 0) + 1
            if tr["end"]["unusable"] or (c["backed"] and not tr["end"]["invalid"] and tr["end"]["files"][0] == "New"):
                ctx.extra["stale_valid_tensor_after_cleanup_fault"] = ctx.extra.get("stale_valid_tensor_after_cleanup_fault", 0) + 1
        if run["obs"].get("extra"):
            ctx.extra["unexpected_directory_entries"] = ctx.extra.get("unexpected_directory_entries", 0) + 1
        if allowed is not None:
            _exercise(ctx, run, tr, allowed)


def _exercise(ctx, run: dict, tr: dict, allowed: dict) -> None:
    """Mark the model fault position this run exercised (serial 1-fault positions of the MC configs)."""
    ck = F.cfg_key(run["cfg"], spec_only=True)
    ev = tr["ev"]
    nf = sum(1 for e in ev if e["r"] == "fail" or e["a"] == "CfrFallback")
    pos = None
    backed = F.ext_tensors(run["cfg"])   # OpenSrc is logged for every ExternalTensor, whatever file backs it

    def key_of(b):
        t, j = (b["t"], b["j"]) if b["a"] in PER_TENSOR else (0, 0)
        if b["a"] == "OpenSrc" and t == 0:      # the log does not name the tensor; take the next backed one written
            done = {x["t"] for x in ev[: ev.index(b)] if x["a"] == "WriteChunk" and x["r"] == "ok"}
            rest = [x for x in backed if x not in done]
            t = rest[0] if rest else 0
        return b["a"], t, j

    for i, e in enumerate(ev):
        if e["a"] == "CfrFallback" and nf == 1:
            pos = ("fail", "none", 0, 0, 1)
            break
        if e["r"] == "fail" and nf == 1:
            pos = ("fail",) + key_of(e) + (1,)
            break
        if e["r"] == "kill" and nf == 0:
            for back in (i - 1, i):   # killed before the effect: crash after the previous one (or after this one)
                p = ("crash-after", "none", 0, 0, 0) if back < 0 else ("crash-after",) + key_of(ev[back]) + (0,)
                if (ck, p) in allowed:
                    ctx.extra.setdefault("_exercised", set()).add((ck, p))
            return
    if pos and (ck, pos) in allowed:
        ctx.extra.setdefault("_exercised", set()).add((ck, pos))


def run(ctx):
    rng = random.Random(ctx.seed)
    ctx.rule = ("a run is non-trivial when an effect was made to fail or the process was killed; distinct key = "
                "(layer, configuration kind, effect, fail|kill, outcome)")
    ctx.assumptions = [
        "file contents are compared at chunk granularity (16 KiB chunks, one write(2) each); torn single writes are not modelled",
        "crash = SIGKILL / os._exit of the saving process; durability across power loss (fsync) is outside the statement",
        "strace injection makes the system call fail WITHOUT executing it; SIGKILL arrives before the call executes",
        "FailKeepsOld is applied to failures up to and including the replace; a failing clean-up effect (unlink/rmdir) "
        "excuses the leftover it causes (weaker reading)",
    ]
    t0 = time.time()
    f2 = _Background(ctx)
    allowed = model_check(ctx)
    t_mc = time.time() - t0
    base = os.path.join(ctx.scratch, "runs")
    os.makedirs(base, exist_ok=True)
    procs = max(2, NCPU)

    # ---- Python layer -----------------------------------------------------------------------
    t0 = time.time()
    xcf = xdev_configs(ctx.tier, ctx.scratch)
    ctx.extra["cross_file_system_configurations"] = len(xcf) if xcf else "none: no second writable file system"
    pcfgs = py_configs(ctx.tier) + xcf
    run0 = _pool_map(F.py_job, [{"cfg": c, "dir": os.path.join(base, f"py0-{i}")} for i, c in enumerate(pcfgs)], procs)
    jobs = []
    for i, (c, r0) in enumerate(zip(pcfgs, run0)):
        if "binding_error" in r0:
            raise MachineryError("binding could not be installed: " + r0["binding_error"])
        if "harness_error" in r0:
            raise MachineryError("python layer run 0 failed: " + r0["harness_error"])
        if r0.get("died"):
            continue   # the fault-free save killed its own process: judged below as a crashed run
        faults = py_faults(r0["events"], ctx.tier)
        if ctx.tier == "quick" and c["par"]:
            faults = rng.sample(faults, min(len(faults), 24))
        for n, fl in enumerate(faults):
            jobs.append({"cfg": c, "dir": os.path.join(base, f"py-{i}-{n}"), "fault": fl})
    pruns = _pool_map(F.py_job, jobs, procs)
    notfired = sum(1 for r in pruns if r.get("fired") == 0 and not isinstance(r.get("fault"), list))
    ctx.extra["py_faults_not_reached"] = notfired   # parallel schedules differ from run 0
    judge(ctx, run0 + pruns, "py", allowed)
    ctx.extra["wall_py_s"] = round(time.time() - t0, 1)

    # ---- syscall layer ----------------------------------------------------------------------
    t0 = time.time()
    mode, why = F.strace_available()
    ok = mode is not None
    ctx.extra["syscall_layer"] = (f"strace, mode={mode}" if ok else "UNAVAILABLE: " + why)
    if not ok:
        ctx.note("syscall layer skipped (" + why + "); verdict rests on the Python layer only")
    else:
        scfgs = sys_configs(ctx.tier) + xcf
        s0 = _pool_map(F.sys_job, [{"cfg": c, "dir": os.path.join(base, f"sys0-{i}"), "mode": mode} for i, c in enumerate(scfgs)], procs)
        # a tracer that attached too late (loaded machine) misses the begin marker: such a run says nothing, repeat it
        for attempt in range(3):
            redo = [i for i, r0 in enumerate(s0) if not r0.get("begin")]
            if not redo:
                break
            again = _pool_map(F.sys_job, [{"cfg": scfgs[i], "dir": os.path.join(base, f"sys0-{i}-r{attempt}"), "mode": mode}
                                          for i in redo], max(1, procs // 2))
            for i, r in zip(redo, again):
                s0[i] = r
            ctx.extra["sys_run0_repeated"] = ctx.extra.get("sys_run0_repeated", 0) + len(redo)
        jobs = []
        for i, (c, r0) in enumerate(zip(scfgs, s0)):
            if not r0.get("begin"):
                raise MachineryError(f"syscall layer run 0 unusable for {F.cfg_key(c)}: rc={r0.get('rc')} {r0.get('stderr', '')[-300:]}")
            if not r0.get("end"):
                continue   # the fault-free save killed its own process: judged below as a crashed run
            for n, inj in enumerate(sys_injections(r0, ctx.tier, rng, mode)):
                jobs.append({"cfg": c, "dir": os.path.join(base, f"sys-{i}-{n}"), "inject": inj, "mode": mode})
        sruns = _pool_map(F.sys_job, jobs, procs)
        landed = sum(1 for r in sruns if r.get("injected") or r.get("killed_in"))
        ctx.extra["sys_injections_requested"] = len(jobs)
        ctx.extra["sys_injections_landed"] = landed
        ctx.extra["syscall_run0_sequences"] = {
            F.cfg_key(c): [e["a"] + (f"({e['t']},{e['j']})" if e["a"] == "WriteChunk" else "") for e in r0["events"]]
            for c, r0 in list(zip(scfgs, s0))[:6]
        }
        judge(ctx, s0 + sruns, "sys", allowed)
        if ctx.tier == "thorough" and mode == "attach":
            # the same, with a FRESH interpreter started under strace (positions counted from process start)
            xcfgs = sys_configs("quick")[:9]
            x0 = _pool_map(F.sys_job, [{"cfg": c, "dir": os.path.join(base, f"sysx0-{i}"), "mode": "exec"}
                                       for i, c in enumerate(xcfgs)], procs)
            jobs = []
            for i, (c, r0) in enumerate(zip(xcfgs, x0)):
                if not (r0.get("begin") and r0.get("end")):
                    continue
                for n, inj in enumerate(sys_injections(r0, "quick", rng, "exec")):
                    jobs.append({"cfg": c, "dir": os.path.join(base, f"sysx-{i}-{n}"), "inject": inj, "mode": "exec"})
            xruns = _pool_map(F.sys_job, jobs, procs)
            ctx.extra["sys_exec_mode_runs"] = len(xruns) + len(x0)
            judge(ctx, x0 + xruns, "sysx", allowed)
    ctx.extra["wall_sys_s"] = round(time.time() - t0, 1)
    t0 = time.time()
    f2.finish()
    ctx.extra["wall_tlc_mc_s"] = round(t_mc, 1)
    ctx.extra["wall_waiting_for_mc_f2_s"] = round(time.time() - t0, 1)

    ex = ctx.extra.pop("_exercised", set())
    ctx.extra.pop("_discard_reasons", None)
    missing = sorted(k for k in allowed if k not in ex)
    ctx.extra["model_fault_positions_exercised_on_code"] = len(ex)
    ctx.extra["model_fault_positions_not_exercised"] = len(missing)
    ctx.extra["not_exercised_sample"] = [f"{k[0]}:{k[1]}" for k in missing[:8]]
    ctx.extra.setdefault("divergences", 0)
    ctx.extra.setdefault("injected_runs", 0)
    ctx.exhaustive = False
    if ctx.extra["injected_runs"] == 0:
        raise MachineryError("no injected run was executed")


def replay(ctx, detail) -> bool:
    c = F.norm_cfg(detail["cfg"])
    d = os.path.join(ctx.scratch, "replay")
    if detail.get("layer") == "py":
        run_ = F.py_job({"cfg": c, "dir": d, "fault": detail.get("fault")})
    else:
        mode, _why = F.strace_available()
        if mode is None:
            raise MachineryError("strace is not available for the replay of a syscall-layer run")
        run_ = F.sys_job({"cfg": c, "dir": d, "inject": detail.get("inject"), "mode": detail.get("mode") or mode})
    tr, why = to_trace(run_)
    if tr is None:
        raise MachineryError("replay run unusable: " + str(why))
    v = validate(ctx, [tr], "replay")[1]
    print(f"replayed {detail.get('layer')} run: events={[e['a'] + ':' + e['r'] for e in tr['ev']]} end={tr['end']} -> {v}")
    return any(p in v["viol"] for p in detail.get("properties", [])) or (not detail.get("properties") and bool(v["viol"]))
