"""Shared paths, scratch handling and small helpers for the verification harness."""

from __future__ import annotations

import contextlib
import json
import os
import shutil
import sys
import tempfile

VERIF = os.path.dirname(os.path.dirname(os.path.dirname(os.path.abspath(__file__))))
SPECS = os.path.join(VERIF, "specs")
EVIDENCE = os.path.join(VERIF, "evidence")
REPLAYS = os.path.join(VERIF, "replays")
KNOWN_FINDINGS = os.path.join(VERIF, "known_findings.json")
REPO = os.environ.get("VERIF_REPO", "/repo")
NCPU = os.cpu_count() or 4


class MachineryError(Exception):
    """The check itself could not run (exit code 2); never a verdict about the code."""


def assert_repo_binding() -> None:
    """The harness must exercise /repo's working tree, nothing else."""
    import onnx_ir

    path = os.path.realpath(onnx_ir.__file__)
    want = os.path.realpath(os.path.join(REPO, "src"))
    if not path.startswith(want + os.sep):
        raise MachineryError(f"onnx_ir is imported from {path}, expected under {want}")


@contextlib.contextmanager
def scratch_dir(prefix: str = "vf-"):
    base = os.environ.get("VERIF_SCRATCH") or tempfile.gettempdir()
    d = tempfile.mkdtemp(prefix=prefix, dir=base)
    try:
        yield d
    finally:
        if not os.environ.get("VERIF_KEEP_SCRATCH"):     # (development aid: look at TLC's output after a failure)
            shutil.rmtree(d, ignore_errors=True)


def seed_from_env(default: int = 20260924) -> int:
    s = os.environ.get("VERIF_SEED")
    if s is None or s == "":
        return default
    try:
        return int(s) & 0x7FFFFFFF
    except ValueError:
        return default


def jdump(obj) -> str:
    return json.dumps(obj, sort_keys=True, default=str)


def eprint(*a) -> None:
    print(*a, file=sys.stderr, flush=True)
